import FoxModel.Basic
/-
  FoxModel.Model.Parse — executable model of the pattern validator `(*Router).parseRoute` (fox.go) and of the
  wildcard extractor `parseWildcard` (node.go). Core Lean only.

  The model follows the Go functions transition by transition: one `step` = one iteration of the Go `for` loop,
  the state record `PSt` has exactly the Go locals, and the checks are made in the Go order (so the *reason* of a
  rejection is the Go one as well). Every Go index / slice expression is evaluated through `s[i]?` and yields
  `Fail.panic` when it is out of range: that the validator never panics is theorem `Fox.C10.parse_total`, not an
  artefact of a totalised definition.
-/
set_option linter.unusedVariables false   -- `h` of `match h : …` is used by `decreasing_by`

namespace Fox.Model
open Fox

/-- the rejection reasons of `parseRoute`, one per `fmt.Errorf` call site, in source order -/
inductive ErrKind where
  | missingSlash | leadingDot | leadingDash
  | emptyParam | afterParam | keyTooLargeParam | inParam
  | emptyCatchAll | afterCatchAll | consecutive | keyTooLargeCatchAll | inCatchAll
  | catchAllInHost | starNoBrace | tooManyParams
  | dashAfterDot | consecutiveDot | dashBeforeDot | labelTooLongMid | illegalHostChar
  | trailingDash | trailingDot | allNumeric | labelTooLongEnd | hostTooLong
  | unclosedParam | trailingStar | unclosedCatchAll
deriving DecidableEq, Repr, Inhabited

inductive ParseResult where
  /-- accepted: number of wildcards, index of the first '/' (= length of the hostname part) -/
  | ok (paramCnt : Nat) (endHost : Nat)
  | invalid (reason : ErrKind)
  /-- a Go run-time panic (index out of range) -/
  | panic
deriving DecidableEq, Repr, Inhabited

inductive Fail where
  | invalid (e : ErrKind)
  | panic
deriving DecidableEq, Repr, Inhabited

/-- Go `stateDefault / stateParam / stateCatchAll` -/
inductive PState where
  | default | param | catchAll
deriving DecidableEq, Repr, Inhabited

/-- the local variables of `parseRoute` -/
structure PSt where
  state : PState := .default
  previous : PState := .default
  paramCnt : Nat := 0
  countStatic : Nat := 0
  startParam : Nat := 0
  inParam : Bool := false
  nonNumeric : Bool := false
  partlen : Nat := 0
  totallen : Nat := 0
  last : UInt8 := DOT
  delim : UInt8
  i : Nat := 0
deriving Repr, Inhabited, DecidableEq

/-- Go `strings.IndexByte` -/
def indexByte (c : UInt8) : Bytes → Option Nat
  | [] => none
  | b :: bs => if b = c then some 0 else (indexByte c bs).map (· + 1)

def isLetter (c : UInt8) : Bool := (97 ≤ c && c ≤ 122) || (65 ≤ c && c ≤ 90) || c == 95
def isDigit (c : UInt8) : Bool := 48 ≤ c && c ≤ 57

/-- Go `i+1 < len(url) && P(url[i+1])` (short circuit) -/
def nextIs (s : Bytes) (i : Nat) (P : UInt8 → Bool) : Except Fail Bool :=
  if i + 1 < s.length then
    match s[i + 1]? with
    | none => .error .panic
    | some d => .ok (P d)
  else .ok false

/-- Go `last == '.' && url[i-1] != '}'` (short circuit; `url[i-1]` with i = 0 is index -1: panic) -/
def dotAfterDot (s : Bytes) (last : UInt8) (i : Nat) : Except Fail Bool :=
  if last = DOT then
    if i = 0 then .error .panic else
    match s[i - 1]? with
    | none => .error .panic
    | some p => .ok (p != RBR)
  else .ok false

/-- `if i == endHost { delim = slashDelim }` -/
def setDelim (eh : Nat) (st : PSt) : PSt := if st.i = eh then { st with delim := SLASH } else st

/-- `if paramCnt > maxParams {…}; i++` at the end of the default case -/
def checkCnt (mp : Nat) (st : PSt) : Except Fail PSt :=
  if st.paramCnt > mp then .error (.invalid .tooManyParams) else .ok { st with i := st.i + 1 }

/-- the `i < endHost` block of the default case: one literal hostname byte `c = url[i]` -/
def hostByte (s : Bytes) (st : PSt) (c : UInt8) : Except Fail PSt :=
  if isLetter c then .ok { st with nonNumeric := true, partlen := st.partlen + 1, last := c }
  else if isDigit c then .ok { st with partlen := st.partlen + 1, last := c }
  else if c = DASH then
    if st.last = DOT then .error (.invalid .dashAfterDot)
    else .ok { st with partlen := st.partlen + 1, nonNumeric := true, last := c }
  else if c = DOT then
    match dotAfterDot s st.last st.i with
    | .error e => .error e
    | .ok true => .error (.invalid .consecutiveDot)
    | .ok false =>
      if st.last = DASH then .error (.invalid .dashBeforeDot)
      else if st.partlen > 63 then .error (.invalid .labelTooLongMid)
      else .ok { st with totallen := st.totallen + (st.partlen + 1), partlen := 0, last := c }
  else .error (.invalid .illegalHostChar)

/-- the `default:` case of the switch, after `if i == endHost { delim = slashDelim }`; `c = url[i]` -/
def defaultStep (mp eh : Nat) (s : Bytes) (st : PSt) (c : UInt8) : Except Fail PSt :=
  if c = LBR then
    checkCnt mp { st with state := .param, startParam := st.i, paramCnt := st.paramCnt + 1 }
  else if c = STAR then
    if st.i < eh then .error (.invalid .catchAllInHost)
    else
      match nextIs s st.i (fun d => d != LBR) with
      | .error e => .error e
      | .ok true => .error (.invalid .starNoBrace)
      | .ok false =>
        checkCnt mp { st with state := .catchAll, i := st.i + 1, startParam := st.i + 1,
                              paramCnt := st.paramCnt + 1 }
  else if st.i < eh then
    match hostByte s { st with countStatic := st.countStatic + 1 } c with
    | .error e => .error e
    | .ok st' => checkCnt mp st'
  else checkCnt mp { st with countStatic := st.countStatic + 1 }

/-- one iteration of the `for i < len(url)` loop -/
def step (mp mk eh : Nat) (s : Bytes) (st : PSt) : Except Fail PSt :=
  match s[st.i]? with
  | none => .error .panic
  | some c =>
    match st.state with
    | .param =>
      if c = RBR then
        if !st.inParam then .error (.invalid .emptyParam)
        else
          match nextIs s st.i (fun d => d != st.delim && d != SLASH) with
          | .error e => .error e
          | .ok true => .error (.invalid .afterParam)
          | .ok false =>
            .ok { st with inParam := false, nonNumeric := if st.i < eh then true else st.nonNumeric,
                          countStatic := 0, previous := st.state, state := .default, i := st.i + 1 }
      else if st.i - st.startParam > mk then .error (.invalid .keyTooLargeParam)
      else if c = st.delim || c = SLASH || c = STAR || c = LBR then .error (.invalid .inParam)
      else .ok { st with inParam := true, i := st.i + 1 }
    | .catchAll =>
      if c = RBR then
        if !st.inParam then .error (.invalid .emptyCatchAll)
        else
          match nextIs s st.i (fun d => d != SLASH) with
          | .error e => .error e
          | .ok true => .error (.invalid .afterCatchAll)
          | .ok false =>
            if st.previous = .catchAll ∧ st.countStatic ≤ 1 then .error (.invalid .consecutive)
            else .ok { st with inParam := false, countStatic := 0, previous := st.state, state := .default,
                               i := st.i + 1 }
      else if st.i - st.startParam > mk then .error (.invalid .keyTooLargeCatchAll)
      else if c = SLASH || c = STAR || c = LBR then .error (.invalid .inCatchAll)
      else .ok { st with inParam := true, i := st.i + 1 }
    | .default =>
      defaultStep mp eh s (setDelim eh st) c

theorem hostByte_i {s st c st'} (h : hostByte s st c = .ok st') : st'.i = st.i := by
  unfold hostByte at h
  repeat' split at h
  all_goals first | (injection h with h; subst h; rfl) | (cases h)

theorem checkCnt_i {mp st st'} (h : checkCnt mp st = .ok st') : st'.i = st.i + 1 := by
  unfold checkCnt at h; split at h
  · cases h
  · injection h with h; subst h; rfl

theorem setDelim_i (eh st) : (setDelim eh st).i = st.i := by
  unfold setDelim; split <;> rfl

theorem defaultStep_adv {mp eh s st c st'} (h : defaultStep mp eh s st c = .ok st') : st.i < st'.i := by
  unfold defaultStep at h
  repeat' split at h
  all_goals try (cases h; done)
  all_goals try (have := checkCnt_i h; simp at this; omega)
  rename_i hb; have := hostByte_i hb; have := checkCnt_i h; simp at *; omega

theorem step_adv {mp mk eh s st st'} (h : step mp mk eh s st = .ok st') : st.i < st'.i := by
  unfold step at h
  repeat' split at h
  all_goals try (cases h; done)
  all_goals try (injection h with h; subst h; simp; done)
  have := defaultStep_adv h; rw [setDelim_i] at this; exact this

/-- the loop `for i < len(url) { … }` -/
def loop (mp mk eh : Nat) (s : Bytes) (st : PSt) : Except Fail PSt :=
  if st.i < s.length then
    match h : step mp mk eh s st with
    | .error e => .error e
    | .ok st' => loop mp mk eh s st'
  else .ok st
termination_by s.length - st.i
decreasing_by have := step_adv h; omega

/-- the block `if endHost > 0 {…}` after the loop -/
def hostFinish (eh : Nat) (s : Bytes) (st : PSt) : Except Fail Unit :=
  if eh > 0 then
    if st.last = DASH then .error (.invalid .trailingDash)
    else match s[eh - 1]? with
      | none => .error .panic
      | some c =>
        if c = DOT then .error (.invalid .trailingDot)
        else if !st.nonNumeric then .error (.invalid .allNumeric)
        else if st.partlen > 63 then .error (.invalid .labelTooLongEnd)
        else if st.totallen + st.partlen > 255 then .error (.invalid .hostTooLong)   -- totallen += partlen
        else .ok ()
  else .ok ()

/-- the code after the loop -/
def finish (eh : Nat) (s : Bytes) (st : PSt) : Except Fail (Nat × Nat) :=
  match hostFinish eh s st with
  | .error e => .error e
  | .ok () =>
    match st.state with
    | .param => .error (.invalid .unclosedParam)
    | .catchAll =>
      if s.length = 0 then .error .panic else
      match s[s.length - 1]? with
      | none => .error .panic
      | some c => if c = STAR then .error (.invalid .trailingStar) else .error (.invalid .unclosedCatchAll)
    | .default => .ok (st.paramCnt, eh)

/-- the initial values of the locals -/
def init (eh : Nat) : PSt := { delim := if eh = 0 then SLASH else DOT }

/-- the loop and the checks after it, from the initial state -/
def runFrom (mp mk eh : Nat) (s : Bytes) : ParseResult :=
  match loop mp mk eh s (init eh) with
  | .error (.invalid e) => .invalid e
  | .error .panic => .panic
  | .ok st =>
    match finish eh s st with
    | .error (.invalid e) => .invalid e
    | .error .panic => .panic
    | .ok (n, e) => .ok n e

/-- `(*Router).parseRoute` with `maxParams = mp`, `maxParamKeyBytes = mk` -/
def parseRoute (mp mk : Nat) (s : Bytes) : ParseResult :=
  match indexByte SLASH s with
  | none => .invalid .missingSlash
  | some eh =>
    if s.head? = some DOT then .invalid .leadingDot
    else if s.head? = some DASH then .invalid .leadingDash
    else runFrom mp mk eh s

/-! ## parseWildcard (node.go) -/

/-- Go `param{key, end, catchAll}` (`end = -1`: the wildcard closes the string) -/
structure WParam where
  key : Bytes
  «end» : Int
  catchAll : Bool
deriving DecidableEq, Repr, Inhabited

structure WSt where
  state : PState := .default
  start : Nat := 0
  i : Nat := 0
  params : List WParam := []
deriving Repr, Inhabited

/-- Go `segment[a:b]` (panics unless a ≤ b ≤ len) -/
def slice (s : Bytes) (a b : Nat) : Option Bytes :=
  if a ≤ b ∧ b ≤ s.length then some ((s.drop a).take (b - a)) else none

/-- the `if segment[i] == '}' {…}` block shared by the two wildcard states -/
def wClose (s : Bytes) (st : WSt) (ca : Bool) : Option WSt :=
  -- `len(segment[i+1:]) > 0`
  if st.i + 1 ≤ s.length then
    let e : Int := if s.length - (st.i + 1) > 0 then ((st.i + 1 : Nat) : Int) else -1
    match slice s st.start st.i with
    | none => none
    | some k => some { st with params := st.params ++ [⟨k, e, ca⟩], start := 0, state := .default, i := st.i + 1 }
  else none

/-- one iteration of the loop of `parseWildcard`; `none` = Go panic -/
def wStep (s : Bytes) (st : WSt) : Option WSt :=
  match s[st.i]? with
  | none => none
  | some c =>
    match st.state with
    | .param => if c = RBR then wClose s st false else some { st with i := st.i + 1 }
    | .catchAll => if c = RBR then wClose s st true else some { st with i := st.i + 1 }
    | .default =>
      if c = STAR then some { st with state := .catchAll, i := st.i + 2, start := st.i + 2 }
      else if c = LBR then some { st with state := .param, i := st.i + 1, start := st.i + 1 }
      else some { st with i := st.i + 1 }

theorem wStep_adv {s st st'} (h : wStep s st = some st') : st.i < st'.i := by
  unfold wStep at h
  repeat' split at h
  all_goals try (cases h; done)
  all_goals try (unfold wClose at h; repeat' split at h)
  all_goals try (cases h; done)
  all_goals (injection h with h; subst h; simp)

def wLoop (s : Bytes) (st : WSt) : Option WSt :=
  if st.i < s.length then
    match h : wStep s st with
    | none => none
    | some st' => wLoop s st'
  else some st
termination_by s.length - st.i
decreasing_by have := wStep_adv h; omega

/-- `parseWildcard(segment)`; `none` = Go panic -/
def parseWildcard (s : Bytes) : Option (List WParam) := (wLoop s {}).map (·.params)

end Fox.Model
