/-
  FoxModel.Model.Recorder — the fox `recorder` (response_writer.go) as a pure state machine, together with the
  underlying `http.ResponseWriter` it wraps (a parameter: optional-interface shape + fault plan + ghost log) and the
  Context helpers String / Blob / Stream / Redirect (context.go). Core Lean only (linked into `foxmodel`).

  Every definition follows the Go code branch by branch; byte contents are abstracted to lengths (the order/content of
  the forwarded bytes is checked model-free by the harness).
-/
namespace Fox.Recorder

/-- which optional interfaces the underlying writer implements -/
structure Shape where
  rf : Bool   -- io.ReaderFrom
  fl : Bool   -- http.Flusher
  fe : Bool   -- interface{ FlushError() error }
  hj : Bool   -- http.Hijacker
  pu : Bool   -- http.Pusher
  dl : Bool   -- SetReadDeadline / SetWriteDeadline
  fd : Bool   -- EnableFullDuplex
deriving DecidableEq, Repr, Inhabited

/-- events observed at the underlying writer (the ghost log) -/
inductive Ev where
  | hdr (code : Nat)      -- WriteHeader(code) reached the underlying writer (explicit or implicit)
  | body (n : Nat)        -- the underlying writer accepted n body bytes
  | flush | flushE | hijack | push | rdl | wdl | fdx
deriving DecidableEq, Repr, Inhabited

inductive Err where
  | ok | fault | src | hijacked | short | notSupported | invalidRedirect
deriving DecidableEq, Repr, Inhabited

/-- Content-Type header of the response, as far as the helpers are concerned -/
inductive CT where
  | none | textPlain | blob | stream | html
deriving DecidableEq, Repr, Inhabited

/-- a status code is final unless it is informational; 101 counts as final -/
def isFinal (c : Nat) : Bool := c == 101 || !(decide (100 ≤ c) && decide (c ≤ 199))

/-- the underlying writer -/
structure Under where
  budget : Option Nat          -- accepts that many more body bytes, then fails; `none` = never fails
  wrote : Bool := false        -- a final header has reached it
  hijacked : Bool := false
  ct : CT := .none
  log : List Ev := []          -- chronological
deriving DecidableEq, Repr, Inhabited

def Under.emit (u : Under) (e : Ev) : Under := { u with log := u.log ++ [e] }

def Under.writeHeader (u : Under) (c : Nat) : Under :=
  { u.emit (.hdr c) with wrote := u.wrote || isFinal c }

def accept (budget : Option Nat) (n : Nat) : Nat :=
  match budget with
  | none => n
  | some k => min n k

def Under.take (u : Under) (a : Nat) : Under :=
  let u' := { u with budget := u.budget.map (· - a) }
  if a > 0 then u'.emit (.body a) else u'

/-- `Write(buf)` of the underlying writer, len buf = n: net/http-like (refuses after Hijack, implicit 200) -/
def Under.write (u : Under) (n : Nat) : Under × Nat × Err :=
  if u.hijacked then (u, 0, .hijacked) else
  let u := if u.wrote then u else u.writeHeader 200
  let a := accept u.budget n
  (u.take a, a, if a < n then .fault else .ok)

/-- `ReadFrom(src)` of an underlying writer that has it; net/http-like: copies chunk by chunk through its own Write,
    the implicit 200 header is produced only when bytes are actually written. `e` = the source ends with an error. -/
def Under.readFrom (u : Under) : List Nat → Bool → Under × Nat × Err
  | [], e => (u, 0, if e then .src else .ok)
  | c :: cs, e =>
    if c = 0 then u.readFrom cs e else
    if u.hijacked then (u, 0, .hijacked) else
    let a := accept u.budget c
    let u1 := if a > 0 && !u.wrote then u.writeHeader 200 else u
    let u2 := u1.take a
    if a < c then (u2, a, .fault) else
    let (u3, n, er) := u2.readFrom cs e
    (u3, a + n, er)

/-- recorder fields -/
structure Rec where
  size : Int := -1       -- notWritten = -1
  status : Nat := 200
  hijacked : Bool := false
deriving DecidableEq, Repr, Inhabited

structure St where
  r : Rec
  u : Under
deriving DecidableEq, Repr, Inhabited

def init (k : Option Nat) : St := { r := {}, u := { budget := k } }

def St.Status (s : St) : Nat := s.r.status
def St.Written (s : St) : Bool := s.r.size != -1
def St.Size (s : St) : Int := if s.r.size < 0 then 0 else s.r.size

/-- recorder.WriteHeader -/
def writeHeader (s : St) (code : Nat) : St × String :=
  if s.r.hijacked then (s, "wh-hijacked")
  else if s.r.size ≠ -1 then (s, "wh-superfluous")
  else if 100 ≤ code ∧ code ≤ 199 ∧ code ≠ 101 then ({ s with u := s.u.writeHeader code }, "wh-1xx")
  else ({ r := { s.r with size := 0, status := code }, u := s.u.writeHeader code }, "wh-final")

/-- recorder.Write -/
def write (s : St) (n : Nat) : St × Nat × Err :=
  if s.r.hijacked then (s, 0, .hijacked) else
  let s1 : St := if s.r.size = -1 then { r := { s.r with size := 0 }, u := s.u.writeHeader s.r.status } else s
  let (u', a, e) := s1.u.write n
  ({ r := { s1.r with size := s1.r.size + a }, u := u' }, a, e)

/-- recorder.WriteString: same guards, then io.WriteString on an underlying writer without WriteString = Write -/
def writeString (s : St) (n : Nat) : St × Nat × Err := write s n

/-- io.CopyBuffer(onlyWrite{r}, src, buf): one recorder.Write per non-empty read, stops at the first error / short write -/
def copyFallback (s : St) : List Nat → Bool → St × Nat × Err
  | [], e => (s, 0, if e then .src else .ok)
  | c :: cs, e =>
    if c = 0 then copyFallback s cs e else
    let (s', nw, ew) := write s c
    if ew ≠ .ok then (s', nw, ew)
    else if nw ≠ c then (s', nw, .short)
    else
      let (s'', n, er) := copyFallback s' cs e
      (s'', nw + n, er)

/-- recorder.ReadFrom -/
def readFrom (sh : Shape) (s : St) (chunks : List Nat) (e : Bool) : St × Nat × Err :=
  if sh.rf then
    let (u', n, err) := s.u.readFrom chunks e
    let r' : Rec := if n > 0 then { s.r with size := (if s.r.size = -1 then 0 else s.r.size) + n } else s.r
    ({ r := r', u := u' }, n, err)
  else copyFallback s chunks e

/-- recorder.FlushError -/
def flushError (sh : Shape) (s : St) : St × Err :=
  if sh.fe then
    let s1 := if s.r.size = -1 then (writeHeader s s.r.status).1 else s
    ({ s1 with u := s1.u.emit .flushE }, if s1.u.budget = some 0 then .fault else .ok)
  else if sh.fl then
    let s1 := if s.r.size = -1 then (writeHeader s s.r.status).1 else s
    ({ s1 with u := s1.u.emit .flush }, .ok)
  else (s, .notSupported)

def hijack (sh : Shape) (s : St) : St × Err :=
  if sh.hj then
    ({ r := { s.r with hijacked := true }, u := { s.u.emit .hijack with hijacked := true } }, .ok)
  else (s, .notSupported)

def push (sh : Shape) (s : St) : St × Err :=
  if sh.pu then ({ s with u := s.u.emit .push }, .ok) else (s, .notSupported)
def setReadDeadline (sh : Shape) (s : St) : St × Err :=
  if sh.dl then ({ s with u := s.u.emit .rdl }, .ok) else (s, .notSupported)
def setWriteDeadline (sh : Shape) (s : St) : St × Err :=
  if sh.dl then ({ s with u := s.u.emit .wdl }, .ok) else (s, .notSupported)
def enableFullDuplex (sh : Shape) (s : St) : St × Err :=
  if sh.fd then ({ s with u := s.u.emit .fdx }, .ok) else (s, .notSupported)

def setCT (s : St) (ct : CT) : St := { s with u := { s.u with ct := ct } }

inductive Call where
  | wh (code : Nat) | wr (n : Nat) | ws (n : Nat) | rf (chunks : List Nat) (e : Bool)
  | fl | hj | pu | rd | wd | fd
  | str (code n : Nat) | blob (code n : Nat) | stream (code : Nat) (chunks : List Nat) (e : Bool)
  | redir (code bodyLen : Nat)      -- bodyLen: length of the body http.Redirect writes (stdlib, given by the case)
deriving DecidableEq, Repr, Inhabited

/-- what a call returns: a byte count where the Go method has one, and the error class -/
structure Ret where
  n : Option Nat := none
  err : Err := .ok
deriving DecidableEq, Repr, Inhabited

def step (sh : Shape) (s : St) : Call → St × Ret
  | .wh c => ((writeHeader s c).1, {})
  | .wr n => let (s', a, e) := write s n; (s', { n := some a, err := e })
  | .ws n => let (s', a, e) := writeString s n; (s', { n := some a, err := e })
  | .rf cs e => let (s', a, er) := readFrom sh s cs e; (s', { n := some a, err := er })
  | .fl => let (s', e) := flushError sh s; (s', { err := e })
  | .hj => let (s', e) := hijack sh s; (s', { err := e })
  | .pu => let (s', e) := push sh s; (s', { err := e })
  | .rd => let (s', e) := setReadDeadline sh s; (s', { err := e })
  | .wd => let (s', e) := setWriteDeadline sh s; (s', { err := e })
  | .fd => let (s', e) := enableFullDuplex sh s; (s', { err := e })
  | .str code n =>          -- Context.String
    let s0 := if s.u.ct = .none then setCT s .textPlain else s
    let s1 := (writeHeader s0 code).1
    let (s2, _, e) := write s1 n
    (s2, { err := e })
  | .blob code n =>         -- Context.Blob
    let s1 := (writeHeader (setCT s .blob) code).1
    let (s2, _, e) := write s1 n
    (s2, { err := e })
  | .stream code cs er =>   -- Context.Stream: io.Copy(c.w, r) picks the recorder's ReadFrom
    let s1 := (writeHeader (setCT s .stream) code).1
    let (s2, _, e) := readFrom sh s1 cs er
    (s2, { err := e })
  | .redir code bodyLen =>  -- Context.Redirect (GET request): guard, then http.Redirect = header + one Write
    if code < 300 ∨ code > 308 then (s, { err := .invalidRedirect }) else
    if s.u.ct = .none then
      let s1 := (writeHeader (setCT s .html) code).1
      let (s2, _, _) := write s1 bodyLen
      (s2, { err := .ok })
    else    -- a Content-Type is already set: http.Redirect sends the header only
      ((writeHeader s code).1, { err := .ok })

/-- answers of the recorder after a call -/
structure Ans where
  status : Nat
  written : Bool
  size : Int
deriving DecidableEq, Repr, Inhabited

def St.ans (s : St) : Ans := { status := s.Status, written := s.Written, size := s.Size }

/-- run a call list; per call: the recorder's answers and the return value -/
def run (sh : Shape) (s : St) : List Call → St × List (Ans × Ret)
  | [] => (s, [])
  | c :: cs =>
    let (s1, r) := step sh s c
    let (s2, rs) := run sh s1 cs
    (s2, (s1.ans, r) :: rs)

end Fox.Recorder
