import FoxModel.Generated.Recovery
/-
  FoxModel.Model.Recovery — the decision taken by fox's Recovery middleware (recovery.go `recovery`, `connIsBroken`)
  and the header redaction of the request dump, as pure functions; plus the specification (what property C15 demands).
  Core Lean only. Header names and messages are lists of byte values (`List Nat`, kernel friendly).
-/
namespace Fox.Recovery

abbrev Str := List Nat

/-- class of the value passed to `panic` -/
inductive PanicVal where
  | error                    -- an `error` not wrapping http.ErrAbortHandler
  | wrappedAbort             -- fmt.Errorf("…%w", http.ErrAbortHandler)
  | abort                    -- http.ErrAbortHandler itself
  | str                      -- a string
  | nilLike                  -- panic(nil): the runtime turns it into *runtime.PanicNilError (an error)
  | custom                   -- a value of a non-error type
  | opSyscall (msg : Str)    -- *net.OpError whose chain has an *os.SyscallError with text msg
  | opPlain (msg : Str)      -- *net.OpError without *os.SyscallError (text msg)
  | wrappedOp (msg : Str)    -- an error wrapping such a *net.OpError∘*os.SyscallError (fails the type assertion)
deriving DecidableEq, Repr, Inhabited

/-- what the handler had sent when it panicked -/
inductive Progress where
  | nothing | headerOnly | partialBody
deriving DecidableEq, Repr, Inhabited

def Progress.written : Progress → Bool
  | .nothing => false | _ => true

def lowerB (b : Nat) : Nat := if 65 ≤ b ∧ b ≤ 90 then b + 32 else b
def lower (s : Str) : Str := s.map lowerB

def isPrefix : Str → Str → Bool
  | [], _ => true
  | _ :: _, [] => false
  | a :: as, b :: bs => a == b && isPrefix as bs

/-- strings.Contains on bytes -/
def contains (s sub : Str) : Bool :=
  match s with
  | [] => sub.isEmpty
  | _ :: rest => isPrefix sub s || contains rest sub

/-- `err.(error)` succeeds -/
def PanicVal.isError : PanicVal → Bool
  | .str => false | .custom => false | _ => true

/-- `errors.Is(e, http.ErrAbortHandler)` -/
def PanicVal.isAbort : PanicVal → Bool
  | .abort => true | .wrappedAbort => true | _ => false

/-- recovery.go connIsBroken: type assertion to *net.OpError, errors.As to *os.SyscallError, lower-cased text contains
    one of the regenerated substrings -/
def connIsBroken : PanicVal → Bool
  | .opSyscall msg => Generated.brokenConnSubstringsBytes.any fun sub => contains (lower msg) sub
  | _ => false

/-- the comparison recovery.go applies between a dumped header name and a list entry -/
def nameMatches (entry name : Str) : Bool :=
  if Generated.redactCompareMode = 1 then lower entry == lower name      -- strings.EqualFold (ASCII part)
  else entry == name

/-- a dumped header line `name: value` is replaced by `name: <redacted>` -/
def redacted (name : Str) : Bool := Generated.blacklistedHeaderBytes.any fun h => nameMatches h name

structure Decision where
  repanic : Bool      -- the value is re-raised unchanged
  logged : Bool       -- a record is written to the slog handler
  handled : Bool      -- the RecoveryFunc is called (default: 500 Internal Server Error)
  redactedNames : List Str
deriving DecidableEq, Repr, Inhabited

/-- recovery.go `recovery`, branch by branch -/
def recovery (v : PanicVal) (p : Progress) (headers : List Str) : Decision :=
  if v.isError && v.isAbort then { repanic := true, logged := false, handled := false, redactedNames := [] }
  else
    { repanic := false, logged := true,
      handled := !p.written && !connIsBroken v,
      redactedNames := headers.filter redacted }

/-! ### specification -/
namespace Spec

def a (s : String) : Str := s.toList.map Char.toNat

/-- credential-bearing header names (lower case) -/
def sensitive : List Str :=
  [a "authorization", a "proxy-authorization", a "cookie", a "set-cookie", a "x-csrf-token", a "x-vault-token"]

def isSensitive (name : Str) : Bool := sensitive.contains (lower name)

/-- the panic value reports a broken client connection -/
def connBroken : PanicVal → Bool
  | .opSyscall msg => contains (lower msg) (a "broken pipe") || contains (lower msg) (a "connection reset by peer")
  | _ => false

/-- demanded outcome: (re-panics, the client gets a fresh 500) -/
def outcome (v : PanicVal) (p : Progress) : Bool × Bool :=
  match v with
  | .abort => (true, false)
  | .wrappedAbort => (true, false)
  | _ => (false, p == .nothing && !connBroken v)

end Spec
end Fox.Recovery

namespace Fox.Recovery

/-- how a managed transaction function / single-operation helper ends -/
inductive TxnEnd where
  | panics | returnsError | goexits | completes (effective : Bool)
deriving DecidableEq, Repr, Inhabited

structure TxnObs where
  out : String          -- "repanic:same" | "returned" | "error"
  routesSame : Bool
  lockFree : Bool
deriving DecidableEq, Repr, Inhabited

/-- Router.Updates / Router.View (write = Updates), from the regenerated shape of their deferred function:
    `defer func(){ if p := recover(); p != nil { txn.Abort(); panic(p) }; txn.Abort() }()` -/
def managed (write : Bool) (e : TxnEnd) : TxnObs :=
  let recovers := if write then Generated.updates_recovers else Generated.view_recovers
  let abortP := if write then Generated.updates_abortOnPanicPath else Generated.view_abortOnPanicPath
  let repanics := if write then Generated.updates_repanics else Generated.view_repanics
  let abortN := if write then Generated.updates_abortOnNormalPath else Generated.view_abortOnNormalPath
  match e with
  | .panics =>
    if recovers then
      { out := if repanics then "repanic:same" else "returned", routesSame := true,
        lockFree := !write || abortP || (!repanics && abortN) }
    else { out := "repanic:same", routesSame := true, lockFree := !write || abortN }
  | .returnsError => { out := "error", routesSame := true, lockFree := !write || abortN }
  -- runtime.Goexit inside the callback: the deferred function runs, recover() returns nil, the normal path is taken
  | .goexits => { out := "goexit", routesSame := true, lockFree := !write || abortN }
  | .completes eff => { out := "returned", routesSame := !(write && eff), lockFree := true }

/-- Router.Handle / Update with an option that panics while the route is built: `defer txn.Abort()` is already armed -/
def singleOp (idx : Nat) : TxnObs :=
  { out := "repanic:same", routesSame := true, lockFree := Generated.singleOpDeferAbortFirst.getD idx false }

end Fox.Recovery
