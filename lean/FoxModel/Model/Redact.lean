import FoxModel.Model.Recovery
/-
  FoxModel.Model.Redact — the request dump of recovery.go at byte level.

      httpRequest, _ := httputil.DumpRequest(c.Request(), false)
      if before, after, found := bytes.Cut(httpRequest, "\r\n"); found {
          sb.Write(before)
          for header := range iterutil.SplitBytesSeq(after, "\r\n") {
              sb.Write("\r\n")
              idx := bytes.IndexByte(header, ':')
              if idx < 0 { continue }
              if <header[:idx] is on the list, compared with strings.EqualFold> {
                  sb.Write(header[:idx]); sb.WriteString(": <redacted>"); continue }
              sb.Write(header) } }

  `cut` is bytes.Cut with the separator "\r\n" (first occurrence), `split` is bytes.Split / iterutil.SplitBytesSeq with
  it (leftmost occurrences, the rest as the last fragment), `redactDump` the loop. `mkDump` is the dump of a request
  as net/http writes it: request line, header lines `name: value`, an empty line. Core Lean only; bytes are `Nat`s as
  in Model/Recovery.
-/
namespace Fox.Recovery.Redact
open Fox.Recovery

def CR : Nat := 13
def LF : Nat := 10
def COLON : Nat := 58
def SP : Nat := 32
def CRLF : Str := [CR, LF]
/-- ": <redacted>" -/
def redactedText : Str := [58, 32, 60, 114, 101, 100, 97, 99, 116, 101, 100, 62]

/-- bytes.Cut(s, "\r\n") -/
def cut : Str → Option (Str × Str)
  | [] => none
  | [_] => none
  | a :: b :: rest =>
    if a = CR ∧ b = LF then some ([], rest)
    else (cut (b :: rest)).map fun p => (a :: p.1, p.2)

/-- iterutil.SplitBytesSeq(s, "\r\n"), with the fragment under construction in `cur` (reversed) -/
def splitAux (cur : Str) : Str → List Str
  | [] => [cur.reverse]
  | [a] => [(a :: cur).reverse]
  | a :: b :: rest =>
    if a = CR ∧ b = LF then cur.reverse :: splitAux [] rest
    else splitAux (a :: cur) (b :: rest)

def split (s : Str) : List Str := splitAux [] s

/-- bytes.IndexByte(header, ':') -/
def indexColon : Str → Option Nat
  | [] => none
  | b :: rest => if b = COLON then some 0 else (indexColon rest).map (· + 1)

/-- what one round of the loop writes for a fragment -/
def lineOut (header : Str) : Str :=
  CRLF ++
    (match indexColon header with
     | none => []
     | some idx => if redacted (header.take idx) then header.take idx ++ redactedText else header)

/-- the "Request Dump" part of the message -/
def redactDump (dump : Str) : Str :=
  match cut dump with
  | none => []
  | some (before, after) => before ++ (split after).flatMap lineOut

/-- one header line as net/http writes it -/
def headerLine (h : Str × Str) : Str := h.1 ++ COLON :: SP :: h.2

/-- the dump of a request: request line, header lines, empty line -/
def mkDump (requestLine : Str) (headers : List (Str × Str)) : Str :=
  requestLine ++ CRLF ++ headers.flatMap (fun h => headerLine h ++ CRLF) ++ CRLF

/-- no "\r\n" inside -/
def noCRLF : Str → Bool
  | [] => true
  | [_] => true
  | a :: b :: rest => !(a == CR && b == LF) && noCRLF (b :: rest)

/-- what the loop is to write for a header: the line, or the name with the value withheld -/
def shown (h : Str × Str) : Str := if redacted h.1 then h.1 ++ redactedText else headerLine h

end Fox.Recovery.Redact
