import FoxModel.Model.Tree
import FoxModel.Model.Lookup
/-
  FoxModel.Model.Router — the sequential transaction machine of fox (txn.go, fox.go: Txn, txnWith, Updates,
  View, single-operation helpers), on top of the radix-tree model `Fox.Model.Tree`.

  It follows the Go code branch by branch:
    * `begin`    = Router.Txn / txnWith : `if write { mu.Lock() }`, then `getRoot().txn()`
    * `txnWrite` = Txn.Handle / Update / Delete / Truncate: `rootTxn == nil` ⇒ panic(ErrSettledTxn), `!write` ⇒ ErrReadOnlyTxn
    * `txnRead`  = Txn.Has / Route / Len / Lookup / Reverse: `rootTxn == nil` ⇒ panic(ErrSettledTxn)
    * `iter`     = Txn.Iter (panics when settled), `snapshot` = Txn.Snapshot (nil when settled)
    * `commit`   = Txn.Commit : `!write` ⇒ return; `rootTxn == nil` ⇒ return; Store; rootTxn = nil; Unlock
    * `abort`    = Txn.Abort  : same guards; rootTxn = nil; Unlock
    * `updates` / `view` = managed transactions: body, then the deferred function (recover ⇒ Abort, re-panic; Abort)
    * `helper`   = Router.Handle/Update/Delete…: txnWith(true,false); defer Abort; op; on success Commit
  A Go panic is an explicit outcome; a `Lock()` that would not return is the outcome `wouldBlock` (the machine is
  sequential: the caller would wait for ever).
-/
namespace Fox.Model.Router
open Fox Fox.Model

abbrev TxnId := Nat

inductive WOp where
  | handle (m : Bytes) (r : Route)
  | update (m : Bytes) (r : Route)
  | delete (m : Bytes) (pat : List Tok)
  | truncate (ms : List Bytes)

inductive WRes where
  | ok
  | deleted (r : Route)
  | exist
  | notFound
  | conflict (cs : List Route)

def WRes.isErr : WRes → Bool
  | .ok | .deleted _ => false
  | _ => true

/-- the tree mutation behind a write method; on an error the transaction's tree is the one it was -/
def applyW (t : Tree) : WOp → Tree × WRes
  | .handle m r =>
    match t.insert m r with
    | .ok (t', _) => (t', .ok)
    | .error (.exist _) => (t, .exist)
    | .error (.conflict cs) => (t, .conflict cs)
  | .update m r =>
    match t.update m r with
    | some t' => (t', .ok)
    | none => (t, .notFound)
  | .delete m p =>
    match t.remove m p with
    | some (t', r, _) => (t', .deleted r)
    | none => (t, .notFound)
  | .truncate ms => (t.truncate ms, .ok)

def applyWs (t : Tree) (ws : List WOp) : Tree := ws.foldl (fun tr w => (applyW tr w).1) t

inductive ROp where
  | has (m pat : Bytes)
  | len
  | all
  | lookup (m host path : Bytes)

inductive RVal where
  | route (r : Option Route)
  | num (n : Nat)
  | routes (l : List (Bytes × Route))
  | looked (r : Result)

def readT (t : Tree) : ROp → RVal
  | .has m p => .route (t.has m p)
  | .len => .num t.size
  | .all => .routes t.all
  | .lookup m h p => .looked (lookup t.roots m h p)

/-- one `*Txn` value: `settled` ⇔ `rootTxn == nil`; `tree` = the transaction-private roots/size/depth -/
structure TxnSt where
  id : TxnId
  write : Bool
  settled : Bool
  tree : Tree

structure State where
  /-- what `fox.tree.Load()` returns -/
  published : Tree := newTree
  /-- `fox.mu`: the transaction that holds it -/
  mu : Option TxnId := none
  txns : List TxnSt := []
  next : TxnId := 0

inductive Out where
  | opened (t : TxnId)
  | wouldBlock
  | unknownTxn
  | w (r : WRes)
  | readOnly
  | panicSettled
  | v (x : RVal)
  | nilSnap
  | done

def State.find (s : State) (t : TxnId) : Option TxnSt := s.txns.find? (·.id == t)
def State.set (s : State) (t : TxnId) (x : TxnSt) : State :=
  { s with txns := s.txns.map fun y => if y.id == t then x else y }

/-- `Router.Txn(write)` / `txnWith`: lock first (write only), then load the published tree -/
def begin (s : State) (write : Bool) : State × Out :=
  if write then
    match s.mu with
    | some _ => (s, .wouldBlock)
    | none =>
      ({ s with mu := some s.next, txns := ⟨s.next, true, false, s.published⟩ :: s.txns, next := s.next + 1 },
       .opened s.next)
  else
    ({ s with txns := ⟨s.next, false, false, s.published⟩ :: s.txns, next := s.next + 1 }, .opened s.next)

def txnWrite (s : State) (t : TxnId) (w : WOp) : State × Out :=
  match s.find t with
  | none => (s, .unknownTxn)
  | some x =>
    if x.settled then (s, .panicSettled)
    else if !x.write then (s, .readOnly)
    else
      let (tr, r) := applyW x.tree w
      (s.set t { x with tree := tr }, .w r)

def txnRead (s : State) (t : TxnId) (q : ROp) : State × Out :=
  match s.find t with
  | none => (s, .unknownTxn)
  | some x => if x.settled then (s, .panicSettled) else (s, .v (readT x.tree q))

/-- router-level read: one `Load`, then only that tree -/
def rread (s : State) (q : ROp) : State × Out := (s, .v (readT s.published q))

/-- `Txn.Snapshot()`: nil when settled, else a read-only `Txn` over a clone of the private state -/
def snapshot (s : State) (t : TxnId) : State × Out :=
  match s.find t with
  | none => (s, .unknownTxn)
  | some x =>
    if x.settled then (s, .nilSnap)
    else ({ s with txns := ⟨s.next, false, false, x.tree⟩ :: s.txns, next := s.next + 1 }, .opened s.next)

/-- `Txn.Iter()`: panics when settled, else a point-in-time view of the private state -/
def iter (s : State) (t : TxnId) : State × Out :=
  match s.find t with
  | none => (s, .unknownTxn)
  | some x =>
    if x.settled then (s, .panicSettled)
    else ({ s with txns := ⟨s.next, false, false, x.tree⟩ :: s.txns, next := s.next + 1 }, .opened s.next)

/-- `Router.Iter()`: a point-in-time view of the published tree -/
def routerIter (s : State) : State × Out := begin s false

def commit (s : State) (t : TxnId) : State × Out :=
  match s.find t with
  | none => (s, .unknownTxn)
  | some x =>
    if !x.write then (s, .done)
    else if x.settled then (s, .done)
    else ({ s.set t { x with settled := true } with published := x.tree, mu := none }, .done)

def abort (s : State) (t : TxnId) : State × Out :=
  match s.find t with
  | none => (s, .unknownTxn)
  | some x =>
    if !x.write then (s, .done)
    else if x.settled then (s, .done)
    else ({ s.set t { x with settled := true } with mu := none }, .done)

/-! ### managed transactions -/

/-- how the function given to `Updates` / `View` ends: returns nil, returns an error, panics after `k` operations, or
    terminates its goroutine after `k` operations (`runtime.Goexit`, which is what `t.FailNow` does: the deferred calls
    run, `recover()` returns nil, nothing is returned to a caller) -/
inductive Ending where
  | ok
  | err
  | panicAt (k : Nat)
  | goexitAt (k : Nat)

/-- operations of a managed function on its transaction -/
inductive BOp where
  | w (w : WOp)
  | r (q : ROp)
  | snap
  | iter
  | commit
  | abort

def bodyStep (s : State) (t : TxnId) : BOp → State × Out
  | .w x => txnWrite s t x
  | .r q => txnRead s t q
  | .snap => snapshot s t
  | .iter => iter s t
  | .commit => commit s t
  | .abort => abort s t

def runBody (s : State) (t : TxnId) : List BOp → State × List Out
  | [] => (s, [])
  | b :: bs =>
    let (s1, o) := bodyStep s t b
    let (s2, os) := runBody s1 t bs
    (s2, o :: os)

/-- the part of the body that runs before the function ends -/
def effBody (body : List BOp) : Ending → List BOp
  | .panicAt k => body.take k
  | .goexitAt k => body.take k
  | _ => body

inductive Ret where
  | retOk
  | retErr
  | panicked
  | goexited
  | blocked
deriving DecidableEq, Repr

/-- end of `Updates`: `Commit` only when fn returned nil; the deferred function aborts on every path -/
def finishUpdates (s : State) (t : TxnId) : Ending → State × Ret
  | .ok => let s1 := (commit s t).1; ((abort s1 t).1, .retOk)
  | .err => ((abort s t).1, .retErr)
  | .panicAt _ => ((abort s t).1, .panicked)        -- recover(); txn.Abort(); panic(p)
  | .goexitAt _ => ((abort s t).1, .goexited)       -- recover() = nil; txn.Abort()

/-- end of `View`: never commits -/
def finishView (s : State) (t : TxnId) : Ending → State × Ret
  | .ok => ((abort s t).1, .retOk)
  | .err => ((abort s t).1, .retErr)
  | .panicAt _ => ((abort s t).1, .panicked)
  | .goexitAt _ => ((abort s t).1, .goexited)

def updates (s : State) (body : List BOp) (e : Ending) : State × List Out × Ret :=
  match begin s true with
  | (s1, .opened t) =>
    let (s2, outs) := runBody s1 t (effBody body e)
    let (s3, r) := finishUpdates s2 t e
    (s3, outs, r)
  | (s1, _) => (s1, [], .blocked)

def view (s : State) (body : List BOp) (e : Ending) : State × List Out × Ret :=
  match begin s false with
  | (s1, .opened t) =>
    let (s2, outs) := runBody s1 t (effBody body e)
    let (s3, r) := finishView s2 t e
    (s3, outs, r)
  | (s1, _) => (s1, [], .blocked)

/-- `Router.Handle/Update/Delete…`: `txn := txnWith(true,false); defer txn.Abort(); op; if err return; txn.Commit()` -/
def helper (s : State) (w : WOp) : State × Out :=
  match begin s true with
  | (s1, .opened t) =>
    match txnWrite s1 t w with
    | (s2, .w r) =>
      if r.isErr then ((abort s2 t).1, .w r)
      else let s3 := (commit s2 t).1; ((abort s3 t).1, .w r)
    | (s2, o) => ((abort s2 t).1, o)
  | (s1, o) => (s1, o)

end Fox.Model.Router
