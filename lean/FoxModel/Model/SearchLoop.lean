import FoxModel.Model.Tree
import FoxModel.Model.InsScan
import FoxModel.Model.IterMachine
/-
  FoxModel.Model.SearchLoop — `roots.search` (node.go), the exact-pattern / prefix search behind Has, Route,
  Iter.Routes and Iter.Prefix, as the two nested loops the Go code runs:

      STOP: for charsMatched < len(path) {
          next := current.getEdge(path[charsMatched]); if next == nil { break STOP }
          current = next; charsMatchedInNodeFound = 0
          for i := 0; charsMatched < len(path); i++ {
              if i >= len(current.key) { break }
              if current.key[i] != path[charsMatched] { break STOP }
              charsMatched++; charsMatchedInNodeFound++
          } }
      if charsMatched == len(path) { return current }   // both `if`s of the Go code: n == len(key) or n < len(key)
      return nil

  The inner loop is the one of `copyOnWriteSearch` (`InsScan.cowInner`: bytes matched in the node, and whether a byte
  differed). `Model.searchNode` states the same search with `take` / `drop` on whole keys; Lemmas/SearchLoop proves the
  two equal.
-/
namespace Fox.Model.SearchLoop
open Fox Fox.Model Fox.Model.InsScan

mutual
/-- the node `n` was just entered through `getEdge`; `rest = path[charsMatched:]` starts where `n.key` starts -/
def searchAt : Node → Bytes → Option Node
  | .mk key route cs, rest =>
    if (cowInner (render key) rest).2 then none                  -- break STOP with charsMatched < len(path)
    else
      match rest.drop (cowInner (render key) rest).1 with
      | [] => some (.mk key route cs)                             -- charsMatched == len(path)
      | b :: bs => searchEdge cs (b :: bs)                        -- the key is used up: next round of the outer loop
/-- `current.getEdge(path[charsMatched])`, then the inner loop on the child found -/
def searchEdge : List Node → Bytes → Option Node
  | [], _ => none
  | c :: cs', rest => if some (firstByte c.key) = rest.head? then searchAt c rest else searchEdge cs' rest
end

/-- from a method root (the loop starts with `current = rootNode`, whose key is not part of the path) -/
def searchFrom (root : Node) (p : Bytes) : Option Node :=
  match p with
  | [] => some root
  | _ :: _ => searchEdge root.children p

/-- `Iter.Prefix` for one method, loop by loop: method root, `roots.search`, the stack traversal with a consumer that
    stops after `k` items (`none` = the traversal indexed an empty frame) -/
def prefixM (t : Tree) (m p : Bytes) (k : Nat) : Option (List Route) :=
  match methodRoot t.roots m with
  | none => some []
  | some root =>
    if root.children.isEmpty then some [] else
    match searchFrom root p with
    | none => some []
    | some n => IterMachine.drain k [[n]]

/-- exact-pattern lookup (`roots.route`) through the loops of `roots.search` -/
def routeOfM (root : Node) (pattern : Bytes) : Option Route :=
  match searchFrom root pattern with
  | some n => (match n.route with
               | some r => if r.text = pattern then some r else none
               | none => none)
  | none => none

end Fox.Model.SearchLoop
