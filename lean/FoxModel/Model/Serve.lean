import FoxModel.Basic
import FoxModel.Spec.Route
import FoxModel.Model.Lookup
import FoxModel.Model.Tree
/-
  FoxModel.Model.Serve — the serving decision of `Router.ServeHTTP` (fox.go), branch by branch:
  direct match, ignored trailing slash, trailing-slash redirect, automatic OPTIONS (incl. "*"),
  405 method not allowed, 404 — together with what the context exposes in each handler kind.

  `Spec.serve` is the same decision written against the routing specification (`Spec.route` on the
  registered route lists), which is what properties C08 and C11 state.
-/
namespace Fox.Model
open Fox

structure Cfg where
  noMethod : Bool := false      -- WithNoMethod(true)
  autoOptions : Bool := false   -- WithAutoOptions(true)
deriving Repr, BEq

def CONNECT : Bytes := [67, 79, 78, 78, 69, 67, 84]
def OPTIONS : Bytes := [79, 80, 84, 73, 79, 78, 83]

/-- split-and-stack path cleaner (the canonical form of property C17; proved equal to the model of CleanPath there) -/
def cleanRef (p : Bytes) : Bytes :=
  let segs := p.splitOn SLASH
  let stack : List Bytes := segs.foldl (fun st s =>
    if s = [] ∨ s = [DOT] then st
    else if s = [DOT, DOT] then st.dropLast
    else st ++ [s]) []
  let body : Bytes := stack.foldl (fun acc s => acc ++ [SLASH] ++ s) []
  -- a trailing slash is kept when the input ended with a slash or with a "." element
  let trailing : Bool := p ≠ [] ∧ (segs.getLast? = some [] ∨ segs.getLast? = some [DOT])
  if body = [] then [SLASH]
  else if trailing then body ++ [SLASH] else body

inductive Kind where
  | route | redirect | options | noMethod | noRoute | bad
deriving Repr, BEq, DecidableEq

structure Outcome where
  kind : Kind
  /-- route handler kinds: the serving route and the params the handler sees -/
  route : Option Route := none
  params : Binds := []
  /-- `Allow` header in the order written -/
  allow : List Bytes := []
  /-- redirect: status code -/
  code : Nat := 0
  /-- provenance tags -/
  tags : List String := []
deriving Repr

/-- what the Allow loops accept for one method root -/
def allows (rs : Roots) (m host path : Bytes) : Bool × Bool :=
  match lookup rs m host path with
  | .found r _ tsr => (!tsr || r.ignoreTS, tsr && r.ignoreTS && m == CONNECT)
  | _ => (false, false)

/-- methods (with the F17 marker) the OPTIONS branch lists -/
def optionsHits (rs : Roots) (host path : Bytes) : List (Bytes × Bool) :=
  if path == [STAR] then
    (rs.filter fun x => x.1 != OPTIONS && !x.2.children.isEmpty).map fun x => (x.1, false)
  else
    rs.filterMap fun x => let a := allows rs x.1 host path; if a.1 then some (x.1, a.2) else none

/-- methods the 405 branch lists -/
def noMethodHits (rs : Roots) (m host path : Bytes) : List (Bytes × Bool) :=
  rs.filterMap fun x =>
    if x.1 == m then none else
    let a := allows rs x.1 host path; if a.1 then some (x.1, a.2) else none

def optionsOutcome (hits : List (Bytes × Bool)) : Outcome :=
  if hits.isEmpty then { kind := .noRoute }
  else { kind := .options, allow := hits.map (·.1) ++ [OPTIONS],
         tags := if hits.any (·.2) then ["allow-connect-tsr"] else [] }

def noMethodOutcome (cfg : Cfg) (hits : List (Bytes × Bool)) : Outcome :=
  if hits.isEmpty then { kind := .noRoute }
  else
    { kind := .noMethod,
      allow := hits.map (·.1) ++ (if cfg.autoOptions && !(hits.any (·.1 == OPTIONS)) then [OPTIONS] else []),
      tags := if hits.any (·.2) then ["allow-connect-tsr"] else [] }

/-- the part of `ServeHTTP` after the route dispatch: automatic OPTIONS, 405, 404 -/
def special (cfg : Cfg) (rs : Roots) (m host path : Bytes) : Outcome :=
  if m == OPTIONS && cfg.autoOptions then optionsOutcome (optionsHits rs host path)
  else if cfg.noMethod then noMethodOutcome cfg (noMethodHits rs m host path)
  else { kind := .noRoute }

/-- what ServeHTTP does with a trailing-slash candidate `r` -/
def onTsr (cfg : Cfg) (rs : Roots) (m host path urlPath : Bytes) (r : Route) (ps : Binds) : Outcome :=
  if m != CONNECT && urlPath != [SLASH] then
    if r.ignoreTS then { kind := .route, route := some r, params := ps, tags := ["ignore-ts"] }
    else if r.redirectTS && path == cleanRef path then
      { kind := .redirect, code := if m == GET then 301 else 308, route := some r, tags := ["redirect-ts"] }
    else { special cfg rs m host path with tags := (special cfg rs m host path).tags ++ ["tsr-unserved"] }
  else { special cfg rs m host path with tags := (special cfg rs m host path).tags ++ ["tsr-guarded"] }

/-- `ServeHTTP`. `path` is the string the matcher sees (RawPath if set, else Path), `urlPath` is URL.Path. -/
def serve (cfg : Cfg) (rs : Roots) (m host path urlPath : Bytes) : Outcome :=
  match lookup rs m host path with
  | .bad => { kind := .bad }
  | .found r ps false => { kind := .route, route := some r, params := ps, tags := ["direct"] }
  | .found r ps true => onTsr cfg rs m host path urlPath r ps
  | .none => special cfg rs m host path

end Fox.Model

namespace Fox.Spec
open Fox

/-- does method `m` have a route that serves (host, path): directly, or by ignoring a trailing slash
    (which dispatch never does for CONNECT nor for the root path) -/
def serves (rs : List Route) (m host path urlPath : Bytes) : Bool :=
  match route rs host path with
  | some f => !f.tsr || (f.route.ignoreTS && m != Model.CONNECT && urlPath != [SLASH])
  | none => false

structure Served where
  kind : Model.Kind
  route : Option Route := none
  params : Binds := []
  /-- the *set* of allowed methods (sorted by the driver) -/
  allow : List Bytes := []
  code : Nat := 0
deriving Repr

/-- the serving decision in terms of the registered routes: `store m` = routes registered for method `m`,
    `methods` = methods that have at least one route -/
def serve (cfg : Model.Cfg) (methods : List Bytes) (store : Bytes → List Route) (m host path urlPath : Bytes) : Served :=
  let special : Served :=
    if m == Model.OPTIONS && cfg.autoOptions then
      let a := if path == [STAR] then methods.filter (· != Model.OPTIONS)
               else methods.filter fun x => serves (store x) x host path urlPath
      if a.isEmpty then { kind := .noRoute } else { kind := .options, allow := (a ++ [Model.OPTIONS]).eraseDups }
    else if cfg.noMethod then
      let a := methods.filter fun x => x != m && serves (store x) x host path urlPath
      if a.isEmpty then { kind := .noRoute }
      else { kind := .noMethod, allow := (a ++ (if cfg.autoOptions then [Model.OPTIONS] else [])).eraseDups }
    else { kind := .noRoute }
  match route (store m) host path with
  | some ⟨r, ps, false⟩ => { kind := .route, route := some r, params := ps }
  | some ⟨r, ps, true⟩ =>
    if m != Model.CONNECT && urlPath != [SLASH] then
      if r.ignoreTS then { kind := .route, route := some r, params := ps }
      else if r.redirectTS && path == Model.cleanRef path then
        { kind := .redirect, code := if m == Model.GET then 301 else 308, route := some r }
      else special
    else special
  | none => special

end Fox.Spec
