import FoxModel.Basic
import FoxModel.Model.Lookup
/-
  FoxModel.Model.Tree — executable model of the tree mutations of tree.go (insert with its four cases and the
  conflict rule, update, remove with its merge cases and the host/path boundary, truncate, root handling) and of
  the searches used by Has/Route/Prefix, on pure trees at token level.

  The Go code finds the matched node with `copyOnWriteSearch` and rebuilds it (and for `remove` its parent /
  grand-parent) in place on private clones. Here the same case analysis is a structural recursion that returns the
  rebuilt node. Aliasing (which cells are private to a transaction) is the subject of Model/Heap.lean (C03).
-/
namespace Fox.Model
open Fox

def commonPrefix : List Tok → List Tok → List Tok
  | a :: as, b :: bs => if a = b then a :: commonPrefix as bs else []
  | _, _ => []

/-- the selector with which `getEdge` finds the child for the next pattern byte -/
def selOf : Tok → Sel
  | .lit b => .static b
  | .param _ => .param
  | .catchAll _ => .catchAll

def firstByte (k : List Tok) : UInt8 :=
  match k with
  | .lit b :: _ => b
  | .param _ :: _ => LBR
  | .catchAll _ :: _ => STAR
  | [] => 0

/-- `newNode` sorts the children by key; first bytes are distinct in every tree the router builds -/
def insertSorted (c : Node) : List Node → List Node
  | [] => [c]
  | d :: ds => if bytesLt (render c.key) (render d.key) then c :: d :: ds else d :: insertSorted c ds

def sortKids (cs : List Node) : List Node := cs.foldr insertSorted []

def newNode (key : List Tok) (route : Option Route) (children : List Node) : Node :=
  .mk key route (sortKids children)

mutual
/-- routes below a node in the order of the raw iterator (pre-order, children left to right) -/
def routesNode : Node → List Route
  | .mk _ r cs => (match r with | some r => [r] | none => []) ++ routesKids cs
def routesKids : List Node → List Route
  | [] => []
  | c :: cs => routesNode c ++ routesKids cs
end

inductive InsErr where
  | exist (existing : Route)
  | conflict (routes : List Route)
deriving Repr, BEq

/-- which of the cases of `tXn.insert` ran (for the coverage histogram) -/
inductive InsCase where
  | exact | keyEndMidEdge | toEndOfEdge | toEndOfEdgeHostSplit | middleOfEdge | middleOfEdgeHostSplit
deriving Repr, BEq, DecidableEq

structure InsOk where
  node : Node
  /-- value passed to updateMaxDepth (0 = no update) -/
  depth : Nat
  case : InsCase

/-- the new leaf for the pattern suffix `suf`, `consumed` pattern tokens being matched already: a hostname
    route always gets its path in a dedicated child -/
def newLeaf (r : Route) (consumed : Nat) (suf : List Tok) : Node × Bool :=
  if r.hostToks > 0 ∧ consumed < r.hostToks then
    let h := suf.take (r.hostToks - consumed)
    let p := suf.drop (r.hostToks - consumed)
    (newNode h none [newNode p (some r) []], true)
  else (newNode suf (some r) [], false)

def isWildSame : Tok → Tok → Bool
  | .param _, .param _ => true
  | .catchAll _, .catchAll _ => true
  | _, _ => false

mutual
/-- insert the pattern suffix `toks` below/at node `n` whose key starts where `toks` starts.
    `consumed` = pattern tokens matched before `n`'s key, `d` = edges followed to reach `n`. -/
def insertNode (n : Node) (isRoot : Bool) (consumed d : Nat) (toks : List Tok) (r : Route) : Except InsErr InsOk :=
  match n with
  | .mk key route cs =>
    let cp := commonPrefix key toks
    match hk : key.drop cp.length, toks.drop cp.length with
    | [], [] =>
      -- exact match
      (match route with
       | some e => .error (.exist e)
       | none => .ok ⟨.mk key (some r) cs, 0, .exact⟩)
    | _ :: _, [] =>
      -- key end mid-edge: split the node, the new route sits on the upper part
      .ok ⟨newNode cp (some r) [.mk (key.drop cp.length) route cs], d + 1, .keyEndMidEdge⟩
    | [], t :: ts =>
      -- incomplete match to end of edge: descend, or add a child
      (match insertKids cs (consumed + cp.length) (d + 1) (t :: ts) r with
       | some (.error e) => .error e
       | some (.ok (cs', dep, c)) => .ok ⟨.mk key route cs', dep, c⟩
       | none =>
         let (leaf, split) := newLeaf r (consumed + cp.length) (t :: ts)
         .ok ⟨newNode key route (cs ++ [leaf]), d + (if split then 2 else 1),
              if split then .toEndOfEdgeHostSplit else .toEndOfEdge⟩)
    | a :: _, b :: _ =>
      if isRoot then
        -- (cannot happen: a root's key is not part of the pattern)
        .error (.conflict [])
      else if isWildSame a b then
        -- the common prefix ends inside a wildcard: same kind, different name, same position
        .error (.conflict (routesNode (.mk key route cs)))
      else
        let (leaf, split) := newLeaf r (consumed + cp.length) (toks.drop cp.length)
        .ok ⟨newNode cp none [leaf, .mk (key.drop cp.length) route cs], d + (if split then 2 else 1),
             if split then .middleOfEdgeHostSplit else .middleOfEdge⟩

/-- `getEdge`: the child starting with the same byte as the next pattern token; `none` if there is none -/
def insertKids (cs : List Node) (consumed d : Nat) (toks : List Tok) (r : Route) :
    Option (Except InsErr (List Node × Nat × InsCase)) :=
  match cs with
  | [] => none
  | c :: cs' =>
    if firstByte c.key = firstByte toks then
      match insertNode c false consumed d toks r with
      | .error e => some (.error e)
      | .ok ⟨c', dep, cse⟩ => some (.ok (c' :: cs', dep, cse))
    else
      match insertKids cs' consumed d toks r with
      | none => none
      | some (.error e) => some (.error e)
      | some (.ok (cs'', dep, cse)) => some (.ok (c :: cs'', dep, cse))
end

/-- result of removing below a child -/
inductive Rem where
  | replaced (n : Node)
  /-- the matched leaf had no children and disappears -/
  | vanished
  /-- the matched leaf's parent (a hostname node left without children) disappears as well -/
  | vanishedHost

inductive RemCase where
  | keepBranch | mergeChild | dropLeaf | dropHost | mergeParent | mergeGrandParent
deriving Repr, BEq, DecidableEq

def removeFrom (cs : List Node) (i : Nat) : List Node := cs.eraseIdx i

mutual
def removeNode (n : Node) (isRoot : Bool) (toks : List Tok) : Option (Rem × Route × RemCase) :=
  match n with
  | .mk key route cs =>
    let cp := commonPrefix key toks
    if cp.length < key.length then none     -- the pattern leaves the key: not registered
    else
      match toks.drop cp.length with
      | [] =>
        (match route with
         | none => none
         | some r =>
           match cs with
           | [] => some (.vanished, r, .dropLeaf)
           | [c] => some (.replaced (.mk (key ++ c.key) c.route c.children), r, .mergeChild)
           | _ => some (.replaced (.mk key none cs), r, .keepBranch))
      | t :: ts =>
        match removeKids cs 0 (t :: ts) with
        | none => none
        | some (i, res, r, cse) =>
          match res with
          | .replaced c' => some (.replaced (.mk key route (cs.set i c')), r, cse)
          | .vanished =>
            let edges := removeFrom cs i
            if edges.isEmpty && route.isNone && !isRoot then some (.vanishedHost, r, .dropHost)
            else
              (match edges with
               | [e] =>
                 if route.isNone && !isRoot then
                   some (.replaced (.mk (key ++ e.key) e.route e.children), r, .mergeParent)
                 else some (.replaced (newNode key route edges), r, cse)
               | _ => some (.replaced (newNode key route edges), r, cse))
          | .vanishedHost =>
            let edges := removeFrom cs i
            (match edges with
             | [e] =>
               if route.isNone && !startsWithSlash e.key && !isRoot then
                 some (.replaced (.mk (key ++ e.key) e.route e.children), r, .mergeGrandParent)
               else some (.replaced (newNode key route edges), r, cse)
             | _ => some (.replaced (newNode key route edges), r, cse))

def removeKids (cs : List Node) (i : Nat) (toks : List Tok) : Option (Nat × Rem × Route × RemCase) :=
  match cs with
  | [] => none
  | c :: cs' =>
    if firstByte c.key = firstByte toks then
      match removeNode c false toks with
      | none => none
      | some (res, r, cse) => some (i, res, r, cse)
    else removeKids cs' (i + 1) toks
end

mutual
/-- replace the route of the leaf registered for exactly `toks` -/
def updateNode (n : Node) (toks : List Tok) (r : Route) : Option Node :=
  match n with
  | .mk key route cs =>
    let cp := commonPrefix key toks
    if cp.length < key.length then none
    else
      match toks.drop cp.length with
      | [] => (match route with | none => none | some _ => some (.mk key (some r) cs))
      | t :: ts => (updateKids cs (t :: ts) r).map (.mk key route ·)
def updateKids (cs : List Node) (toks : List Tok) (r : Route) : Option (List Node) :=
  match cs with
  | [] => none
  | c :: cs' =>
    if firstByte c.key = firstByte toks then (updateNode c toks r).map (· :: cs')
    else (updateKids cs' toks r).map (c :: ·)
end

mutual
/-- `roots.search` on rendered bytes: the node in which the byte string `p` ends (exactly or mid-key) -/
def searchNode (n : Node) (p : Bytes) : Option Node :=
  match n with
  | .mk key route cs =>
    let rk := render key
    if p.length ≤ rk.length then (if rk.take p.length = p then some (.mk key route cs) else none)
    else if p.take rk.length = rk then searchKids cs (p.drop rk.length) else none
def searchKids (cs : List Node) (p : Bytes) : Option Node :=
  match cs with
  | [] => none
  | c :: cs' => if some (firstByte c.key) = p.head? then searchNode c p else searchKids cs' p
end

/-- search from a method root (whose own key, the method name, is not part of the pattern) -/
def searchRoot (root : Node) (p : Bytes) : Option Node :=
  if p = [] then some root else searchKids root.children p

/-- exact-pattern lookup used by Has / Route / Iter.Routes -/
def routeOf (root : Node) (pattern : Bytes) : Option Route :=
  match searchRoot root pattern with
  | some n => (match n.route with
               | some r => if r.text = pattern then some r else none
               | none => none)
  | none => none

structure Tree where
  roots : Roots
  size : Nat
  maxParams : Nat
  depth : Nat
deriving Repr

def GET : Bytes := [71, 69, 84]
def POST : Bytes := [80, 79, 83, 84]
def PUT : Bytes := [80, 85, 84]
def DELETE : Bytes := [68, 69, 76, 69, 84, 69]
def commonVerbs : List Bytes := [GET, POST, PUT, DELETE]

def emptyNode : Node := .mk [] none []
def newRoots : Roots := commonVerbs.map fun m => (m, emptyNode)
def newTree : Tree := ⟨newRoots, 0, 0, 0⟩

def isRemovable (m : Bytes) : Bool := !commonVerbs.contains m

def setRoot (rs : Roots) (m : Bytes) (n : Node) : Roots :=
  rs.map fun x => if x.1 == m then (m, n) else x

def Tree.insert (t : Tree) (m : Bytes) (r : Route) : Except InsErr (Tree × InsCase) :=
  let rs := match methodRoot t.roots m with
    | some _ => t.roots
    | none => t.roots ++ [(m, emptyNode)]
  match methodRoot rs m with
  | none => .error (.conflict [])      -- unreachable
  | some root =>
    match insertNode root true 0 0 r.pattern r with
    | .error e => .error e
    | .ok ⟨root', dep, cse⟩ =>
      .ok (⟨setRoot rs m root', t.size + 1, max t.maxParams r.psLen, max t.depth dep⟩, cse)

def Tree.update (t : Tree) (m : Bytes) (r : Route) : Option Tree :=
  match methodRoot t.roots m with
  | none => none
  | some root =>
    match updateNode root r.pattern r with
    | none => none
    | some root' => some { t with roots := setRoot t.roots m root' }

def Tree.remove (t : Tree) (m : Bytes) (toks : List Tok) : Option (Tree × Route × RemCase) :=
  match methodRoot t.roots m with
  | none => none
  | some root =>
    match removeNode root true toks with
    | none => none
    | some (res, r, cse) =>
      let root' : Node := match res with
        | .replaced n => n
        | _ => root          -- a root never vanishes through removeNode (isRoot)
      let rs := if root'.children.isEmpty && isRemovable m
                then t.roots.filter (fun x => x.1 != m)
                else setRoot t.roots m root'
      some ({ t with roots := rs, size := t.size - 1 }, r, cse)

def truncateOne (st : Roots × Nat) (m : Bytes) : Roots × Nat :=
  match methodRoot st.1 m with
  | none => st
  | some root =>
    let cnt := (routesNode root).length
    if isRemovable m then (st.1.filter (fun x => x.1 != m), st.2 - cnt)
    else (setRoot st.1 m emptyNode, st.2 - cnt)

def Tree.truncate (t : Tree) (methods : List Bytes) : Tree :=
  if methods.isEmpty then { t with roots := newRoots, size := 0 }
  else
    let (rs, sz) := methods.foldl truncateOne (t.roots, t.size)
    { t with roots := rs, size := sz }

/-- all registered (method, route) pairs in iteration order (`Iter.All`) -/
def Tree.all (t : Tree) : List (Bytes × Route) :=
  t.roots.flatMap fun (m, n) => (routesNode n).map fun r => (m, r)

def Tree.methods (t : Tree) : List Bytes :=
  (t.roots.filter fun x => !x.2.children.isEmpty).map (·.1)

def Tree.has (t : Tree) (m : Bytes) (pattern : Bytes) : Option Route :=
  match methodRoot t.roots m with
  | none => none
  | some root => routeOf root pattern

/-- `Iter.Prefix` for one method -/
def Tree.prefix (t : Tree) (m : Bytes) (p : Bytes) : List Route :=
  match methodRoot t.roots m with
  | none => []
  | some root =>
    if root.children.isEmpty then [] else
    match searchRoot root p with
    | some n => routesNode n
    | none => []

end Fox.Model
