import FoxModel.Basic
import FoxModel.Model.Lookup
import FoxModel.Model.Tree
/-
  FoxModel.Model.WF — the representation invariant of the radix tree (what every tree reachable from `newTree`
  by insert / update / remove / truncate satisfies) and the suffix sets that relate a tree to the routes it holds.

  Both are executable (Bool), so the driver can evaluate them on every tree of a correspondence run, and are used
  as hypotheses (`= true`) by the refinement theorems.
-/
namespace Fox.Model
open Fox

/-- the "kind" of a child by its first token: a static byte, the param slot, the catch-all slot -/
def kindOf : List Tok → Option Sel
  | .lit c :: _ => some (.static c)
  | .param _ :: _ => some .param
  | .catchAll _ :: _ => some .catchAll
  | [] => none

instance : BEq Sel := ⟨fun a b => decide (a = b)⟩

def nodupB {α} [BEq α] : List α → Bool
  | [] => true
  | x :: xs => !xs.contains x && nodupB xs

/-- literal tokens are never the wildcard delimiters, and inside a key a catch-all is followed by '/' -/
def keyOk : List Tok → Bool
  | [] => true
  | .lit b :: rest => b != STAR && b != LBR && keyOk rest
  | .param _ :: rest => keyOk rest
  | .catchAll _ :: rest => (match rest with | [] => true | t :: _ => t == .lit SLASH) && keyOk rest

def endsWithCatchAll (k : List Tok) : Bool :=
  match k.getLast? with
  | some (.catchAll _) => true
  | _ => false

mutual
/-- invariant of a non-root node -/
def wfNode : Node → Bool
  | .mk k r cs =>
    !k.isEmpty && keyOk k
    && nodupB (kindsOf cs)
    && (!endsWithCatchAll k || (r.isSome && allSlash cs))
    && wfKids cs
def wfKids : List Node → Bool
  | [] => true
  | c :: cs => wfNode c && wfKids cs
def kindsOf : List Node → List (Option Sel)
  | [] => []
  | .mk k _ _ :: cs => kindOf k :: kindsOf cs
def allSlash : List Node → Bool
  | [] => true
  | .mk k _ _ :: cs => startsWithSlash k && allSlash cs
end

/-- invariant of a method root: no key, no route, well-formed children with distinct kinds -/
def wfRoot (n : Node) : Bool :=
  n.key.isEmpty && n.route.isNone && nodupB (kindsOf n.children) && wfKids n.children

def wfRoots (rs : Roots) : Bool :=
  rs.all (fun x => wfRoot x.2) && nodupB (rs.map (·.1))

mutual
/-- pattern suffixes (from the start of the node's key) of all routes at or below a node -/
def sufsNode : Node → Spec.SufSet
  | .mk k r cs =>
    (match r with | some r => [(k, r)] | none => []) ++ (sufsKids cs).map (fun sr => (k ++ sr.1, sr.2))
def sufsKids : List Node → Spec.SufSet
  | [] => []
  | c :: cs => sufsNode c ++ sufsKids cs
end

/-- the same, from the middle of node `n`'s key (`k` = rest of the key) -/
def sufsFrom (n : Node) (k : List Tok) : Spec.SufSet :=
  (match n.route with | some r => [(k, r)] | none => []) ++ (sufsKids n.children).map (fun sr => (k ++ sr.1, sr.2))

end Fox.Model

namespace Fox.Model
open Fox

def noSlashTok (k : List Tok) : Bool := !k.contains (.lit SLASH)

mutual
/-- hostname shape: above the path part no key contains a literal '/'; the path part starts its own node -/
def hostOkNode : Node → Bool
  | .mk k _ cs => startsWithSlash k || (noSlashTok k && hostOkKids cs)
def hostOkKids : List Node → Bool
  | [] => true
  | c :: cs => hostOkNode c && hostOkKids cs
end

def hostOkRoots (rs : Roots) : Bool := rs.all fun x => hostOkKids x.2.children

end Fox.Model

namespace Fox.Model
open Fox

/-- the suffixes stored below a method root are the full patterns of their routes ("keys concatenate to the leaf's
    pattern"), and the hostname part of a route is what precedes its first literal '/' -/
def patOkRoots (rs : Roots) : Bool :=
  rs.all fun x => (sufsKids x.2.children).all fun sr =>
    sr.1 == sr.2.pattern && sr.2.hostToks == sr.2.pattern.findIdx (· == Tok.lit SLASH)

end Fox.Model
