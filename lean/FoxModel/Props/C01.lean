import FoxModel.Generated.Consts
import FoxModel.Model.Lookup
import FoxModel.Model.Tree
/-
  Property C01 — routing selects the documented route with the correct parameters.
  Property theorems only; helper lemmas live in FoxModel/Lemmas.
-/
namespace Fox.C01
open Fox Fox.Model

/-- the constants of the Go sources (regenerated on every run) are the ones the model computes with -/
theorem consts_tie :
    Generated.c_slashDelim = SLASH.toNat ∧ Generated.c_dotDelim = DOT.toNat ∧
    Generated.c_bracketDelim = LBR.toNat ∧ Generated.c_starDelim = STAR.toNat ∧
    Generated.commonVerbsBytes = commonVerbs.map (·.map UInt8.toNat) ∧ Generated.c_verb = commonVerbs.length := by
  decide

end Fox.C01
