import FoxModel.Generated.Consts
import FoxModel.Lemmas.Pick
/-
  Property C01 — routing selects the documented route with the correct parameters.

  Property theorems only (helper lemmas: FoxModel/Lemmas/{SpecAlg,Refine,RefineHost,NoBad,Pick}.lean). The executable model
  `Fox.Model.lookup` follows node.go (roots.lookup / lookupByDomain / lookupByPath) and is tied to the Go code by the
  correspondence streams `ops`, `serve`, `hist`; `Fox.Spec.specAll` / `specHost` are the documented priority search over
  the *set of registered patterns* (no radix tree); their declarative meaning is FoxModel/Props/C01Spec.lean.
-/
namespace Fox.C01
open Fox Fox.Model Fox.Spec

/-- the constants of the Go sources (regenerated on every run) are the ones the model computes with -/
theorem consts_tie :
    Generated.c_slashDelim = SLASH.toNat ∧ Generated.c_dotDelim = DOT.toNat ∧
    Generated.c_bracketDelim = LBR.toNat ∧ Generated.c_starDelim = STAR.toNat ∧
    Generated.commonVerbsBytes = commonVerbs.map (·.map UInt8.toNat) ∧ Generated.c_verb = commonVerbs.length := by
  decide

/-- **Path matcher = specification (direct matches).** For every well-formed subtree, every position `k` inside the
    node's key, every request path and every parameter prefix, the direct matches found by the model of `lookupByPath`
    (static child, then `{param}` child, then `*{catch-all}` child; infix catch-all continuations left to right, then the
    whole rest; explicit backtracking) are exactly, and in the same order, the matches that the documented priority
    search enumerates over the set of pattern suffixes stored in that subtree. No bound on tree size, depth or path. -/
theorem walk_direct_eq_spec (es : Bool) (n : Node) (pre k : List Tok) (pr : Option Route) (path : Bytes) (ps : Binds)
    (hw : wfKids n.children = true) (hd : nodupB (kindsOf n.children) = true)
    (hc : endsWithCatchAll k = true → allSlash n.children = true) :
    directs (walk n pre k pr es path ps) = specAll (sufsFrom n k) path ps :=
  (walk_refines_all es).1 n pre k pr path ps hw hd hc

/-- **Hostname matcher = specification (direct matches)**: the model of `lookupByDomain` (labels with '.' as delimiter,
    static before `{param}`, then the path below the "/" child, entered only when the whole host is consumed) enumerates
    exactly the matches of `specHost` over the suffixes stored below the node. -/
theorem host_direct_eq_spec (path : Bytes) (n : Node) (k : List Tok) (host : Bytes) (ps : Binds)
    (hw : wfKids n.children = true) (hd : nodupB (kindsOf n.children) = true) (hh : hostOkKids n.children = true)
    (hk : noSlashTok k = true) (hs : SLASH ∉ host) :
    directs (hostWalk n k host path ps) = specHost (sufsFrom n k) host path ps :=
  (hostWalk_refines_all path).1 n k host ps hw hd hh hk hs

/-- on a well-formed tree the matcher never returns a node without a route (no nil dereference in the callers) -/
theorem walk_never_returns_nil_route (es : Bool) (n : Node) (pre k : List Tok) (pr : Option Route) (path : Bytes) (ps : Binds)
    (hw : wfKids n.children = true) (hc : endsWithCatchAll k = true → n.route.isSome = true) :
    Ev.bad ∉ walk n pre k pr es path ps :=
  (walk_no_bad_all es).1 n pre k pr path ps hw hc

/-- the path stage of `roots.lookup` in terms of the specification: the best direct match if one exists, otherwise the
    trailing-slash candidate (if any) recorded by the walk -/
def pathStage (c : Node) (path : Bytes) : Result :=
  match specAll (sufsNode c) path [] with
  | (r, ps) :: _ => .found r ps false
  | [] => firstTsr (pathEvents c path [])

/-- the hostname stage likewise -/
def hostStage (root : Node) (h path : Bytes) : Result :=
  match specHost (sufsKids root.children) h path [] with
  | (r, ps) :: _ => .found r ps false
  | [] => firstTsr (hostWalk root [] h path [])

/-- **`roots.lookup` refines the staged specification for direct matches.** For every method root satisfying the
    representation invariant and every request: the router returns the first match of the hostname enumeration when the
    method has hostname routes and the (port- and dot-stripped) host is non-empty; when that stage finds neither a direct
    match nor a trailing-slash candidate, or does not apply, the first match of the path enumeration. In each stage a
    trailing-slash candidate is returned only if the specification enumerates no direct match for that stage. -/
theorem lookup_refines (rs : Roots) (m hostPort path : Bytes) (root : Node)
    (hm : methodRoot rs m = some root) (hroot : wfRoot root = true) (hok : hostOkKids root.children = true)
    (hs : SLASH ∉ stripHostPort hostPort) :
    lookup rs m hostPort path =
      (match root.children with
       | [] => Result.none
       | cs =>
         let slashChild := cs.find? (fun c => startsWithSlash c.key)
         let byPath : Result := match slashChild with
           | some c => pathStage c path
           | none => .none
         if cs.length == 1 && slashChild.isSome then byPath
         else
           let h := stripHostPort hostPort
           let byHost : Result := if h == [] then .none else hostStage root h path
           match byHost with
           | .none => byPath
           | r => r) := by
  have hw : wfKids root.children = true := by
    simp only [wfRoot, Bool.and_eq_true] at hroot; exact hroot.2
  have hd : nodupB (kindsOf root.children) = true := by
    simp only [wfRoot, Bool.and_eq_true] at hroot; exact hroot.1.2
  unfold lookup
  rw [hm]
  simp only
  cases hcs : root.children with
  | nil => rfl
  | cons c0 cs0 =>
    have hhost : pick (hostWalk root [] (stripHostPort hostPort) path []) = hostStage root (stripHostPort hostPort) path := by
      unfold hostStage
      exact hostLookup_refines hw hd hok _ path hs
    cases hf : List.find? (fun c => startsWithSlash c.key) (c0 :: cs0) with
    | none => simp only [hf, hhost]; rfl
    | some c =>
      have hcw : wfNode c = true := mem_wfKids (by rw [hcs] at hw; exact hw) (List.mem_of_find?_eq_some hf)
      simp only [hf, hhost, pathStage, pathLookup_refines hcw path]; rfl

/-- a direct answer of `lookupByPath` is the head of the specification's enumeration over the routes below the node -/
theorem path_direct_is_best {c : Node} (h : wfNode c = true) (path : Bytes) (r : Route) (ps : Binds)
    (hres : pick (pathEvents c path []) = .found r ps false) :
    (specAll (sufsNode c) path []).head? = some (r, ps) := by
  rw [pathLookup_refines h] at hres
  cases hsp : specAll (sufsNode c) path [] with
  | nil => rw [hsp] at hres; exact absurd hres (firstTsr_not_direct _ r ps)
  | cons x xs =>
    rw [hsp] at hres
    obtain ⟨r', ps'⟩ := x
    simp only at hres
    injection hres with h1 h2 _
    simp [h1, h2]

/-- C08 (only-if half): a trailing-slash answer of `lookupByPath` means that no registered route below the node matches
    the path directly -/
theorem path_tsr_only_if_no_direct {c : Node} (h : wfNode c = true) (path : Bytes) (r : Route) (ps : Binds)
    (hres : pick (pathEvents c path []) = .found r ps true) :
    specAll (sufsNode c) path [] = [] := by
  rw [pathLookup_refines h] at hres
  cases hsp : specAll (sufsNode c) path [] with
  | nil => rfl
  | cons x xs => rw [hsp] at hres; obtain ⟨r', ps'⟩ := x; simp only at hres; injection hres with _ _ h3; cases h3

/-! ### non-vacuity: a concrete well-formed tree with backtracking, an infix catch-all and a hostname -/

section Example
def rA : Route := { hid := 1, pattern := [.lit 47, .lit 97, .lit 47, .param [120]] }                    -- /a/{x}
def rB : Route := { hid := 2, pattern := [.lit 47, .lit 97, .lit 47, .lit 98, .lit 47, .lit 99] }        -- /a/b/c
def rC : Route := { hid := 3, pattern := [.lit 47, .catchAll [119], .lit 47, .lit 122] }                  -- /*{w}/z
def exTree : Tree :=
  match (newTree.insert GET rA) with
  | .ok (t1, _) => (match t1.insert GET rB with
    | .ok (t2, _) => (match t2.insert GET rC with | .ok (t3, _) => t3 | .error _ => t2)
    | .error _ => t1)
  | .error _ => newTree

example : wfRoots exTree.roots = true ∧ hostOkRoots exTree.roots = true := by decide
-- illustrations (evaluated, not proved): /a/b : the static branch /a/b/c fails, backtrack to {x};
-- /a/b/z : static and param fail, the infix catch-all captures "a/b"
#guard lookup exTree.roots GET [] [47, 97, 47, 98] == .found rA [([120], [98])] false
#guard lookup exTree.roots GET [] [47, 97, 47, 98, 47, 122] == .found rC [([119], [97, 47, 98])] false
end Example

end Fox.C01
