import FoxModel.Lemmas.KeyScan
import FoxModel.Lemmas.KeyScanHost
import FoxModel.Util
/-
  Property C01, the byte offsets of the matcher. Everywhere else in the model a node key is a list of tokens; the Go
  code walks the key *bytes* with the offsets `parseWildcard` precomputed when the node was built (`params[k].end`), an
  index `i` / `charsMatchedInNodeFound` into the key and the counter `paramKeyCnt`. `Model/KeyScan.scanB` is that inner
  loop, index for index; the theorems below say that this arithmetic is exactly the token split of the key that
  `Model/Machine.keyLoop` (and through it every routing theorem) works with.
-/
namespace Fox.C01
open Fox Fox.Model Fox.Model.Machine Fox.Model.KeyScan

/-- **The byte offsets of the inner loop are the token split of the key.** Started at a token boundary of a key whose
    literal bytes are neither '{' nor '*' (`keyOk`), with `current.params` = the table `wildPositions` (which is what
    `parseWildcard` returns, next theorem), the Go loop - compare `key[i]` with `path[charsMatched]`; on '{' take the
    segment, jump `params[paramKeyCnt].end - charsMatchedInNodeFound` bytes (or to the end of the key when `end == -1`),
    `paramKeyCnt++`; record unless lazy - stops for the same reason, at the same `charsMatched`, with the same recorded
    parameters as the token-level loop, and its `i` / `paramKeyCnt` are the rendered length / wildcard count of the
    consumed tokens. -/
theorem key_offsets_are_token_split (toks : List Tok) (hk : keyOk toks = true) (k pre : List Tok) (h : pre ++ k = toks)
    (path : Bytes) (lz : Bool) (cm pc : Nat) (ps : Binds) :
    scanB (render toks) (wildPositions 0 toks) path lz (render pre).length (wcount pre) cm pc ps =
      toB (scanT pre k (path.drop cm) lz cm pc ps) :=
  scanB_eq_scanT toks hk k pre h path lz cm pc ps

/-- for a key the router builds (the rendered tokens read back as these tokens) `parseWildcard` does not panic and the
    loop on its table agrees with the token-level loop from the start of the key -/
theorem inner_loop_on_built_key (toks : List Tok) (hk : keyOk toks = true) (ht : tokenize (render toks) = some toks)
    (path : Bytes) (lz : Bool) (ps : Binds) :
    ∃ wp, parseWildcard (render toks) = some wp ∧
      scanB (render toks) wp path lz 0 0 0 0 ps = toB (scanT [] toks path lz 0 0 ps) :=
  scan_on_built_key toks hk ht path lz ps

/-- the token-level loop is the advancing part of the state machine: running `keyLoop` from a key position is running
    it from where the scan stops -/
theorem keyLoop_is_scan (lz : Bool) (p : Bytes) (cur : Node) (parent : Option Node) (R : Regs)
    (k pre : List Tok) (cm pc : Nat) (ps : Binds) :
    keyLoop lz p cur pre k parent cm pc { R with params := ps } =
      keyLoop lz p cur (scanT pre k (p.drop cm) lz cm pc ps).pre (scanT pre k (p.drop cm) lz cm pc ps).k parent
        (scanT pre k (p.drop cm) lz cm pc ps).cm (scanT pre k (p.drop cm) lz cm pc ps).pc
        { R with params := (scanT pre k (p.drop cm) lz cm pc ps).ps } :=
  keyLoop_scan lz p cur parent R k pre cm pc ps

/-- the catch-all block: `params[paramKeyCnt].end == -1` selects "ending catch-all" exactly when no key token follows, and
    otherwise the jump lands right behind the catch-all (where the precomputed inode's key starts) -/
theorem catchAll_offsets (pre : List Tok) (nm : Bytes) (k' : List Tok) :
    ∃ w, (wildPositions 0 (pre ++ .catchAll nm :: k'))[wcount pre]? = some w ∧ w.key = nm ∧
      (w.end = -1 ↔ k' = []) ∧
      (k' ≠ [] → jump (render (pre ++ .catchAll nm :: k')).length (render pre).length w.end
                   = (render (pre ++ [.catchAll nm])).length) :=
  catchAll_end_iff pre nm k'

/-- the byte-level guards of the trailing-slash sites are the token-level guards of `Machine.postCand` -/
theorem tsr_guards (pre k : List Tok) :
    ((render pre).length = (render (pre ++ k)).length ↔ k = []) ∧
    ((render (pre ++ k)).drop (render pre).length = [SLASH] ↔ k = [.lit SLASH]) ∧
    (((render pre).length = 1 ∧ (render (pre ++ k))[0]? = some SLASH) ↔ pre = [.lit SLASH]) :=
  ⟨atKeyEnd_iff pre k, restSlash_iff pre k, oneSlash_iff pre k⟩

/-- **hostname keys**: the same for the inner loop of `lookupByDomain` (delimiter '.', no catch-all, the comparison
    `key[i] != host[charsMatched] || host[charsMatched] == '{'`): on a key without catch-all tokens the byte loop stops for
    the same reason, at the same `charsMatched`, with the same recorded parameters as the token-level loop -/
theorem host_key_offsets_are_token_split (toks : List Tok) (hk : keyOk toks = true) (hc : noCatchAll toks = true)
    (k pre : List Tok) (h : pre ++ k = toks) (host : Bytes) (lz : Bool) (cm pc : Nat) (ps : Binds) :
    scanBH (render toks) (wildPositions 0 toks) host lz (render pre).length (wcount pre) cm pc ps =
      toB (scanTH pre k (host.drop cm) lz cm pc ps) :=
  scanBH_eq_scanTH toks hk hc k pre h host lz cm pc ps

/-- the token-level hostname loop is the advancing part of `Machine.hostKeyLoop` -/
theorem hostKeyLoop_is_scan (lz : Bool) (host path : Bytes) (cur : Node) (R : Regs)
    (k pre : List Tok) (cm pc : Nat) (ps : Binds) :
    hostKeyLoop lz host path cur k cm pc { R with params := ps } =
      hostKeyLoop lz host path cur (scanTH pre k (host.drop cm) lz cm pc ps).k
        (scanTH pre k (host.drop cm) lz cm pc ps).cm (scanTH pre k (host.drop cm) lz cm pc ps).pc
        { R with params := (scanTH pre k (host.drop cm) lz cm pc ps).ps } :=
  hostKeyLoop_scan lz host path cur R k pre cm pc ps

end Fox.C01

namespace Fox.C01.BytesEx
open Fox Fox.Model Fox.Model.KeyScan Fox.Util

def key : List Tok := (tokenize (ascii "/a/{x}/b{y}/c")).getD []
-- the key reads back, its literals are fine, parseWildcard's table has the two offsets (6, 11)
#guard tokenize (render key) == some key && keyOk key
#guard (parseWildcard (render key)).map (·.map (·.end)) == some [6, 11]
-- the byte loop on "/a/1/b22/c": both parameters recorded, key and path used up together (stop = pathEnd, i = len(key))
#guard (scanB (render key) ((parseWildcard (render key)).getD []) (ascii "/a/1/b22/c") false 0 0 0 0 []) ==
  ⟨.pathEnd, 13, 2, 10, 2, [(ascii "x", ascii "1"), (ascii "y", ascii "22")]⟩
#guard (scanB (render key) ((parseWildcard (render key)).getD []) (ascii "/a/1/b22/c") false 0 0 0 0 []) ==
  toB (scanT [] key (ascii "/a/1/b22/c") false 0 0 [])
-- a mismatch after the first parameter, the lazy run records nothing
#guard (scanB (render key) ((parseWildcard (render key)).getD []) (ascii "/a/1/x") true 0 0 0 0 []).stop == .mismatch &&
  (scanB (render key) ((parseWildcard (render key)).getD []) (ascii "/a/1/x") true 0 0 0 0 []).ps == []

-- a hostname key: {sub}.example matched against "api.example.com": the parameter is recorded, the key is used up at "."
def hkey : List Tok := (tokenize (ascii "{sub}.example")).getD []
#guard tokenize (render hkey) == some hkey && keyOk hkey && noCatchAll hkey
#guard (scanBH (render hkey) ((parseWildcard (render hkey)).getD []) (ascii "api.example.com") false 0 0 0 0 []) ==
  ⟨.keyEnd, 13, 1, 11, 1, [(ascii "sub", ascii "api")]⟩
#guard (scanBH (render hkey) ((parseWildcard (render hkey)).getD []) (ascii "api.example.com") false 0 0 0 0 []) ==
  toB (scanTH [] hkey (ascii "api.example.com") false 0 0 [])

end Fox.C01.BytesEx
