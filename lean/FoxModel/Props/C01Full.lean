import FoxModel.Lemmas.LookupSpec
import FoxModel.Props.C02
/-
  Property C01 / C08 / C09 — the routing claim at full strength, for every router state reachable by any history of
  Handle / Update / Delete / Truncate:  lookup = routing specification.
-/
namespace Fox.C01
open Fox Fox.Model Fox.Spec Fox.C02

theorem methodRoot_mem {rs : Roots} {m : Bytes} {root : Node} (hm : methodRoot rs m = some root) :
    ∃ x ∈ rs, x.2 = root := by
  unfold methodRoot at hm
  cases hf : rs.find? (fun x => x.1 == m) with
  | none => rw [hf] at hm; cases hm
  | some x =>
    rw [hf] at hm
    simp only [Option.map_some, Option.some.injEq] at hm
    exact ⟨x, List.mem_of_find?_eq_some hf, hm⟩

/-- the `LastOK` hypothesis of the trailing-slash refinement follows from the reachable-tree invariant `Good` -/
theorem lastOK_of_good {t : Tree} (hg : Good t) {m : Bytes} {root : Node} (hm : methodRoot t.roots m = some root) :
    LastOK (sufsKids root.children) := by
  obtain ⟨x, hx, rfl⟩ := methodRoot_mem hm
  have hp := (hg.roots x hx).pats
  intro sr hsr _
  have hroot := (hg.roots x hx).wf
  have hk : x.2.key = [] := by
    simp only [wfRoot, Bool.and_eq_true, List.isEmpty_iff] at hroot
    exact hroot.1.1.1
  have hmem : sr ∈ sufsNode x.2 := by
    rw [sufsNode_eq, sufsFrom_eq, hk]
    apply List.mem_append_right
    simp only [List.nil_append, List.mem_map]
    exact ⟨sr, hsr, rfl⟩
  rw [(hp sr hmem).1]

/-- **lookup = specification on every tree satisfying the reachable-state invariant** -/
theorem lookup_eq_spec_good {t : Tree} (hg : Good t) (m hostPort path : Bytes)
    (hn : noDbl path = true) (hs : SLASH ∉ stripHostPort hostPort) :
    lookup t.roots m hostPort path = toResult (routeS (sufsOfMethod t.roots m) hostPort path) := by
  unfold sufsOfMethod
  cases hm : methodRoot t.roots m with
  | none =>
    simp only [routeS_nil]
    unfold lookup
    rw [hm]; rfl
  | some root =>
    simp only
    exact lookup_eq_spec t.roots m hostPort path root hm (wfRoots_root hg.wfRoots hm)
      (hostOkRoots_root hg.hostOkRoots hm) (lastOK_of_good hg hm) hn hs

/-- **C01 / C08 / C09, for every reachable router state.** After *any* history of Handle / Update / Delete / Truncate
    (every registered pattern being one the parser accepts), for every method, every Host that contains no '/' after
    stripping port and trailing dot, and every request path without empty segment, the route, the parameters and the
    trailing-slash flag returned by the model of `roots.lookup` are exactly those of the routing specification
    (`Spec.routeS`: hostname routes before path-only routes; at each position static text before `{param}` before
    `*{catch-all}` with backtracking; direct match before slash-adjusted match; slash removed, or added against a literal
    '/' of the pattern) evaluated on the patterns stored for that method. No bound on the number of routes, the depth of
    the tree, the length of the history or of the request. -/
theorem routing_correct_on_every_reachable_state (ops : List Op) (hv : ∀ op ∈ ops, op.valid = true)
    (m hostPort path : Bytes) (hn : noDbl path = true) (hs : SLASH ∉ stripHostPort hostPort) :
    lookup (runModel newTree ops).1.roots m hostPort path =
      toResult (routeS (sufsOfMethod (runModel newTree ops).1.roots m) hostPort path) :=
  lookup_eq_spec_good (C02_refines ops hv).1.good m hostPort path hn hs

end Fox.C01
