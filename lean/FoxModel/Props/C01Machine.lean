import FoxModel.Lemmas.MachineLazy
import FoxModel.Props.C01Map
import FoxModel.Util
/-
  Property C01 (with C07, C08, C09), stated on the matcher *as the Go code runs it*.

  `Model/Machine.lean` is the state machine of node.go: `lookupByPath` / `lookupByDomain` with their registers, the
  explicit stack of skipped alternatives (`*c.skipNds`), the parameter buffer `*c.params` that is truncated on
  backtracking, the "first trailing-slash candidate wins" registers, the early return on the first direct match, the
  recursive sub-lookups of infix catch-alls and of the hostname→path hand-over, and the staging of `roots.lookup`.
  The correspondence streams compare *this* machine with the implementation (`M=` of the `ops` and `routable` streams).

  The theorems below say that the machine computes exactly the enumerating model (`Model.lookup`) that the refinement
  theorems of Props/C01, C01Full, C01Map, C08, C09 are about - so all of them hold of the machine, for every reachable
  state, every request and every content of the recycled buffers the machine starts with.
-/
namespace Fox.C01
open Fox Fox.Model Fox.Spec Fox.C02

/-- **lookupByPath** (stack machine) on a well-formed node = first direct match of the enumerating walk, else its first
    trailing-slash candidate. The stack→recursion rendering of the matcher is thereby a theorem, no longer an assumption. -/
theorem machine_path_refines {target : Node} (hw : wfNode target = true) (path : Bytes) (ps0 : Binds) :
    Machine.lookupByPath target path ps0 = pick (pathEvents target path ps0) :=
  lookupByPath_eq_pick hw path ps0

/-- **lookupByDomain** (stack machine, with the path sub-lookup below the "/" child of a fully matched hostname and the
    propagation of its first trailing-slash candidate) = the enumerating hostname walk. -/
theorem machine_host_refines {root : Node} (hw : wfKids root.children = true)
    (hd : nodupB (kindsOf root.children) = true) (host path : Bytes) (hne : host ≠ []) :
    Machine.lookupByDomain root host path = pick (hostWalk root [] host path []) :=
  lookupByDomain_eq_pick hw hd host path hne

/-- **roots.lookup** of the machine = `Model.lookup`, on every well-formed forest, for every method, Host and path
    (no restriction on the request: empty segments, odd Hosts, '{' and '*' in the path included). -/
theorem machine_lookup_eq_model {rs : Roots} (hw : wfRoots rs = true) (m hostPort path : Bytes) :
    Machine.lookup rs m hostPort path = Model.lookup rs m hostPort path :=
  machine_lookup_eq hw m hostPort path

/-- the same in every state reachable by a history of valid operations -/
theorem machine_lookup_eq_model_reachable (ops : List Op) (hv : ∀ op ∈ ops, op.valid = true) (m hostPort path : Bytes) :
    Machine.lookup (runModel newTree ops).1.roots m hostPort path =
      Model.lookup (runModel newTree ops).1.roots m hostPort path :=
  machine_lookup_eq (C02_reachable_wf ops hv).1 m hostPort path

/-- **C01 / C07 / C08 / C09 end to end for the machine.** After any history of Handle / Update / Delete / Truncate, for
    every method, every Host without '/' and every path without empty segment, the state machine of `roots.lookup`
    returns exactly the route, the parameters and the trailing-slash flag of the documented routing rules `Spec.route`
    applied to the routes the sequential map holds for that method. -/
theorem machine_routing_correct_on_the_sequential_map (ops : List Op) (hv : ∀ op ∈ ops, op.valid = true)
    (hu : ∀ op ∈ ops, updSplitOk op = true)
    (m hostPort path : Bytes) (hn : noDbl path = true) (hs : SLASH ∉ stripHostPort hostPort) :
    Machine.lookup (runModel newTree ops).1.roots m hostPort path =
      toResult (Spec.route ((runSpec [] ops).1.routesOf m) hostPort path) := by
  rw [machine_lookup_eq_model_reachable ops hv]
  exact routing_correct_on_the_sequential_map ops hv hu m hostPort path hn hs

/-- **C07 for the machine**: two histories with the same final set of routes for a method are routed identically. -/
theorem machine_same_routes_same_routing (ops1 ops2 : List Op)
    (hv1 : ∀ op ∈ ops1, op.valid = true) (hu1 : ∀ op ∈ ops1, updSplitOk op = true)
    (hv2 : ∀ op ∈ ops2, op.valid = true) (hu2 : ∀ op ∈ ops2, updSplitOk op = true)
    (m : Bytes) (hsame : ∀ r, r ∈ (runSpec [] ops1).1.routesOf m ↔ r ∈ (runSpec [] ops2).1.routesOf m)
    (hostPort path : Bytes) (hn : noDbl path = true) (hs : SLASH ∉ stripHostPort hostPort) :
    Machine.lookup (runModel newTree ops1).1.roots m hostPort path =
      Machine.lookup (runModel newTree ops2).1.roots m hostPort path := by
  rw [machine_lookup_eq_model_reachable ops1 hv1, machine_lookup_eq_model_reachable ops2 hv2]
  exact same_routes_same_routing ops1 ops2 hv1 hu1 hv2 hu2 m hsame hostPort path hn hs

/-- the parameters a lookup starts with are kept in front of the ones it records (the hostname hand-over and the
    catch-all sub-lookups rely on it) -/
theorem machine_path_keeps_prefix {target : Node} (hw : wfNode target = true) (path : Bytes) (ps0 : Binds) :
    Machine.lookupByPath target path ps0 = (Machine.lookupByPath target path []).pre ps0 := by
  rw [lookupByPath_eq_pick hw, lookupByPath_eq_pick hw, ← pickC_none_eq_pick, ← pickC_none_eq_pick]
  unfold pathEvents
  rw [walk_prefix, pick_map_pre]

/-- **The lazy entry points agree with the recording ones** (C01: "ServeHTTP, Lookup, Reverse and the iterator Reverse, on
    the router and on transactions, all agree on that selection"; C11: the Allow-header loops). `roots.lookup` run with
    `lazy = true` (Router.Reverse, Txn.Reverse, Iter.Reverse, the 405 / OPTIONS loops of ServeHTTP: no parameter is
    recorded, `paramCnt` is not advanced) returns the same route and the same trailing-slash flag as the run with
    `lazy = false` (ServeHTTP, Lookup), on every forest - well-formed or not -, for every method, Host and path: both runs
    move through the tree in lock step (`lazy_sim_all`, `host_lazy_sim_all`: 27 + 19 cases). -/
theorem machine_lazy_agrees (rs : Roots) (m hostPort path : Bytes) :
    forget (Machine.lookup rs m hostPort path true) = forget (Machine.lookup rs m hostPort path false) :=
  machine_lookup_lazy rs m hostPort path

/-- hence, after any history, the lazy lookup selects exactly the route and the flag of the documented rules -/
theorem machine_lazy_routing_correct_on_the_sequential_map (ops : List Op) (hv : ∀ op ∈ ops, op.valid = true)
    (hu : ∀ op ∈ ops, updSplitOk op = true)
    (m hostPort path : Bytes) (hn : noDbl path = true) (hs : SLASH ∉ stripHostPort hostPort) :
    forget (Machine.lookup (runModel newTree ops).1.roots m hostPort path true) =
      forget (toResult (Spec.route ((runSpec [] ops).1.routesOf m) hostPort path)) := by
  rw [machine_lazy_agrees, machine_routing_correct_on_the_sequential_map ops hv hu m hostPort path hn hs]

/-- **A lazy lookup records nothing** (C12: the Allow loops run on the request's own pooled context and must not expose
    anything in it): the lazy `lookupByPath` never appends to the parameter buffer and never advances `paramCnt`, so every
    re-slice `(*c.params)[:skipped.paramCnt]` on backtracking is a genuine truncation; started on the emptied buffer it
    reports no parameter at all. (`lazy_trunc_all`: by induction over the machine's recursion, 27 cases.) -/
theorem machine_lazy_records_nothing (target : Node) (path : Bytes) (r : Route) (ps : Binds) (t : Bool)
    (h : Machine.lookupByPath target path [] true = .found r ps t) : ps = [] :=
  lookupByPath_lazy_records_nothing target path r ps t h

end Fox.C01

/-! ### non-vacuity: the machine really backtracks, truncates and keeps a trailing-slash candidate on concrete trees -/
namespace Fox.C01.MachineEx
open Fox Fox.Model Fox.Spec Fox.C02 Fox.Util

def mk (hid : Nat) (s : String) : Route :=
  match tokenize (ascii s) with
  | some toks => { hid := hid, pattern := toks, hostToks := toks.findIdx (· == Tok.lit SLASH) }
  | none => { hid := hid, pattern := [] }

/-- /a/{x}/c/d · /a/{y}… is refused; /a/b/{z}/e · /a/*{w} · /{p}/b/c/x · a.{h}.io/q/ : static-before-param-before-catch-all
    with two nested backtracks, a hostname route and a trailing-slash candidate -/
def hist : List Op :=
  [.handle GET (mk 1 "/a/{x}/c/d"), .handle GET (mk 2 "/a/b/{z}/e"), .handle GET (mk 3 "/a/*{w}"),
   .handle GET (mk 4 "/{p}/b/c/x"), .handle GET (mk 5 "a.{h}.io/q/"), .handle GET (mk 6 "/a/b/c/")]

-- the hypotheses of the theorems above hold for this history (evaluated: `tokenize` is a well-founded recursion)
#guard hist.all (fun op => op.valid) && hist.all (fun op => updSplitOk op)
#guard wfRoots (runModel newTree hist).1.roots

def rs : Roots := (runModel newTree hist).1.roots

-- /a/b/c/d : static b fails at /e, backtrack to {x}=b → /c/d matches route 1 with the parameter recorded after truncation
#guard (match Machine.lookup rs GET [] (ascii "/a/b/c/d") with
        | .found r ps false => r.hid == 1 && ps == [(ascii "x", ascii "b")] | _ => false)
-- /a/b/c/y : both fail, the catch-all takes the rest
#guard (match Machine.lookup rs GET [] (ascii "/a/b/c/y") with
        | .found r ps false => r.hid == 3 && ps == [(ascii "w", ascii "b/c/y")] | _ => false)
-- /a/b/c : the candidate "add a slash" (route 6) is kept while the search goes on and finds the catch-all directly
#guard (match Machine.lookup rs GET [] (ascii "/a/b/c") with
        | .found r _ false => r.hid == 3 | _ => false)
-- hostname stage with a trailing-slash candidate that wins over the path-only fallback
#guard (match Machine.lookup rs GET (ascii "a.zz.io:8080") (ascii "/q") with
        | .found r ps true => r.hid == 5 && ps == [(ascii "h", ascii "zz")] | _ => false)
-- a path byte '{' is searched among the static children and lands on the param child (explored twice, same answer)
#guard (match Machine.lookup rs GET [] (ascii "/{/b/c/x") with
        | .found r ps false => r.hid == 4 && ps == [(ascii "p", ascii "{")] | _ => false)
-- the lazy run (Reverse, Allow loops) selects the same routes and records nothing
#guard [("", "/a/b/c/d"), ("", "/a/b/c/y"), ("", "/a/b/c"), ("a.zz.io:8080", "/q"), ("", "/{/b/c/x"), ("", "/zz")].all fun (h, p) =>
  forget (Machine.lookup rs GET (ascii h) (ascii p) true) == forget (Machine.lookup rs GET (ascii h) (ascii p) false) &&
  (match Machine.lookup rs GET (ascii h) (ascii p) true with | .found _ ps _ => ps.isEmpty | _ => true)
-- and on all of them machine = enumerating model = specification
#guard [("", "/a/b/c/d"), ("", "/a/b/c/y"), ("", "/a/b/c"), ("a.zz.io:8080", "/q"), ("", "/{/b/c/x"), ("", "/zz")].all fun (h, p) =>
  Machine.lookup rs GET (ascii h) (ascii p) == Model.lookup rs GET (ascii h) (ascii p) &&
  Model.lookup rs GET (ascii h) (ascii p) == toResult (Spec.route ((runSpec [] hist).1.routesOf GET) (ascii h) (ascii p))

end Fox.C01.MachineEx
