import FoxModel.Lemmas.SpecPerm
import FoxModel.Props.C01Full
set_option linter.unusedSimpArgs false
set_option linter.unusedVariables false
/-
  Property C01 (with C07, C08, C09) end to end on the *sequential map*: after any history of Handle / Update / Delete /
  Truncate the router routes every request exactly as the documented rules (`Spec.route`) applied to the list of routes
  that the sequential map (`Spec.Store`, property C02) holds for the request's method.

  `Props/C01Full.lean` evaluates the specification on the suffix set stored in the tree (tree order: children sorted by
  key). Here that order is shown to be irrelevant: the map's conflict rule makes the registered patterns name-coherent,
  a match is determined by its choice trace, so the highest-priority match is unique and the specification's answer is
  a function of the *set* of registered routes (`Lemmas/SpecPerm.lean`).
-/
namespace Fox.C01
open Fox Fox.Model Fox.Spec Fox.C02

/-! ### the conflict rule gives name coherence; a match is determined by its trace -/

/-- The conflict relation of `Handle` is symmetric. -/
theorem conflictWith_symm (a b : List Tok) : conflictWith a b = conflictWith b a := Spec.conflictWith_symm a b

/-- A route list in which no two patterns conflict (the rule `Handle` enforces) is name-coherent - the hypothesis of
    the priority theorems of `Props/C01Spec.lean`. -/
theorem coherent_of_noConflict {R : List Route} (h : NoConfl R) : CoherentRoutes R := Spec.coherent_of_noConflict h

/-- **A match is determined by its choices.** If two non-conflicting patterns match the same text and make the same
    choice at every token (static / `{param}` / infix catch-all with the same capture length / suffix catch-all), they
    are the same pattern and capture the same values. (Name coherence `cohPair` alone is not enough: `/*{a}` and
    `/*{b}` are coherent, match the same paths with the same trace, and differ; the conflict rule excludes the pair.) -/
theorem best_unique {d : UInt8} {s s' : List Tok} {p : Bytes} {bs bs' : Binds}
    (h1 : Match d s p bs) (h2 : Match d s' p bs') (hc : conflictWith s s' = false)
    (ht : trace s bs = trace s' bs') : s = s' ∧ bs = bs' := Spec.best_unique h1 h2 hc ht

/-- the same for whole patterns `host/path` matched against a request `(host, path)` -/
theorem best_unique_hp {s s' : List Tok} {host path : Bytes} {bs bs' : Binds}
    (h1 : MatchHP s host path bs) (h2 : MatchHP s' host path bs') (hc : conflictWith s s' = false)
    (ht : trace s bs = trace s' bs') : s = s' ∧ bs = bs' := Spec.best_unique_hp h1 h2 hc ht

/-- **The highest-priority match is unique**: two `IsBest` answers over route lists with the same members (no
    conflicting patterns, one route per pattern) are the same route with the same parameters. -/
theorem isBest_unique {R R' : List Route} (hc : NoConfl R) (hi : PatInj R) (hmem : ∀ r, r ∈ R ↔ r ∈ R')
    {path : Bytes} {r r' : Route} {bs bs' : Binds} (h : IsBest R path r bs) (h' : IsBest R' path r' bs') :
    r = r' ∧ bs = bs' := Spec.isBest_unique hc hi hmem h h'

/-- the same for hostname routes -/
theorem isBestHP_unique {R R' : List Route} (hc : NoConfl R) (hi : PatInj R) (hmem : ∀ r, r ∈ R ↔ r ∈ R')
    {host path : Bytes} {r r' : Route} {bs bs' : Binds} (h : IsBestHP R host path r bs)
    (h' : IsBestHP R' host path r' bs') : r = r' ∧ bs = bs' := Spec.isBestHP_unique hc hi hmem h h'

/-! ### the specification is a function of the set of routes -/

/-- The first result of the specification's path search does not depend on the order (or multiplicity) in which the
    routes are listed. -/
theorem specAll_head_perm {R R' : List Route} (hc : NoConfl R) (hi : PatInj R) (hmem : ∀ r, r ∈ R ↔ r ∈ R')
    (path : Bytes) : (specAll (Spec.sufsOf R) path []).head? = (specAll (Spec.sufsOf R') path []).head? :=
  Spec.specAll_head_perm hc hi hmem path

/-- the same for the hostname search -/
theorem specHost_head_perm {R R' : List Route} (hc : NoConfl R) (hi : PatInj R) (hmem : ∀ r, r ∈ R ↔ r ∈ R')
    (host path : Bytes) :
    (specHost (Spec.sufsOf R) host path []).head? = (specHost (Spec.sufsOf R') host path []).head? :=
  Spec.specHost_head_perm hc hi hmem host path

/-- **`Spec.route` depends only on the set of registered routes** (hostname stage, path stage, both trailing-slash
    directions included), for route lists without conflicting patterns and with one route per pattern. -/
theorem route_perm {R R' : List Route} (hc : NoConfl R) (hi : PatInj R) (hmem : ∀ r, r ∈ R ↔ r ∈ R')
    (hostPort path : Bytes) : Spec.route R hostPort path = Spec.route R' hostPort path :=
  Spec.route_congr hc hi hmem hostPort path

/-- For routes whose recorded host/path split (`hostToks`) is in front of the first literal '/' of the pattern, the
    suffix-set form `routeS` used by the refinement theorem is the specification `Spec.route` on the route list. -/
theorem routeS_sufsOf {rs : List Route} (h : ∀ r ∈ rs, splitOk r = true) (hostPort path : Bytes) :
    routeS (Spec.sufsOf rs) hostPort path = Spec.route rs hostPort path := Spec.routeS_sufsOf h hostPort path

/-! ### the invariants of the sequential map along a history -/

/-- what the route handed to `Handle` / `Update` must satisfy for routing: its recorded host/path split is in front of
    the first literal '/' of its pattern (true for every route the parser builds; `validPattern` implies it) -/
def opSplitOk : Op → Bool
  | .handle _ r => splitOk r
  | .update _ r => splitOk r
  | _ => true

/-- the hypothesis on `Update` only (for `Handle` it follows from `Op.valid`) -/
def updSplitOk : Op → Bool
  | .update _ r => splitOk r
  | _ => true

theorem splitOk_of_valid {r : Route} (h : validPattern r = true) : splitOk r = true := by
  have := (validPattern_iff r).1 h
  simp [splitOk, this.2.1, this.2.2.1]

theorem opSplitOk_of {op : Op} (hv : op.valid = true) (hu : updSplitOk op = true) : opSplitOk op = true := by
  cases op with
  | handle m r => exact splitOk_of_valid hv
  | update m r => exact hu
  | delete m pat => rfl
  | truncate ms => rfl

theorem stepSpec_inv {s : Store} (op : Op) (h1 : NoConflict s) (h2 : SplitOk s) (hv : opSplitOk op = true) :
    NoConflict (stepSpec s op).1 ∧ SplitOk (stepSpec s op).1 := by
  cases op with
  | handle m r => exact ⟨h1.handle m r, h2.handle m hv⟩
  | update m r => exact ⟨h1.update m r, h2.update m hv⟩
  | delete m pat => exact ⟨h1.sub (delete_sub s m pat), h2.sub (delete_sub s m pat)⟩
  | truncate ms => exact ⟨h1.sub (truncate_sub s ms), h2.sub (truncate_sub s ms)⟩

theorem runSpec_inv : ∀ (ops : List Op) {s : Store}, NoConflict s → SplitOk s → (∀ op ∈ ops, opSplitOk op = true) →
    NoConflict (runSpec s ops).1 ∧ SplitOk (runSpec s ops).1
  | [], s, h1, h2, _ => ⟨h1, h2⟩
  | op :: ops, s, h1, h2, hv => by
    have := stepSpec_inv op h1 h2 (hv op (List.mem_cons_self ..))
    exact runSpec_inv ops this.1 this.2 (fun o ho => hv o (List.mem_cons_of_mem _ ho))

/-- **The conflict rule is an invariant of the sequential map**: after any history, no two patterns registered for
    the same method conflict, and every stored route has its host/path split in front of its first literal '/'. -/
theorem store_noConflict (ops : List Op) (hs : ∀ op ∈ ops, opSplitOk op = true) :
    NoConflict (runSpec [] ops).1 ∧ SplitOk (runSpec [] ops).1 :=
  runSpec_inv ops (fun e he => by cases he) (fun e he => by cases he) hs

/-- hence the routes the map holds for a method are name-coherent: the priority theorems of `Props/C01Spec.lean`
    (`route_outcome`, `route_direct_first`, ...) apply to `Spec.route` on every reachable map -/
theorem store_coherent (ops : List Op) (hs : ∀ op ∈ ops, opSplitOk op = true) (m : Bytes) :
    CoherentRoutes ((runSpec [] ops).1.routesOf m) :=
  Spec.coherent_of_noConflict ((store_noConflict ops hs).1.routesOf m)

/-! ### end to end -/

/-- in a reachable tree the suffix set below a method root is the pattern list of the routes stored there -/
theorem sufsOfMethod_eq {t : Tree} (hg : Good t) (m : Bytes) :
    sufsOfMethod t.roots m = Spec.sufsOf (routesOf t m) := by
  unfold sufsOfMethod routesOf
  cases hm : methodRoot t.roots m with
  | none => rfl
  | some root =>
    simp only
    obtain ⟨x, hx, rfl⟩ := methodRoot_mem hm
    have hroot := (hg.roots x hx).wf
    simp only [wfRoot, Bool.and_eq_true, List.isEmpty_iff, Option.isNone_iff_eq_none] at hroot
    have hk : x.2.key = [] := hroot.1.1.1
    have hr : x.2.route = none := hroot.1.1.2
    have hS : sufsNode x.2 = sufsKids x.2.children := by
      rw [sufsNode_eq, sufsFrom_eq, hk, hr]; simp [routeSuf]
    have hp := (hg.roots x hx).pats
    rw [hS] at hp
    rw [routesNode_eq, hS]
    unfold Spec.sufsOf
    rw [List.map_map]
    conv => lhs; rw [← List.map_id (sufsKids x.2.children)]
    apply List.map_congr_left
    intro sr hsr
    obtain ⟨a, b⟩ := sr
    have := (hp _ hsr).1
    simp only at this
    simp [this]

/-- lookup = `Spec.route` on the map's routes, for every tree/map pair related by the C02 simulation whose map
    satisfies the two routing invariants -/
theorem lookup_eq_route_of_sim {t : Tree} {s : Store} (h : Sim t s) (hc : NoConflict s) (hsp : SplitOk s)
    (m hostPort path : Bytes) (hn : noDbl path = true) (hs : SLASH ∉ stripHostPort hostPort) :
    lookup t.roots m hostPort path = toResult (Spec.route (s.routesOf m) hostPort path) := by
  have hmem : ∀ r, r ∈ s.routesOf m ↔ r ∈ routesOf t m := fun r => ((h.abs.1 m).mem_iff).symm
  rw [lookup_eq_spec_good h.good m hostPort path hn hs, sufsOfMethod_eq h.good m,
    Spec.routeS_sufsOf (fun r hr => hsp.routesOf m r ((hmem r).2 hr)),
    ← Spec.route_congr (hc.routesOf m) (patInj_routesOf h.store m) hmem]

/-- **C01 / C07 / C08 / C09 end to end, on the sequential map.** After *any* history of Handle / Update / Delete /
    Truncate (every `Handle` pattern being one the parser accepts, every `Update` route carrying the host/path split
    of its pattern), for every method, every Host without '/' (after stripping port and trailing dot) and every request
    path without empty segment, the route, the parameters and the trailing-slash flag returned by the model of
    `roots.lookup` on the radix tree are exactly those of the documented routing rules `Spec.route` applied to the list
    of routes that the sequential map holds for that method: hostname routes before path-only routes; at every position
    static text before `{param}` before `*{catch-all}`, with backtracking; a direct match before a slash-adjusted one.
    The shape of the tree, the order of its children and the order of registration play no role. -/
theorem routing_correct_on_the_sequential_map (ops : List Op) (hv : ∀ op ∈ ops, op.valid = true)
    (hu : ∀ op ∈ ops, updSplitOk op = true)
    (m hostPort path : Bytes) (hn : noDbl path = true) (hs : SLASH ∉ stripHostPort hostPort) :
    lookup (runModel newTree ops).1.roots m hostPort path =
      toResult (Spec.route ((runSpec [] ops).1.routesOf m) hostPort path) := by
  have hinv := store_noConflict ops (fun op hop => opSplitOk_of (hv op hop) (hu op hop))
  exact lookup_eq_route_of_sim (C02_refines ops hv).1 hinv.1 hinv.2 m hostPort path hn hs

/-- **C07: the registered set determines the routing.** Two histories (in any order, with any intermediate updates,
    deletions and truncations) whose final maps hold the same routes for method `m` route every request of that method
    identically: same route, same parameters, same trailing-slash flag. -/
theorem same_routes_same_routing (ops1 ops2 : List Op)
    (hv1 : ∀ op ∈ ops1, op.valid = true) (hu1 : ∀ op ∈ ops1, updSplitOk op = true)
    (hv2 : ∀ op ∈ ops2, op.valid = true) (hu2 : ∀ op ∈ ops2, updSplitOk op = true)
    (m : Bytes) (hsame : ∀ r, r ∈ (runSpec [] ops1).1.routesOf m ↔ r ∈ (runSpec [] ops2).1.routesOf m)
    (hostPort path : Bytes) (hn : noDbl path = true) (hs : SLASH ∉ stripHostPort hostPort) :
    lookup (runModel newTree ops1).1.roots m hostPort path =
      lookup (runModel newTree ops2).1.roots m hostPort path := by
  rw [routing_correct_on_the_sequential_map ops1 hv1 hu1 m hostPort path hn hs,
    routing_correct_on_the_sequential_map ops2 hv2 hu2 m hostPort path hn hs]
  have hinv := store_noConflict ops1 (fun op hop => opSplitOk_of (hv1 op hop) (hu1 op hop))
  rw [Spec.route_congr (hinv.1.routesOf m) (patInj_routesOf (C02_refines ops1 hv1).1.store m) hsame]

/-- permutation form of the hypothesis -/
theorem perm_routes_same_routing (ops1 ops2 : List Op)
    (hv1 : ∀ op ∈ ops1, op.valid = true) (hu1 : ∀ op ∈ ops1, updSplitOk op = true)
    (hv2 : ∀ op ∈ ops2, op.valid = true) (hu2 : ∀ op ∈ ops2, updSplitOk op = true)
    (m : Bytes) (hperm : ((runSpec [] ops1).1.routesOf m).Perm ((runSpec [] ops2).1.routesOf m))
    (hostPort path : Bytes) (hn : noDbl path = true) (hs : SLASH ∉ stripHostPort hostPort) :
    lookup (runModel newTree ops1).1.roots m hostPort path =
      lookup (runModel newTree ops2).1.roots m hostPort path :=
  same_routes_same_routing ops1 ops2 hv1 hu1 hv2 hu2 m (fun _ => hperm.mem_iff) hostPort path hn hs

/-! ### non-vacuity -/

/-- the hypotheses hold for the example history of C02 (Handle, conflicting Handle, duplicate Handle, hostname Handle,
    Update, two Deletes, Truncate) -/
example : (∀ op ∈ exOps, op.valid = true) ∧ (∀ op ∈ exOps, updSplitOk op = true) := by decide

/-- two registration orders of the same three routes -/
def exA : List Op := [.handle GET exR1, .handle GET exR3, .handle GET C01Spec.Ex.rSuf]
def exB : List Op := [.handle GET C01Spec.Ex.rSuf, .handle GET exR3, .handle GET exR1]
example : (∀ op ∈ exA ++ exB, op.valid = true) ∧ (∀ op ∈ exA ++ exB, updSplitOk op = true) := by decide
example : (runSpec [] exA).1.routesOf GET ≠ (runSpec [] exB).1.routesOf GET ∧
    ((runSpec [] exA).1.routesOf GET).Perm ((runSpec [] exB).1.routesOf GET) := by decide

/-- the `Update` hypothesis cannot be dropped: `Update` with a route that carries the pattern of a registered path
    route but claims a hostname part makes `Spec.route` on the map treat it as a hostname route -/
example : updSplitOk (.update GET { exR1 with hostToks := 1 }) = false := by decide

end Fox.C01
