import FoxModel.Lemmas.SpecMeaning
/-
  Properties C01 / C08 / C09, specification side: the executable routing specification `Spec.route`
  (the oracle of the differential check) means what the property texts say.
  Declarative vocabulary: `FoxModel/Spec/Match.lean`. Helper lemmas: `FoxModel/Lemmas/SpecMeaning.lean`.
-/
namespace Fox.C01Spec
open Fox Fox.Spec

/-! ## B. the enumeration produces exactly the declarative matches -/

/-- **Soundness.** Every result `(r, bs)` that the specification's search reports for `path` comes from a member
    pattern `s` of route `r` that really matches `path`, and the reported bindings are the incoming ones followed
    by that match's captures. The oracle never reports a route that does not match. -/
theorem specAll_sound {S : SufSet} {path : Bytes} {ps : Binds} {r : Route} {bs : Binds}
    (h : (r, bs) ∈ specAll S path ps) :
    ∃ s bs', (s, r) ∈ S ∧ bs = ps ++ bs' ∧ Match SLASH s path bs' := Spec.specAll_sound h

/-- **Completeness.** Every declarative match of a member pattern is reported by the search. The oracle never
    misses a matching route. -/
theorem specAll_complete {S : SufSet} {path : Bytes} {ps : Binds} {s : List Tok} {r : Route} {bs' : Binds}
    (hm : (s, r) ∈ S) (hM : Match SLASH s path bs') : (r, ps ++ bs') ∈ specAll S path ps :=
  Spec.specAll_complete hm hM

/-- Soundness of the hostname search: a reported result is a member pattern that splits in front of a literal
    '/' into a host part matching the whole host (labels delimited by '.', no catch-all) and a path part matching
    the whole path. -/
theorem specHost_sound {S : SufSet} {host path : Bytes} {ps : Binds} {r : Route} {bs : Binds}
    (h : (r, bs) ∈ specHost S host path ps) :
    ∃ s bs', (s, r) ∈ S ∧ bs = ps ++ bs' ∧ MatchHP s host path bs' := Spec.specHost_sound h

/-- Completeness of the hostname search. -/
theorem specHost_complete {S : SufSet} {host path : Bytes} {ps : Binds} {s : List Tok} {r : Route} {bs' : Binds}
    (hm : (s, r) ∈ S) (hM : MatchHP s host path bs') : (r, ps ++ bs') ∈ specHost S host path ps :=
  Spec.specHost_complete hm hM

/-! ## C. what a match gives the user -/

/-- Substituting the reported values for the wildcards of the pattern reproduces the matched text exactly. -/
theorem subst_of_match {d : UInt8} {s : List Tok} {x : Bytes} {bs : Binds} (h : Match d s x bs) :
    subst s bs = some x := Spec.subst_of_match h

/-- The values are reported under the pattern's wildcard names, in pattern order. -/
theorem names_of_match {d : UInt8} {s : List Tok} {x : Bytes} {bs : Binds} (h : Match d s x bs) :
    bs.map Prod.fst = wildNames s := Spec.names_of_match h

/-- One binding per wildcard: the number of reported parameters is the number of wildcards of the pattern. -/
theorem count_of_match {d : UInt8} {s : List Tok} {x : Bytes} {bs : Binds} (h : Match d s x bs) :
    bs.length = (s.filter isWild).length := by
  rw [← wildNames_length, ← Spec.names_of_match h, List.length_map]

/-- Capture shape: every captured value is non-empty, and a `{param}` value does not contain the segment
    delimiter ('/' in the path part, '.' in the hostname part). -/
theorem caps_of_match {d : UInt8} {s : List Tok} {x : Bytes} {bs : Binds} (h : Match d s x bs) :
    CapsOK d s bs := Spec.caps_of_match h

/-- A captured value only contains bytes of the matched text; in particular a hostname parameter contains no
    '/' when the host contains none. -/
theorem values_subset {d : UInt8} {s : List Tok} {x : Bytes} {bs : Binds} (h : Match d s x bs) :
    ∀ nv ∈ bs, ∀ c ∈ nv.2, c ∈ x := Spec.values_subset h

/-- On a path without empty segments an infix catch-all `*{n}` may capture any non-empty value that does not
    start with '/' and is followed by a '/', at which the rest of the pattern continues: the remaining side
    conditions of `InfixCap` are automatic there. -/
theorem infix_rule_on_clean_paths {d : UInt8} {n v : Bytes} {ts : List Tok} {s : Bytes} {bs : Binds}
    (hv : v ≠ []) (hh : v.head? ≠ some SLASH) (hts : ts ≠ []) (hs : s.head? = some SLASH)
    (hclean : NoDbl (v ++ s)) (hM : Match d ts s bs) :
    Match d (.catchAll n :: ts) (v ++ s) ((n, v) :: bs) :=
  Match.infix (InfixCap.of_clean hv hh hs hclean) hts hs hM

/-- A whole-pattern match `(host, path)`: substituting the values into the pattern reproduces the request host
    followed by the request path. -/
theorem matchHP_subst {pat : List Tok} {host path : Bytes} {bs : Binds} (h : MatchHP pat host path bs) :
    subst pat bs = some (host ++ path) := by
  obtain ⟨hs, pp, bh, bp, rfl, _, _, h4, h5, rfl⟩ := h
  exact subst_append (Spec.subst_of_match h4) (Spec.subst_of_match h5)

/-- ... and the names are the pattern's wildcard names in pattern order (host wildcards first). -/
theorem matchHP_names {pat : List Tok} {host path : Bytes} {bs : Binds} (h : MatchHP pat host path bs) :
    bs.map Prod.fst = wildNames pat := by
  obtain ⟨hs, pp, bh, bp, rfl, _, _, h4, h5, rfl⟩ := h
  rw [List.map_append, wildNames_append, Spec.names_of_match h4, Spec.names_of_match h5]

/-- Capture shape for a hostname route: host values are non-empty and dot-free (and contain no '/' if the
    host contains none), path values are non-empty and `{param}` values slash-free. -/
theorem matchHP_caps {pat : List Tok} {host path : Bytes} {bs : Binds} (h : MatchHP pat host path bs) :
    ∃ hs pp bh bp, pat = hs ++ pp ∧ bs = bh ++ bp ∧ CapsOK DOT hs bh ∧ CapsOK SLASH pp bp ∧
      (SLASH ∉ host → ∀ nv ∈ bh, SLASH ∉ nv.2) := by
  obtain ⟨hs, pp, bh, bp, rfl, _, _, h4, h5, rfl⟩ := h
  exact ⟨hs, pp, bh, bp, rfl, rfl, Spec.caps_of_match h4, Spec.caps_of_match h5,
    fun hh nv hnv hc => hh (Spec.values_subset h4 nv hnv _ hc)⟩

/-- a host without '/' cannot consume a literal '/' of the pattern -/
theorem no_litSlash_of_match {d : UInt8} {hs : List Tok} {host : Bytes} {bh : Binds} (h : Match d hs host bh)
    (hnc : NoCatch hs) (hh : SLASH ∉ host) : Tok.lit SLASH ∉ hs := by
  induction h with
  | nil => simp
  | lit _ ih =>
    simp only [List.mem_cons, not_or] at hh ⊢
    refine ⟨fun e => hh.1 (Tok.lit.inj e), ih (fun t ht => hnc t (List.mem_cons_of_mem _ ht)) hh.2⟩
  | param _ _ _ _ ih =>
    simp only [List.mem_cons, not_or, List.mem_append] at hh ⊢
    exact ⟨by simp, ih (fun t ht => hnc t (List.mem_cons_of_mem _ ht)) hh.2⟩
  | suffix _ => exact absurd (hnc _ (List.mem_cons_self ..)) (by simp [Tok.isCatch])
  | «infix» _ _ _ _ _ => exact absurd (hnc _ (List.mem_cons_self ..)) (by simp [Tok.isCatch])

theorem split_unique {α} {x : α} {a a' b b' : List α} (h : a ++ b = a' ++ b') (hb : b.head? = some x)
    (hb' : b'.head? = some x) (ha : x ∉ a) (ha' : x ∉ a') : a = a' ∧ b = b' := by
  induction a generalizing a' with
  | nil =>
    cases a' with
    | nil => exact ⟨rfl, by simpa using h⟩
    | cons y ys =>
      exfalso
      cases b with
      | nil => simp at hb
      | cons z zs =>
        simp at hb h; subst hb
        exact ha' (by rw [h.1]; exact List.mem_cons_self ..)
  | cons y ys ih =>
    cases a' with
    | nil =>
      exfalso
      cases b' with
      | nil => simp at hb'
      | cons z zs =>
        simp at hb' h; subst hb'
        exact ha (by rw [← h.1]; exact List.mem_cons_self ..)
    | cons y' ys' =>
      simp at h
      obtain ⟨rfl, h⟩ := h
      obtain ⟨rfl, rfl⟩ := ih h (fun hm => ha (List.mem_cons_of_mem _ hm)) (fun hm => ha' (List.mem_cons_of_mem _ hm))
      exact ⟨rfl, rfl⟩

/-- If the host contains no '/', the host/path split of a whole-pattern match is the *first* literal '/' of the
    pattern. -/
theorem matchHP_split_unique {pat : List Tok} {host path : Bytes} {bs : Binds} (h : MatchHP pat host path bs)
    (hh : SLASH ∉ host) {hs pp : List Tok} (hp : pat = hs ++ pp) (hhead : pp.head? = some (.lit SLASH))
    (hno : Tok.lit SLASH ∉ hs) :
    NoCatch hs ∧ ∃ bh bp, Match DOT hs host bh ∧ Match SLASH pp path bp ∧ bs = bh ++ bp := by
  obtain ⟨hs', pp', bh, bp, rfl, h2, h3, h4, h5, rfl⟩ := h
  obtain ⟨rfl, rfl⟩ := C01Spec.split_unique hp h2 hhead (no_litSlash_of_match h4 h3 hh) hno
  exact ⟨h3, bh, bp, h4, h5, rfl⟩

/-- For a hostname route whose recorded split (`hostToks`) is in front of the first literal '/' of its pattern,
    and a host without '/', matching the request with the recorded split (`MatchReq`) is the same as the
    split-agnostic `MatchHP` that the specification's search computes. -/
theorem matchReq_iff_matchHP {r : Route} {host path : Bytes} {bs : Binds} (hr : r.hostToks ≠ 0)
    (hsplit : r.pathPart.head? = some (.lit SLASH)) (hno : Tok.lit SLASH ∉ r.hostPart) (hh : SLASH ∉ host) :
    MatchReq r host path bs ↔ MatchHP r.pattern host path bs := by
  have hp : r.pattern = r.hostPart ++ r.pathPart := (List.take_append_drop _ _).symm
  constructor
  · intro h
    simp only [MatchReq, hr, if_false] at h
    obtain ⟨h1, h2, bh, bp, h3, h4, h5⟩ := h
    exact ⟨_, _, bh, bp, hp, h1, h2, h3, h4, h5⟩
  · intro h
    simp only [MatchReq, hr, if_false]
    obtain ⟨h1, h2⟩ := matchHP_split_unique h hh hp hsplit hno
    exact ⟨hsplit, h1, h2⟩

/-- A request matched by a route reproduces the request text: the path for a path-only route, host followed by
    path for a hostname route. -/
theorem matchReq_subst {r : Route} {host path : Bytes} {bs : Binds} (h : MatchReq r host path bs) :
    subst r.pattern bs = some (if r.hostToks = 0 then path else host ++ path) := by
  unfold MatchReq at h
  split at h
  · rename_i h0; rw [if_pos h0]; exact Spec.subst_of_match h
  · rename_i h0; rw [if_neg h0]
    obtain ⟨_, _, bh, bp, h3, h4, rfl⟩ := h
    have hp : r.pattern = r.hostPart ++ r.pathPart := (List.take_append_drop _ _).symm
    rw [hp]
    exact subst_append (Spec.subst_of_match h3) (Spec.subst_of_match h4)

/-! ## D. priority -/

/-- The choice order is a total order on traces (so "smallest trace" is meaningful). -/
theorem traceLe_total_order :
    (∀ a, traceLe a a) ∧ (∀ a b c, traceLe a b → traceLe b c → traceLe a c) ∧
    (∀ a b, traceLe a b ∨ traceLe b a) ∧ (∀ a b, traceLe a b → traceLe b a → a = b) :=
  ⟨traceLe_refl, fun _ _ _ => traceLe_trans, traceLe_total, fun _ _ => traceLe_antisymm⟩

/-- **Priority.** For a name-coherent route set, the first result of the specification's search is a
    highest-priority match: at the first position where two matches make different choices the winner took
    static text rather than a `{param}`, a `{param}` rather than a catch-all, a shorter infix capture rather
    than a longer one, an infix catch-all rather than a catch-all to the end - and a lower-priority choice is
    taken only when every higher-priority choice at that position fails to complete (backtracking). -/
theorem specAll_head_isBest {R : List Route} (hR : CoherentRoutes R) {path : Bytes} {r : Route} {bs : Binds}
    {tl : Res} (h : specAll (sufsOf R) path [] = (r, bs) :: tl) : IsBest R path r bs := by
  obtain ⟨s, bs0, hm, hbs, hM, hmin⟩ := specAll_head_best (coherent_sufsOf hR) h
  obtain ⟨hr, rfl⟩ := mem_sufsOf.1 hm
  simp at hbs; subst hbs
  exact ⟨hr, hM, fun r' hr' bs' hM' => hmin _ r' bs' (mem_sufsOf.2 ⟨hr', rfl⟩) hM'⟩

/-- the same for hostname routes -/
theorem specHost_head_isBest {R : List Route} (hR : CoherentRoutes R) {host path : Bytes} {r : Route}
    {bs : Binds} {tl : Res} (h : specHost (sufsOf R) host path [] = (r, bs) :: tl) :
    IsBestHP R host path r bs := by
  obtain ⟨s, bs0, hm, hbs, hM, hmin⟩ := specHost_head_best (coherent_sufsOf hR) h
  obtain ⟨hr, rfl⟩ := mem_sufsOf.1 hm
  simp at hbs; subst hbs
  exact ⟨hr, hM, fun r' hr' bs' hM' => hmin _ r' bs' (mem_sufsOf.2 ⟨hr', rfl⟩) hM'⟩

/-- The whole enumeration is in non-decreasing trace order (statement on the trace-instrumented copy
    `specAllT` of the search, whose projection is `specAll`). -/
theorem specAll_sorted {S : SufSet} (hS : Coherent S) (path : Bytes) (ps : Binds) :
    untag (specAllT S path ps) = specAll S path ps ∧
    (specAllT S path ps).Pairwise (fun x y => traceLe x.2.2 y.2.2) :=
  ⟨untag_specAllT S path ps, specT_sorted.1 S path ps hS⟩

/-- Local form of the priority rule, valid for every route set (coherent or not): the search at a non-empty
    path is the concatenation static branch ++ `{param}` branch ++ infix catch-all branch (leftmost '/' first)
    ++ suffix catch-all, so its first result is taken from the first non-empty branch in this order. -/
theorem specAll_branches (S : SufSet) (b : UInt8) (rest : Bytes) (ps : Binds) :
    specAll S (b :: rest) ps =
      specAll (advLit b S) rest ps
      ++ (if segEnd SLASH (b :: rest) = 0 then [] else
           (paramNames S).flatMap fun n =>
             specAll (advParamNamed n S) ((b :: rest).drop (segEnd SLASH (b :: rest)))
               (ps ++ [(n, (b :: rest).take (segEnd SLASH (b :: rest)))]))
      ++ (if b = SLASH then [] else (infixNames S).flatMap fun n => specInfix (advInfixNamed n S) n [b] rest ps)
      ++ suffixCatch S (b :: rest) ps := Spec.specAll_branches S b rest ps

/-! ## E. staging of `Spec.route` (C08, C09) -/

/-- the hostname routes / path-only routes of a method -/
def hostRoutes (rs : List Route) : List Route := rs.filter isHostRoute
def pathRoutes (rs : List Route) : List Route := rs.filter (fun r => !isHostRoute r)

/-- hostname mode applies: the method has a hostname route and the request host (port and one trailing dot
    removed) is non-empty -/
def HostMode (rs : List Route) (hostPort : Bytes) : Prop := hostRoutes rs ≠ [] ∧ stripHostPort hostPort ≠ []

/-- candidates for a slash-adjusted match: when a slash was *added* to the request path only patterns that end
    in a literal '/' qualify -/
def cand (R : List Route) (added : Bool) : List Route := if added then R.filter endsWithLitSlash else R

def NoDirectP (P : List Route) (path : Bytes) : Prop := ∀ r ∈ P, ∀ bs, ¬ Match SLASH r.pattern path bs
def NoDirectH (H : List Route) (h path : Bytes) : Prop := ∀ r ∈ H, ∀ bs, ¬ MatchHP r.pattern h path bs
def NoTsrP (P : List Route) (path : Bytes) : Prop :=
  ∀ p' added, adjust path = some (p', added) → NoDirectP (cand P added) p'
def NoTsrH (H : List Route) (h path : Bytes) : Prop :=
  ∀ p' added, adjust path = some (p', added) → NoDirectH (cand H added) h p'

/-- a (not necessarily best) direct match -/
def HitP (R : List Route) (path : Bytes) (r : Route) (bs : Binds) : Prop := r ∈ R ∧ Match SLASH r.pattern path bs
def HitH (R : List Route) (h path : Bytes) (r : Route) (bs : Binds) : Prop := r ∈ R ∧ MatchHP r.pattern h path bs

/-- What the path-only stage may answer, in terms of a notion `Q` of "selected direct match":
    a direct match; or, only if there is no direct match, a slash-adjusted match; or nothing, only if there is
    neither. -/
def PathOutcome (Q : List Route → Bytes → Route → Binds → Prop) (P : List Route) (path : Bytes) :
    Option Found → Prop
  | some f => (f.tsr = false ∧ Q P path f.route f.params) ∨
      (f.tsr = true ∧ NoDirectP P path ∧
        ∃ p' added, adjust path = some (p', added) ∧ Q (cand P added) p' f.route f.params)
  | none => NoDirectP P path ∧ NoTsrP P path

/-- What `Spec.route` may answer: in hostname mode a direct hostname match; else a slash-adjusted hostname
    match; else (no hostname route matches directly or slash-adjusted) whatever the path-only stage answers.
    Outside hostname mode the path-only stage alone. -/
def RouteOutcome (QH : List Route → Bytes → Bytes → Route → Binds → Prop)
    (QP : List Route → Bytes → Route → Binds → Prop) (rs : List Route) (hostPort path : Bytes)
    (o : Option Found) : Prop :=
  (HostMode rs hostPort →
    (∃ f, o = some f ∧ f.tsr = false ∧ QH (hostRoutes rs) (stripHostPort hostPort) path f.route f.params) ∨
    (NoDirectH (hostRoutes rs) (stripHostPort hostPort) path ∧ ∃ f, o = some f ∧ f.tsr = true ∧
      ∃ p' added, adjust path = some (p', added) ∧
        QH (cand (hostRoutes rs) added) (stripHostPort hostPort) p' f.route f.params) ∨
    (NoDirectH (hostRoutes rs) (stripHostPort hostPort) path ∧ NoTsrH (hostRoutes rs) (stripHostPort hostPort) path ∧
      PathOutcome QP (pathRoutes rs) path o)) ∧
  (¬ HostMode rs hostPort → PathOutcome QP (pathRoutes rs) path o)

def FirstP (R : List Route) (path : Bytes) (r : Route) (bs : Binds) : Prop :=
  ∃ tl, specAll (sufsOf R) path [] = (r, bs) :: tl
def FirstH (R : List Route) (h path : Bytes) (r : Route) (bs : Binds) : Prop :=
  ∃ tl, specHost (sufsOf R) h path [] = (r, bs) :: tl

theorem specAll_nil_iff {P : List Route} {path : Bytes} : specAll (sufsOf P) path [] = [] ↔ NoDirectP P path := by
  constructor
  · intro h r hr bs hM
    have := Spec.specAll_complete (ps := []) (mem_sufsOf.2 ⟨hr, rfl⟩) hM
    rw [h] at this; simp at this
  · intro h
    apply List.eq_nil_iff_forall_not_mem.2
    intro ⟨r, bs⟩ hm
    obtain ⟨s, bs', hs, _, hM⟩ := Spec.specAll_sound hm
    obtain ⟨hr, rfl⟩ := mem_sufsOf.1 hs
    exact h r hr bs' hM

theorem specHost_nil_iff {H : List Route} {h path : Bytes} :
    specHost (sufsOf H) h path [] = [] ↔ NoDirectH H h path := by
  constructor
  · intro h0 r hr bs hM
    have := Spec.specHost_complete (ps := []) (mem_sufsOf.2 ⟨hr, rfl⟩) hM
    rw [h0] at this; simp at this
  · intro h0
    apply List.eq_nil_iff_forall_not_mem.2
    intro ⟨r, bs⟩ hm
    obtain ⟨s, bs', hs, _, hM⟩ := Spec.specHost_sound hm
    obtain ⟨hr, rfl⟩ := mem_sufsOf.1 hs
    exact h0 r hr bs' hM

/-- one stage = direct search, else best slash-adjusted search -/
def stage (R : List Route) (path : Bytes) (run : List Route → Bytes → Res) : Option Found :=
  (first (run R path) false).orElse fun _ => bestTsr R path run

theorem stage_cases (R : List Route) (path : Bytes) (run : List Route → Bytes → Res) :
    (∃ r bs tl, run R path = (r, bs) :: tl ∧ stage R path run = some ⟨r, bs, false⟩) ∨
    (run R path = [] ∧ ∃ p' added r bs tl, adjust path = some (p', added) ∧
      run (cand R added) p' = (r, bs) :: tl ∧ stage R path run = some ⟨r, bs, true⟩) ∨
    (run R path = [] ∧ (∀ p' added, adjust path = some (p', added) → run (cand R added) p' = []) ∧
      stage R path run = none) := by
  unfold stage
  rcases h : run R path with _ | ⟨⟨r, bs⟩, tl⟩
  · refine Or.inr ?_
    simp only [first, Option.orElse_none, bestTsr]
    rcases ha : adjust path with _ | ⟨p', added⟩
    · exact Or.inr ⟨trivial, by simp, rfl⟩
    · simp only
      rcases h2 : run (if added = true then R.filter endsWithLitSlash else R) p' with _ | ⟨⟨r, bs⟩, tl⟩
      · refine Or.inr ⟨trivial, ?_, by simp⟩
        intro p'' added' he
        simp at he; obtain ⟨rfl, rfl⟩ := he
        exact h2
      · exact Or.inl ⟨trivial, p', added, r, bs, tl, rfl, h2, by simp⟩
  · exact Or.inl ⟨r, bs, tl, rfl, by simp [first]⟩

theorem pathOnly_eq_stage (P : List Route) (path : Bytes) :
    pathOnly P path = stage P path (fun rs p => specAll (sufsOf rs) p []) := rfl

theorem pathOnly_outcome_first (P : List Route) (path : Bytes) : PathOutcome FirstP P path (pathOnly P path) := by
  rw [pathOnly_eq_stage]
  rcases stage_cases P path (fun rs p => specAll (sufsOf rs) p []) with
    ⟨r, bs, tl, h1, h2⟩ | ⟨h1, p', added, r, bs, tl, ha, h2, h3⟩ | ⟨h1, h2, h3⟩
  · rw [h2]; exact Or.inl ⟨rfl, tl, h1⟩
  · rw [h3]; exact Or.inr ⟨rfl, specAll_nil_iff.1 h1, p', added, ha, tl, h2⟩
  · rw [h3]; exact ⟨specAll_nil_iff.1 h1, fun p' added ha => specAll_nil_iff.1 (h2 p' added ha)⟩

theorem route_hostMode {rs : List Route} {hostPort : Bytes} (hm : HostMode rs hostPort) (path : Bytes) :
    route rs hostPort path =
      (stage (hostRoutes rs) path (fun rs p => specHost (sufsOf rs) (stripHostPort hostPort) p [])).orElse
        fun _ => pathOnly (pathRoutes rs) path := by
  unfold route
  have : ¬ (rs.filter isHostRoute = [] ∨ stripHostPort hostPort = []) := by
    intro h; rcases h with h | h
    · exact hm.1 h
    · exact hm.2 h
  simp only [this, if_false]
  rfl

theorem route_pathMode {rs : List Route} {hostPort : Bytes} (hm : ¬ HostMode rs hostPort) (path : Bytes) :
    route rs hostPort path = pathOnly (pathRoutes rs) path := by
  unfold route
  have : (rs.filter isHostRoute = [] ∨ stripHostPort hostPort = []) := by
    by_cases h1 : rs.filter isHostRoute = []
    · exact Or.inl h1
    · by_cases h2 : stripHostPort hostPort = []
      · exact Or.inr h2
      · exact absurd ⟨h1, h2⟩ hm
  simp only [this, if_true]
  rfl

theorem route_outcome_first (rs : List Route) (hostPort path : Bytes) :
    RouteOutcome FirstH FirstP rs hostPort path (route rs hostPort path) := by
  refine ⟨fun hm => ?_, fun hm => ?_⟩
  · rw [route_hostMode hm]
    rcases stage_cases (hostRoutes rs) path (fun rs p => specHost (sufsOf rs) (stripHostPort hostPort) p []) with
      ⟨r, bs, tl, h1, h2⟩ | ⟨h1, p', added, r, bs, tl, ha, h2, h3⟩ | ⟨h1, h2, h3⟩
    · rw [h2]; exact Or.inl ⟨_, rfl, rfl, tl, h1⟩
    · rw [h3]; exact Or.inr (Or.inl ⟨specHost_nil_iff.1 h1, _, rfl, rfl, p', added, ha, tl, h2⟩)
    · rw [h3]
      exact Or.inr (Or.inr ⟨specHost_nil_iff.1 h1, fun p' added ha => specHost_nil_iff.1 (h2 p' added ha),
        pathOnly_outcome_first _ _⟩)
  · rw [route_pathMode hm]; exact pathOnly_outcome_first _ _

theorem PathOutcome.mono {Q Q' : List Route → Bytes → Route → Binds → Prop} {P : List Route} {path : Bytes}
    {o : Option Found} (h : PathOutcome Q P path o)
    (h1 : ∀ p r bs, Q P p r bs → Q' P p r bs)
    (h2 : ∀ added p r bs, Q (cand P added) p r bs → Q' (cand P added) p r bs) : PathOutcome Q' P path o := by
  cases o with
  | none => exact h
  | some f =>
    rcases h with ⟨ht, hq⟩ | ⟨ht, hn, p', added, ha, hq⟩
    · exact Or.inl ⟨ht, h1 _ _ _ hq⟩
    · exact Or.inr ⟨ht, hn, p', added, ha, h2 _ _ _ _ hq⟩

theorem RouteOutcome.mono {QH QH' : List Route → Bytes → Bytes → Route → Binds → Prop}
    {QP QP' : List Route → Bytes → Route → Binds → Prop} {rs : List Route} {hostPort path : Bytes}
    {o : Option Found} (h : RouteOutcome QH QP rs hostPort path o)
    (g1 : ∀ x p r bs, QH (hostRoutes rs) x p r bs → QH' (hostRoutes rs) x p r bs)
    (g2 : ∀ added x p r bs, QH (cand (hostRoutes rs) added) x p r bs → QH' (cand (hostRoutes rs) added) x p r bs)
    (h1 : ∀ p r bs, QP (pathRoutes rs) p r bs → QP' (pathRoutes rs) p r bs)
    (h2 : ∀ added p r bs, QP (cand (pathRoutes rs) added) p r bs → QP' (cand (pathRoutes rs) added) p r bs) :
    RouteOutcome QH' QP' rs hostPort path o := by
  refine ⟨fun hm => ?_, fun hm => (h.2 hm).mono h1 h2⟩
  rcases h.1 hm with ⟨f, ho, ht, hq⟩ | ⟨hn, f, ho, ht, p', added, ha, hq⟩ | ⟨hn, hn2, hp⟩
  · exact Or.inl ⟨f, ho, ht, g1 _ _ _ _ hq⟩
  · exact Or.inr (Or.inl ⟨hn, f, ho, ht, p', added, ha, g2 _ _ _ _ _ hq⟩)
  · exact Or.inr (Or.inr ⟨hn, hn2, hp.mono h1 h2⟩)

theorem cand_coherent {R : List Route} (h : CoherentRoutes R) (added : Bool) : CoherentRoutes (cand R added) := by
  unfold cand; split
  · exact h.filter _
  · exact h

/-- **Staging of the specification, unconditional form**: whatever `Spec.route` answers is a genuine match
    (`HitH`/`HitP`) of the stage that applies, found in the documented stage order. -/
theorem route_outcome_hit (rs : List Route) (hostPort path : Bytes) :
    RouteOutcome HitH HitP rs hostPort path (route rs hostPort path) := by
  have hH : ∀ R x p r bs, FirstH R x p r bs → HitH R x p r bs := by
    intro R x p r bs ⟨tl, h⟩
    obtain ⟨s, bs', hs, hb, hM⟩ := Spec.specHost_sound (show (r, bs) ∈ specHost (sufsOf R) x p [] by rw [h]; simp)
    obtain ⟨hr, rfl⟩ := mem_sufsOf.1 hs
    simp at hb; subst hb; exact ⟨hr, hM⟩
  have hP : ∀ R p r bs, FirstP R p r bs → HitP R p r bs := by
    intro R p r bs ⟨tl, h⟩
    obtain ⟨s, bs', hs, hb, hM⟩ := Spec.specAll_sound (show (r, bs) ∈ specAll (sufsOf R) p [] by rw [h]; simp)
    obtain ⟨hr, rfl⟩ := mem_sufsOf.1 hs
    simp at hb; subst hb; exact ⟨hr, hM⟩
  exact (route_outcome_first rs hostPort path).mono (hH _) (fun _ => hH _) (hP _) (fun _ => hP _)

/-- **Staging of the specification** (C01 "hostname routes before path-only ones", C08, C09): for a
    name-coherent route set, `Spec.route` answers
    * in hostname mode: the best direct hostname match if there is one; else the best slash-adjusted hostname
      match if there is one; else what the path-only stage answers;
    * the path-only stage: the best direct match; else the best slash-adjusted match; else nothing. -/
theorem route_outcome {rs : List Route} (hc : CoherentRoutes rs) (hostPort path : Bytes) :
    RouteOutcome IsBestHP IsBest rs hostPort path (route rs hostPort path) := by
  have cH : CoherentRoutes (hostRoutes rs) := hc.filter _
  have cP : CoherentRoutes (pathRoutes rs) := hc.filter _
  exact (route_outcome_first rs hostPort path).mono
    (fun _ _ _ _ ⟨_, h⟩ => specHost_head_isBest cH h)
    (fun added _ _ _ _ ⟨_, h⟩ => specHost_head_isBest (cand_coherent cH added) h)
    (fun _ _ _ ⟨_, h⟩ => specAll_head_isBest cP h)
    (fun added _ _ _ ⟨_, h⟩ => specAll_head_isBest (cand_coherent cP added) h)

theorem mem_cand {R : List Route} {added : Bool} {r : Route} (h : r ∈ cand R added) : r ∈ R := by
  unfold cand at h; split at h
  · exact (List.mem_filter.1 h).1
  · exact h

theorem tok_beq {a b : Tok} : (a == b) = true ↔ a = b := beq_iff_eq

theorem endsWithLitSlash_iff (r : Route) :
    endsWithLitSlash r = true ↔ r.pattern.getLast? = some (.lit SLASH) := by
  unfold endsWithLitSlash
  cases h : r.pattern.getLast? with
  | none => constructor <;> intro h' <;> cases h'
  | some t =>
    show (t == Tok.lit SLASH) = true ↔ _
    rw [tok_beq]; simp

/-- add-slash candidates are exactly the routes whose pattern ends in a literal '/' -/
theorem mem_cand_added {R : List Route} {r : Route} :
    r ∈ cand R true ↔ r ∈ R ∧ r.pattern.getLast? = some (.lit SLASH) := by
  simp only [cand, if_true, List.mem_filter, endsWithLitSlash_iff]

theorem cand_removed (R : List Route) : cand R false = R := by simp [cand]

/-- **Direct before slash-adjusted** (C08): if some route of the stage that applies matches the request
    directly, `Spec.route` answers with `tsr = false` and the best such match. -/
theorem route_direct_first {rs : List Route} (hc : CoherentRoutes rs) (hostPort path : Bytes) :
    (HostMode rs hostPort → ¬ NoDirectH (hostRoutes rs) (stripHostPort hostPort) path →
      ∃ f, route rs hostPort path = some f ∧ f.tsr = false ∧
        IsBestHP (hostRoutes rs) (stripHostPort hostPort) path f.route f.params) ∧
    (¬ HostMode rs hostPort → ¬ NoDirectP (pathRoutes rs) path →
      ∃ f, route rs hostPort path = some f ∧ f.tsr = false ∧ IsBest (pathRoutes rs) path f.route f.params) := by
  have ho := route_outcome hc hostPort path
  refine ⟨fun hm hex => ?_, fun hm hex => ?_⟩
  · rcases ho.1 hm with ⟨f, h1, h2, h3⟩ | ⟨hn, _⟩ | ⟨hn, _⟩
    · exact ⟨f, h1, h2, h3⟩
    · exact absurd hn hex
    · exact absurd hn hex
  · have hp := ho.2 hm
    cases h : route rs hostPort path with
    | none => rw [h] at hp; exact absurd hp.1 hex
    | some f =>
      rw [h] at hp
      rcases hp with ⟨h2, h3⟩ | ⟨_, hn, _⟩
      · exact ⟨f, rfl, h2, h3⟩
      · exact absurd hn hex

/-- **A trailing-slash answer only without a direct match** (C08): if `Spec.route` answers with `tsr = true`
    then in hostname mode no hostname route matches the request directly, and if the answering route is a
    path-only route no path-only route matches the path directly. -/
theorem route_tsr_only_if_no_direct {rs : List Route} {hostPort path : Bytes} {f : Found}
    (h : route rs hostPort path = some f) (ht : f.tsr = true) :
    (HostMode rs hostPort → NoDirectH (hostRoutes rs) (stripHostPort hostPort) path) ∧
    (isHostRoute f.route = false → NoDirectP (pathRoutes rs) path) := by
  have ho := route_outcome_hit rs hostPort path
  rw [h] at ho
  have hpath : PathOutcome HitP (pathRoutes rs) path (some f) → NoDirectP (pathRoutes rs) path := by
    rintro (⟨h2, _⟩ | ⟨_, hn, _⟩)
    · rw [ht] at h2; exact absurd h2 (by simp)
    · exact hn
  by_cases hm : HostMode rs hostPort
  · rcases ho.1 hm with ⟨f', h1, h2, _⟩ | ⟨hn, f', h1, _, p', added, _, hq⟩ | ⟨hn, _, hp⟩
    · injection h1 with h1; subst h1; rw [ht] at h2; exact absurd h2 (by simp)
    · injection h1 with h1; subst h1
      refine ⟨fun _ => hn, fun hf => ?_⟩
      have := (List.mem_filter.1 (mem_cand hq.1)).2
      rw [hf] at this; exact absurd this (by simp)
    · exact ⟨fun _ => hn, fun _ => hpath hp⟩
  · exact ⟨fun hm' => absurd hm' hm, fun _ => hpath (ho.2 hm)⟩

/-- **Hostname routes before path-only routes; path-only routes are the fallback** (C09): in hostname mode a
    path-only route answers only if no hostname route matches the request directly and none matches it
    slash-adjusted. -/
theorem route_host_before_path {rs : List Route} {hostPort path : Bytes} {f : Found}
    (h : route rs hostPort path = some f) (hf : isHostRoute f.route = false) (hm : HostMode rs hostPort) :
    NoDirectH (hostRoutes rs) (stripHostPort hostPort) path ∧ NoTsrH (hostRoutes rs) (stripHostPort hostPort) path := by
  have ho := route_outcome_hit rs hostPort path
  rw [h] at ho
  have notHost : ∀ {R : List Route}, f.route ∈ R → R = hostRoutes rs ∨ (∃ a, R = cand (hostRoutes rs) a) → False := by
    intro R hmem hR
    have : f.route ∈ hostRoutes rs := by
      rcases hR with rfl | ⟨a, rfl⟩
      · exact hmem
      · exact mem_cand hmem
    have := (List.mem_filter.1 this).2
    rw [hf] at this; exact absurd this (by simp)
  rcases ho.1 hm with ⟨f', h1, _, hq⟩ | ⟨_, f', h1, _, p', added, _, hq⟩ | ⟨hn, hn2, _⟩
  · injection h1 with h1; subst h1; exact (notHost hq.1 (Or.inl rfl)).elim
  · injection h1 with h1; subst h1; exact (notHost hq.1 (Or.inr ⟨_, rfl⟩)).elim
  · exact ⟨hn, hn2⟩

/-- **A method without hostname routes ignores the Host** (C09). -/
theorem route_pathonly_ignores_host {rs : List Route} (h : hostRoutes rs = []) (host1 host2 path : Bytes) :
    route rs host1 path = route rs host2 path := by
  rw [route_pathMode (fun hm => hm.1 h), route_pathMode (fun hm => hm.1 h)]

/-- **No answer exactly when nothing matches**: `Spec.route` answers `none` iff (in hostname mode) no hostname
    route matches directly or slash-adjusted and no path-only route matches directly or slash-adjusted. -/
theorem route_none_iff (rs : List Route) (hostPort path : Bytes) :
    route rs hostPort path = none ↔
      (HostMode rs hostPort → NoDirectH (hostRoutes rs) (stripHostPort hostPort) path ∧
        NoTsrH (hostRoutes rs) (stripHostPort hostPort) path) ∧
      NoDirectP (pathRoutes rs) path ∧ NoTsrP (pathRoutes rs) path := by
  have ho := route_outcome_hit rs hostPort path
  constructor
  · intro h
    rw [h] at ho
    by_cases hm : HostMode rs hostPort
    · rcases ho.1 hm with ⟨f', h1, _⟩ | ⟨_, f', h1, _⟩ | ⟨hn, hn2, hp⟩
      · simp at h1
      · simp at h1
      · exact ⟨fun _ => ⟨hn, hn2⟩, hp⟩
    · exact ⟨fun hm' => absurd hm' hm, ho.2 hm⟩
  · rintro ⟨hH, hP1, hP2⟩
    cases h : route rs hostPort path with
    | none => rfl
    | some f =>
      exfalso
      rw [h] at ho
      have hpath : PathOutcome HitP (pathRoutes rs) path (some f) → False := by
        rintro (⟨_, hq⟩ | ⟨_, _, p', added, ha, hq⟩)
        · exact hP1 _ hq.1 _ hq.2
        · exact hP2 p' added ha _ hq.1 _ hq.2
      by_cases hm : HostMode rs hostPort
      · rcases ho.1 hm with ⟨f', h1, _, hq⟩ | ⟨_, f', h1, _, p', added, ha, hq⟩ | ⟨_, _, hp⟩
        · exact (hH hm).1 _ hq.1 _ hq.2
        · exact (hH hm).2 p' added ha _ hq.1 _ hq.2
        · exact hpath hp
      · exact hpath (ho.2 hm)

/-- the answering route is one of `rs`; with `tsr = false` it matches the request as is, with `tsr = true` it
    matches the slash-adjusted path (and ends in a literal '/' if a slash was added). A hostname route answers
    only in hostname mode and matches the stripped host; a path-only route matches the path whatever the host. -/
def AnswerOK (rs : List Route) (hostPort path : Bytes) (f : Found) : Prop :=
  f.route ∈ rs ∧ ∃ p', ((f.tsr = false ∧ p' = path) ∨ (f.tsr = true ∧ ∃ added, adjust path = some (p', added) ∧
      (added = true → f.route.pattern.getLast? = some (.lit SLASH)))) ∧
    ((isHostRoute f.route = true ∧ HostMode rs hostPort ∧
        MatchHP f.route.pattern (stripHostPort hostPort) p' f.params) ∨
     (isHostRoute f.route = false ∧ Match SLASH f.route.pattern p' f.params))

/-- **The answer is a registered route that matches** (C01), see `AnswerOK`. -/
theorem route_sound {rs : List Route} {hostPort path : Bytes} {f : Found} (h : route rs hostPort path = some f) :
    AnswerOK rs hostPort path f := by
  have ho := route_outcome_hit rs hostPort path
  rw [h] at ho
  have hadd : ∀ {R : List Route} {added : Bool}, f.route ∈ cand R added →
      (added = true → f.route.pattern.getLast? = some (.lit SLASH)) := by
    intro R added hmem ha; subst ha; exact (mem_cand_added.1 hmem).2
  have hpath : PathOutcome HitP (pathRoutes rs) path (some f) → AnswerOK rs hostPort path f := by
    rintro (⟨ht, hq⟩ | ⟨ht, _, p', added, ha, hq⟩)
    · have := List.mem_filter.1 hq.1
      exact ⟨this.1, path, Or.inl ⟨ht, rfl⟩, Or.inr ⟨by simpa using this.2, hq.2⟩⟩
    · have := List.mem_filter.1 (mem_cand hq.1)
      exact ⟨this.1, p', Or.inr ⟨ht, added, ha, hadd hq.1⟩, Or.inr ⟨by simpa using this.2, hq.2⟩⟩
  by_cases hm : HostMode rs hostPort
  · rcases ho.1 hm with ⟨f', h1, ht, hq⟩ | ⟨_, f', h1, ht, p', added, ha, hq⟩ | ⟨_, _, hp⟩
    · injection h1 with h1; subst h1
      have := List.mem_filter.1 hq.1
      exact ⟨this.1, path, Or.inl ⟨ht, rfl⟩, Or.inl ⟨this.2, hm, hq.2⟩⟩
    · injection h1 with h1; subst h1
      have := List.mem_filter.1 (mem_cand hq.1)
      exact ⟨this.1, p', Or.inr ⟨ht, added, ha, hadd hq.1⟩, Or.inl ⟨this.2, hm, hq.2⟩⟩
    · exact hpath hp
  · exact hpath (ho.2 hm)

/-! ### irrelevant routes (C08) -/

theorem route_eq (rs : List Route) (hostPort path : Bytes) :
    route rs hostPort path =
      if hostRoutes rs = [] ∨ stripHostPort hostPort = [] then pathOnly (pathRoutes rs) path
      else (stage (hostRoutes rs) path (fun rs p => specHost (sufsOf rs) (stripHostPort hostPort) p [])).orElse
        fun _ => pathOnly (pathRoutes rs) path := rfl

theorem cand_append (R1 R2 : List Route) (added : Bool) : cand (R1 ++ R2) added = cand R1 added ++ cand R2 added := by
  unfold cand; split <;> simp

theorem cand_single (r : Route) (added : Bool) :
    cand [r] added = if (added = true → endsWithLitSlash r = true) then [r] else [] := by
  unfold cand
  cases added <;> cases h : endsWithLitSlash r <;> simp [h]

/-- replacing the search `run` by one that ignores the route `r` for the request path and for its adjusted
    form does not change the stage -/
theorem stage_irrelevant {run : List Route → Bytes → Res} {R1 R2 : List Route} {r : Route} {path : Bytes}
    (dead : Bytes → Prop)
    (hrun : ∀ A B p, CoherentRoutes (A ++ r :: B) → dead p → run (A ++ r :: B) p = run (A ++ B) p)
    (hc : CoherentRoutes (R1 ++ r :: R2)) (h1 : dead path)
    (h2 : ∀ p' added, adjust path = some (p', added) → (added = true → endsWithLitSlash r = true) → dead p') :
    stage (R1 ++ r :: R2) path run = stage (R1 ++ R2) path run := by
  unfold stage bestTsr
  rw [hrun R1 R2 path hc h1]
  congr 1
  funext _
  cases ha : adjust path with
  | none => rfl
  | some pa =>
    obtain ⟨p', added⟩ := pa
    simp only
    have e1 : (if added = true then (R1 ++ r :: R2).filter endsWithLitSlash else R1 ++ r :: R2)
        = cand (R1 ++ r :: R2) added := rfl
    have e2 : (if added = true then (R1 ++ R2).filter endsWithLitSlash else R1 ++ R2) = cand (R1 ++ R2) added := rfl
    rw [e1, e2]
    have hcc := cand_coherent hc added
    have e3 : cand (R1 ++ r :: R2) added = cand R1 added ++ (cand [r] added ++ cand R2 added) := by
      rw [cand_append, show r :: R2 = [r] ++ R2 from rfl, cand_append]
    rw [e3, cand_single] at hcc ⊢
    rw [cand_append]
    by_cases hcond : (added = true → endsWithLitSlash r = true)
    · rw [if_pos hcond] at hcc ⊢
      exact congrArg (fun x => first x true) (hrun _ _ p' hcc (h2 p' added ha hcond))
    · rw [if_neg hcond]; rfl

theorem stage_nil (path : Bytes) (run : List Route → Bytes → Res) (hrun : ∀ p, run [] p = []) :
    stage [] path run = none := by
  unfold stage bestTsr
  rw [hrun]
  cases adjust path with
  | none => rfl
  | some pa =>
    obtain ⟨p', added⟩ := pa
    cases added <;> simp [hrun, first]

/-- the route `r` is irrelevant for the request: it matches neither the request nor its slash-adjusted form
    (for an added slash only patterns ending in a literal '/' count) - as a hostname route against the stripped
    host, as a path-only route against the path alone -/
def Irrelevant (r : Route) (hostPort path : Bytes) : Prop :=
  if isHostRoute r = true then
    (∀ bs, ¬ MatchHP r.pattern (stripHostPort hostPort) path bs) ∧
    (∀ p' added, adjust path = some (p', added) → (added = true → endsWithLitSlash r = true) →
      ∀ bs, ¬ MatchHP r.pattern (stripHostPort hostPort) p' bs)
  else
    (∀ bs, ¬ Match SLASH r.pattern path bs) ∧
    (∀ p' added, adjust path = some (p', added) → (added = true → endsWithLitSlash r = true) →
      ∀ bs, ¬ Match SLASH r.pattern p' bs)

/-- **Irrelevant routes never change the outcome** (C08): for a name-coherent route set, registering (anywhere
    in the list) a route that matches neither the request nor its slash-adjusted form leaves the answer of
    `Spec.route` unchanged. -/
theorem route_irrelevant {R1 R2 : List Route} {r : Route} {hostPort path : Bytes}
    (hc : CoherentRoutes (R1 ++ r :: R2)) (hirr : Irrelevant r hostPort path) :
    route (R1 ++ r :: R2) hostPort path = route (R1 ++ R2) hostPort path := by
  rw [route_eq, route_eq]
  unfold Irrelevant at hirr
  by_cases hr : isHostRoute r = true
  · rw [if_pos hr] at hirr
    have eP : pathRoutes (R1 ++ r :: R2) = pathRoutes (R1 ++ R2) := by simp [pathRoutes, hr]
    have eH : hostRoutes (R1 ++ r :: R2) = hostRoutes R1 ++ r :: hostRoutes R2 := by
      simp [hostRoutes, hr]
    have eH' : hostRoutes (R1 ++ R2) = hostRoutes R1 ++ hostRoutes R2 := by simp [hostRoutes]
    rw [eP]
    by_cases hh : stripHostPort hostPort = []
    · simp [hh]
    · have hcH : CoherentRoutes (hostRoutes R1 ++ r :: hostRoutes R2) := by rw [← eH]; exact hc.filter _
      have hst := stage_irrelevant (run := fun rs p => specHost (sufsOf rs) (stripHostPort hostPort) p [])
        (fun p => ∀ bs, ¬ MatchHP r.pattern (stripHostPort hostPort) p bs)
        (fun A B p hcAB hd => specHost_irrelevant hcAB hd) hcH hirr.1 hirr.2
      have hne : ¬ (hostRoutes (R1 ++ r :: R2) = [] ∨ stripHostPort hostPort = []) := by
        rw [eH]; intro h; rcases h with h | h
        · simp at h
        · exact hh h
      rw [if_neg hne, eH, hst, ← eH']
      by_cases hnil : hostRoutes (R1 ++ R2) = []
      · rw [if_pos (Or.inl hnil), hnil, stage_nil _ _ (fun p => specHost_empty _ _ _)]; rfl
      · rw [if_neg (by intro h; rcases h with h | h; exact hnil h; exact hh h)]
  · rw [if_neg hr] at hirr
    have hr' : isHostRoute r = false := by simpa using hr
    have eH : hostRoutes (R1 ++ r :: R2) = hostRoutes (R1 ++ R2) := by simp [hostRoutes, hr']
    have eP : pathRoutes (R1 ++ r :: R2) = pathRoutes R1 ++ r :: pathRoutes R2 := by
      simp [pathRoutes, hr']
    have eP' : pathRoutes (R1 ++ R2) = pathRoutes R1 ++ pathRoutes R2 := by simp [pathRoutes]
    have hcP : CoherentRoutes (pathRoutes R1 ++ r :: pathRoutes R2) := by rw [← eP]; exact hc.filter _
    have hst : pathOnly (pathRoutes (R1 ++ r :: R2)) path = pathOnly (pathRoutes (R1 ++ R2)) path := by
      rw [pathOnly_eq_stage, pathOnly_eq_stage, eP, eP']
      exact stage_irrelevant (run := fun rs p => specAll (sufsOf rs) p [])
        (fun p => ∀ bs, ¬ Match SLASH r.pattern p bs)
        (fun A B p hcAB hd => specAll_irrelevant hcAB hd) hcP hirr.1 hirr.2
    rw [eH, hst]

/-! ### `adjust` -/

/-- no trailing-slash action for the path "/" -/
theorem adjust_root : adjust [SLASH] = none := by simp [adjust]

theorem adjust_eq_none_iff (path : Bytes) : adjust path = none ↔ path = [SLASH] := by
  unfold adjust; split
  · simp [*]
  · split <;> simp [*]

/-- a path `p/` (other than "/") is adjusted by removing exactly that one slash -/
theorem adjust_remove (p : Bytes) (hp : p ≠ []) : adjust (p ++ [SLASH]) = some (p, false) := by
  have h1 : p ++ [SLASH] ≠ [SLASH] := by
    intro h
    have := congrArg List.length h
    simp at this
    exact hp this
  simp [adjust, h1, endsWithSlash]

/-- a path not ending in '/' is adjusted by adding exactly one slash -/
theorem adjust_add (p : Bytes) (hp : p.getLast? ≠ some SLASH) : adjust p = some (p ++ [SLASH], true) := by
  have h1 : p ≠ [SLASH] := by intro h; subst h; simp at hp
  simp [adjust, h1, endsWithSlash, hp]

/-- every adjustment is one of the two above -/
theorem adjust_cases {path p' : Bytes} {added : Bool} (h : adjust path = some (p', added)) :
    (added = false ∧ path = p' ++ [SLASH] ∧ p' ≠ []) ∨
    (added = true ∧ p' = path ++ [SLASH] ∧ path.getLast? ≠ some SLASH) := by
  unfold adjust at h
  split at h
  · simp at h
  · rename_i h1
    split at h
    · rename_i h2
      simp at h; obtain ⟨rfl, rfl⟩ := h
      simp only [endsWithSlash, beq_iff_eq] at h2
      have hne : path ≠ [] := by intro h0; subst h0; simp at h2
      have := List.dropLast_concat_getLast hne
      have hl : path.getLast hne = SLASH := by
        rw [List.getLast?_eq_some_getLast hne] at h2; simpa using h2
      rw [hl] at this
      refine Or.inl ⟨rfl, this.symm, ?_⟩
      intro h0; rw [h0] at this; simp at this; exact h1 this.symm
    · rename_i h2
      simp at h; obtain ⟨rfl, rfl⟩ := h
      refine Or.inr ⟨rfl, rfl, ?_⟩
      simpa [endsWithSlash] using h2

/-! ### `stripHostPort` (C09: "with any port and one trailing dot removed") -/

/-- remove one trailing dot -/
def trimDot (x : Bytes) : Bytes := if x.getLast? = some DOT then x.dropLast else x

/-- exactly one trailing dot is removed -/
theorem trimDot_dot (h : Bytes) : trimDot (h ++ [DOT]) = h := by simp [trimDot]

theorem trimDot_id (h : Bytes) (hd : h.getLast? ≠ some DOT) : trimDot h = h := by simp [trimDot, hd]

/-- a host without ':' only loses one trailing dot -/
theorem stripHostPort_noPort (h : Bytes) (hc : COLON ∉ h) : stripHostPort h = trimDot h := by
  unfold stripHostPort trimDot
  by_cases h0 : h = []
  · subst h0; simp
  · simp [h0, hc]

theorem findIdx_rev_port (h port : Bytes) (hp : COLON ∉ port) :
    ((h ++ COLON :: port).reverse.findIdx (· == COLON)) = port.length := by
  have : (h ++ COLON :: port).reverse = port.reverse ++ COLON :: h.reverse := by simp
  rw [this, List.findIdx_append]
  have h1 : port.reverse.findIdx (· == COLON) = port.reverse.length := by
    rw [List.findIdx_eq_length]
    intro x hx
    simp at hx ⊢
    intro e; subst e; exact hp hx
  rw [h1]
  simp [List.findIdx_cons]

/-- `host:port` (no brackets, a single colon): the final ":port" is dropped, then one trailing dot -/
theorem stripHostPort_port (h port : Bytes) (hc : COLON ∉ h) (hl : 91 ∉ h) (hr : 93 ∉ h)
    (pc : COLON ∉ port) (pl : 91 ∉ port) (pr : 93 ∉ port) :
    stripHostPort (h ++ COLON :: port) = trimDot h := by
  unfold stripHostPort
  have hne : h ++ COLON :: port ≠ [] := by simp
  have hcont : (h ++ COLON :: port).contains COLON = true := by simp
  simp only [hne, if_false, hcont, not_true_eq_false]
  rw [findIdx_rev_port h port pc]
  have hi : (h ++ COLON :: port).length - 1 - port.length = h.length := by simp
  rw [hi]
  have htake : (h ++ COLON :: port).take h.length = h := by simp
  rw [htake]
  have hB : (if List.contains h COLON = true then none
        else if (List.contains (h ++ COLON :: port) 91 || List.contains (h ++ COLON :: port) 93) = true then none
          else some h) = some h := by
    have c1 : (91 : UInt8) ≠ COLON := by decide
    have c2 : (93 : UInt8) ≠ COLON := by decide
    simp [hc, hl, hr, pl, pr, c1, c2]
  split
  · rename_i heq
    split at heq
    · rename_i tail hx
      exfalso
      cases h with
      | nil => simp [COLON] at hx
      | cons c h' => simp at hx hl; exact hl.1 hx.1.symm
    · rw [hB] at heq; simp at heq
  · rename_i x heq
    split at heq
    · rename_i tail hx
      exfalso
      cases h with
      | nil => simp [COLON] at hx
      | cons c h' => simp at hx hl; exact hl.1 hx.1.symm
    · rw [hB] at heq; simp at heq; subst heq; rfl

/-- `[ipv6]:port`: brackets and port are dropped (the address itself may contain colons) -/
theorem stripHostPort_ipv6 (a port : Bytes) (al : 91 ∉ a) (ar : 93 ∉ a)
    (pc : COLON ∉ port) (pl : 91 ∉ port) (pr : 93 ∉ port) :
    stripHostPort (91 :: a ++ 93 :: COLON :: port) = trimDot a := by
  have hx : (91 :: a ++ 93 :: COLON :: port) = (91 :: a ++ [93]) ++ COLON :: port := by simp
  have hj := findIdx_rev_port (91 :: a ++ [93]) port pc
  rw [← hx] at hj
  have he : (91 :: a ++ 93 :: COLON :: port).findIdx (· == 93) = a.length + 1 := by
    have : (91 :: a ++ 93 :: COLON :: port) = (91 :: a) ++ 93 :: COLON :: port := by simp
    rw [this, List.findIdx_append]
    have h1 : (91 :: a).findIdx (· == 93) = (91 :: a).length := by
      rw [List.findIdx_eq_length]
      intro y hy
      simp at hy ⊢
      rcases hy with rfl | hy
      · decide
      · intro e; subst e; exact ar hy
    rw [h1]; simp [List.findIdx_cons]
  unfold stripHostPort
  have hne : (91 :: a ++ 93 :: COLON :: port) ≠ [] := by simp
  have hcont : (91 :: a ++ 93 :: COLON :: port).contains COLON = true := by simp
  simp only [hne, if_false, hcont, not_true_eq_false]
  rw [hj]
  simp only [List.cons_append] at he ⊢
  simp only [he]
  have c1 : (91 : UInt8) ≠ COLON := by decide
  have c2 : (93 : UInt8) ≠ COLON := by decide
  have c3 : (91 : UInt8) ≠ 93 := by decide
  have hdrop : List.drop (a.length + 1 + 1) (91 :: (a ++ 93 :: COLON :: port)) = COLON :: port := by
    have : (91 :: (a ++ 93 :: COLON :: port)) = (91 :: a ++ [93]) ++ COLON :: port := by simp
    rw [this]
    have hl : a.length + 1 + 1 = (91 :: a ++ [93]).length := by simp
    rw [hl, List.drop_left']
    rfl
  have htake : List.drop 1 (List.take (a.length + 1) (91 :: (a ++ 93 :: COLON :: port))) = a := by
    simp [List.take_succ_cons]
  rw [hdrop, htake]
  simp [al, pl, pr, c1, c2, c3]
  have hi : List.length a + 1 + 1 = List.length a + (List.length port + 1 + 1) - List.length port := by omega
  rw [if_pos hi]
  rfl

/-- a port-free host without trailing dot is left unchanged (so stripping is idempotent on its results for
    port-free, dot-free hosts) -/
theorem stripHostPort_id (h : Bytes) (hc : COLON ∉ h) (hd : h.getLast? ≠ some DOT) : stripHostPort h = h := by
  rw [stripHostPort_noPort h hc, trimDot_id h hd]

/-- exactly one trailing dot is removed from a port-free host -/
theorem stripHostPort_dot (h : Bytes) (hc : COLON ∉ h) : stripHostPort (h ++ [DOT]) = h := by
  rw [stripHostPort_noPort _ (by simp [hc]; decide), trimDot_dot]

/-! ## non-vacuity: concrete instances of the hypotheses -/
namespace Ex

/-- "/a/x" -/
def rAX : Route := { hid := 1, pattern := [.lit 47, .lit 97, .lit 47, .lit 120] }
/-- "/{p}/y" -/
def rPY : Route := { hid := 2, pattern := [.lit 47, .param [112], .lit 47, .lit 121] }
/-- "/*{c}/x" (infix catch-all) -/
def rInf : Route := { hid := 3, pattern := [.lit 47, .catchAll [99], .lit 47, .lit 120] }
/-- "/*{c}" (suffix catch-all) -/
def rSuf : Route := { hid := 4, pattern := [.lit 47, .catchAll [99]] }
/-- "{s}.ex/p" (hostname route, host part = 4 tokens) -/
def rHost : Route := { hid := 5, pattern := [.param [115], .lit 46, .lit 101, .lit 120, .lit 47, .lit 112], hostToks := 4 }
/-- "/p/" -/
def rPS : Route := { hid := 6, pattern := [.lit 47, .lit 112, .lit 47] }

/-- request path "/a/y" -/
def pAY : Bytes := [47, 97, 47, 121]

macro "eval_spec" : tactic => `(tactic|
  simp [specAll, specInfix, specHost, sufsOf, advLit, advParam, advParamNamed, advInfix, advInfixNamed, paramNames,
    infixNames, names, suffixCatch, endsHere, segEnd, SLASH, DOT])

/-- backtracking: on "/a/y" the static branch "/a/…" is entered first, fails at "x" ≠ "y", and the search
    falls back to `{p}`; the result binds p = "a" -/
example : specAll (sufsOf [rAX, rPY]) pAY [] = [(rPY, [([112], [97])])] := by
  simp only [rAX, rPY, pAY]; eval_spec

example : CoherentRoutes [rAX, rPY, rInf, rSuf] := by decide

/-- hence `specAll_head_isBest` applies non-trivially -/
example : IsBest [rAX, rPY] pAY rPY [([112], [97])] :=
  specAll_head_isBest (by decide) (tl := []) (by simp only [rAX, rPY, pAY]; eval_spec)

/-- priority + infix: on "/a/b/x" both "/*{c}/x" (c = "a/b") and "/*{c}" (c = "a/b/x") match; the infix one wins -/
example : specAll (sufsOf [rSuf, rInf]) [47, 97, 47, 98, 47, 120] [] =
    [(rInf, [([99], [97, 47, 98])]), (rSuf, [([99], [97, 47, 98, 47, 120])])] := by
  simp only [rSuf, rInf]; eval_spec

/-- a declarative infix match built by hand: "/*{c}/x" matches "/a/b/x" with c = "a/b" -/
example : Match SLASH rInf.pattern [47, 97, 47, 98, 47, 120] [([99], [97, 47, 98])] :=
  .lit (Match.infix (v := [97, 47, 98]) (s := [47, 120]) (by decide) (by simp) rfl (.lit (.lit .nil)))

/-- hostname: "{s}.ex/p" matches host "a.ex", path "/p" with s = "a" -/
example : MatchReq rHost [97, 46, 101, 120] [47, 112] [([115], [97])] := by
  simp only [MatchReq, rHost, Route.pathPart, Route.hostPart]
  refine ⟨by simp [SLASH], by decide, [([115], [97])], [], ?_, .lit (.lit .nil), rfl⟩
  exact Match.param (v := [97]) (s := [46, 101, 120]) (by simp) (by decide) (by simp [DOT]) (.lit (.lit (.lit .nil)))

example : specHost (sufsOf [rHost]) [97, 46, 101, 120] [47, 112] [] = [(rHost, [([115], [97])])] := by
  simp only [rHost]; eval_spec


/-- host "a.ex:80" -/
def hAex80 : Bytes := [97, 46, 101, 120, 58, 56, 48]

example : stripHostPort hAex80 = [97, 46, 101, 120] := by decide
example : stripHostPort [97, 46, 101, 120, 46] = [97, 46, 101, 120] := by decide
/-- "[::1]:80" ↦ "::1" -/
example : stripHostPort [91, 58, 58, 49, 93, 58, 56, 48] = [58, 58, 49] := by decide

macro "eval_route" : tactic => `(tactic|
  simp [route, pathOnly, bestTsr, first, adjust, endsWithSlash, endsWithLitSlash, isHostRoute,
    specAll, specInfix, specHost, sufsOf, advLit, advParam, advParamNamed, advInfix, advInfixNamed, paramNames,
    infixNames, names, suffixCatch, endsHere, segEnd, SLASH, DOT])

/-- hostname mode, direct hostname match (hypotheses of `route_direct_first`, first part) -/
example : HostMode [rHost, rPS] hAex80 ∧ ¬ NoDirectH (hostRoutes [rHost, rPS]) (stripHostPort hAex80) [47, 112] := by
  have hs : stripHostPort hAex80 = [97, 46, 101, 120] := by decide
  refine ⟨⟨by decide, by rw [hs]; simp⟩, fun h => ?_⟩
  rw [hs] at h
  have : hostRoutes [rHost, rPS] = [rHost] := by decide
  rw [this, ← specHost_nil_iff] at h
  revert h
  simp only [rHost]; eval_spec

/-- slash-adjusted answer: only "/p/" is registered, the request is "/p" -/
example : route [rPS] [] [47, 112] = some ⟨rPS, [], true⟩ := by
  have e1 : [rPS].filter endsWithLitSlash = [rPS] := by decide
  have e2 : [rPS].filter (fun r => !isHostRoute r) = [rPS] := by decide
  have e3 : [rPS].filter isHostRoute = [] := by decide
  have h1 : specAll (sufsOf [rPS]) [47, 112] [] = [] := by simp only [rPS]; eval_spec
  have h2 : specAll (sufsOf [rPS]) [47, 112, 47] [] = [(rPS, [])] := by simp only [rPS]; eval_spec
  simp [route, pathOnly, bestTsr, first, adjust, endsWithSlash, e1, e2, e3, h1, h2, SLASH]

/-- hostname mode, host does not match, the path-only route is the fallback (hypotheses of
    `route_host_before_path`) -/
example : route [rHost, rPS] [98, 46, 111] [47, 112, 47] = some ⟨rPS, [], false⟩ ∧
    isHostRoute rPS = false ∧ HostMode [rHost, rPS] [98, 46, 111] := by
  have hs : stripHostPort [98, 46, 111] = [98, 46, 111] := by decide
  have e2 : [rHost, rPS].filter (fun r => !isHostRoute r) = [rPS] := by decide
  have e3 : [rHost, rPS].filter isHostRoute = [rHost] := by decide
  have h1 : specHost (sufsOf [rHost]) [98, 46, 111] [47, 112, 47] [] = [] := by simp only [rHost]; eval_spec
  have h2 : specHost (sufsOf [rHost]) [98, 46, 111] [47, 112] [] = [] := by simp only [rHost]; eval_spec
  have h3 : specAll (sufsOf [rPS]) [47, 112, 47] [] = [(rPS, [])] := by simp only [rPS]; eval_spec
  refine ⟨?_, by decide, ⟨by decide, by rw [hs]; simp⟩⟩
  simp [route, pathOnly, bestTsr, first, adjust, endsWithSlash, hs, e2, e3, h1, h2, h3, SLASH]

/-- an irrelevant route (hypotheses of `route_irrelevant`): "/a/x" for the request "/p" next to "/p/" -/
example : CoherentRoutes ([rPS] ++ rAX :: []) ∧ Irrelevant rAX [] [47, 112] := by
  refine ⟨by decide, ?_⟩
  unfold Irrelevant
  rw [if_neg (by decide)]
  refine ⟨fun bs => ?_, fun p' added ha hcond bs => ?_⟩
  · have : NoDirectP [rAX] [47, 112] := specAll_nil_iff.1 (by simp only [rAX]; eval_spec)
    exact this rAX (by simp) bs
  · simp [adjust, endsWithSlash, SLASH] at ha
    obtain ⟨_, rfl⟩ := ha
    exact absurd (hcond rfl) (by decide)

/-! ### why `CoherentRoutes` is assumed (route sets the router itself rejects) -/

/-- "/{a}/{c}" -/
def rAC : Route := { hid := 7, pattern := [.lit 47, .param [97], .lit 47, .param [99]] }
/-- "/{b}/x" -/
def rBX : Route := { hid := 8, pattern := [.lit 47, .param [98], .lit 47, .lit 120] }
/-- "/{b}/dead" (only the first letter matters here: "/{b}/d") -/
def rBD : Route := { hid := 9, pattern := [.lit 47, .param [98], .lit 47, .lit 100] }

example : ¬ CoherentRoutes [rAC, rBX] := by decide

/-- with two different parameter names at the same position the enumeration goes name by name, so on "/p/x"
    the first result is "/{a}/{c}" although "/{b}/x" makes the more specific (static) choice later on -/
example : specAll (sufsOf [rAC, rBX]) [47, 112, 47, 120] [] =
    [(rAC, [([97], [112]), ([99], [120])]), (rBX, [([98], [112])])] := by
  simp only [rAC, rBX]; eval_spec

/-- ... and registering the non-matching "/{b}/d" in front changes the order of the names and thereby the
    first result: `route_irrelevant` needs coherence -/
example : specAll (sufsOf [rBD, rAC, rBX]) [47, 112, 47, 120] [] =
    [(rBX, [([98], [112])]), (rAC, [([97], [112]), ([99], [120])])] := by
  simp only [rBD, rAC, rBX]; eval_spec

/-- "{s}/p" as a hostname pattern -/
def rSP : Route := { hid := 10, pattern := [.param [115], .lit 47, .lit 112], hostToks := 1 }

/-- a Host header that contains '/' (never produced by a well-formed request): the hostname search only knows
    '.' as delimiter, so `{s}` captures "a/b". This is why the '/'-freeness of host parameter values is stated
    under the hypothesis `SLASH ∉ host` (`matchHP_caps`, `matchReq_iff_matchHP`). -/
example : specHost (sufsOf [rSP]) [97, 47, 98] [47, 112] [] = [(rSP, [([115], [97, 47, 98])])] := by
  simp only [rSP]; eval_spec

/-- "/{a}bc": a parameter extends to the end of its segment, so this pattern does not match "/xbc" -/
example : specAll (sufsOf [({ hid := 11, pattern := [.lit 47, .param [97], .lit 98, .lit 99] } : Route)])
    [47, 120, 98, 99] [] = [] := by eval_spec

/-- an infix catch-all does not capture across an empty segment: "/*{c}/x" does not match "/a//b/x" -/
example : specAll (sufsOf [rInf]) [47, 97, 47, 47, 98, 47, 120] [] = [] := by simp only [rInf]; eval_spec

end Ex

end Fox.C01Spec
