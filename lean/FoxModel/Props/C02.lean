import FoxModel.Lemmas.TreeInv
set_option linter.unusedSimpArgs false
set_option linter.unusedVariables false
/-
  C02 — registered routes behave as an exact map keyed by (method, pattern).
-/
namespace Fox.C02
open Fox Fox.Model Fox.Spec

/-- the empty tree satisfies the representation invariant -/
theorem wf_newTree : wfRoots newTree.roots = true := by decide

/-- the empty router's tree satisfies the full invariant `Good` -/
theorem good_newTree : Good newTree := by
  refine ⟨?_, by decide⟩
  intro x hx
  simp only [newTree, newRoots, commonVerbs, List.map_cons, List.map_nil, List.mem_cons, List.not_mem_nil,
    or_false] at hx
  rcases hx with rfl | rfl | rfl | rfl <;> exact rootOk_empty


theorem nodup_map_inj {α β} {f : α → β} : ∀ {l : List α}, (l.map f).Nodup → ∀ {a b}, a ∈ l → b ∈ l → f a = f b → a = b
  | [], _, _, _, ha, _, _ => by cases ha
  | x :: xs, hnd, a, b, ha, hb, e => by
    simp only [List.map_cons, List.nodup_cons] at hnd
    rcases List.mem_cons.mp ha with rfl | ha'
    · rcases List.mem_cons.mp hb with rfl | hb'
      · rfl
      · exact absurd (e ▸ List.mem_map_of_mem hb') hnd.1
    · rcases List.mem_cons.mp hb with rfl | hb'
      · exact absurd (e ▸ List.mem_map_of_mem ha') hnd.1
      · exact nodup_map_inj hnd.2 ha' hb' e

/-! ### the simulation relation -/

/-- invariant of the tree, invariant of the store, and the abstraction relation between them -/
structure Sim (t : Tree) (s : Store) : Prop where
  good : Good t
  store : StoreOk s
  abs : abs t s

theorem sim_new : Sim newTree [] := by
  refine ⟨good_newTree, by simp [StoreOk], ?_, rfl⟩
  intro m
  have : routesOf newTree m = [] := by
    unfold routesOf
    cases hm : methodRoot newTree.roots m with
    | none => rfl
    | some root =>
      have := methodRoot_some hm
      simp only [newTree, newRoots, commonVerbs, List.map_cons, List.map_nil, List.mem_cons, List.not_mem_nil,
        or_false, Prod.mk.injEq] at this
      rcases this with ⟨_, rfl⟩ | ⟨_, rfl⟩ | ⟨_, rfl⟩ | ⟨_, rfl⟩ <;> rfl
  rw [this]; simp [Store.routesOf]

section
variable {t : Tree} {s : Store} (h : Sim t s) (m : Bytes)
include h

theorem Sim.mem_iff (r' : Route) : r' ∈ s.routesOf m ↔ ∃ sr ∈ sufsOf t m, sr.2 = r' := by
  rw [← (h.abs.1 m).mem_iff, routesOf_eq, List.mem_map]

theorem Sim.get_none {pat : List Tok} (hno : ∀ sr ∈ sufsOf t m, sr.1 ≠ pat) : s.get m pat = none := by
  rw [store_get_eq, List.find?_eq_none]
  intro r' hr'
  obtain ⟨sr, hsr, rfl⟩ := (h.mem_iff m r').mp hr'
  have := (h.good.pats m sr hsr).1
  simp only [beq_iff_eq]
  rw [← this]; exact hno sr hsr

theorem Sim.get_some {pat : List Tok} {e : Route} (hmem : (pat, e) ∈ sufsOf t m) : s.get m pat = some e := by
  have hpat : e.pattern = pat := ((h.good.pats m _ hmem).1).symm
  have hin : e ∈ s.routesOf m := (h.mem_iff m e).mpr ⟨_, hmem, rfl⟩
  rw [store_get_eq]
  cases hf : (s.routesOf m).find? (fun r => r.pattern == pat) with
  | none =>
    rw [List.find?_eq_none] at hf
    exact absurd (by simpa using hpat) (hf e hin)
  | some e' =>
    have h1 := List.mem_of_find?_eq_some hf
    have h2 := List.find?_some hf
    simp only [beq_iff_eq] at h2
    have := nodup_map_inj (store_routesOf_patterns_nodup h.store m) h1 hin (h2.trans hpat.symm)
    rw [this]

theorem Sim.conflicts (pat : List Tok) : (s.conflicts m pat).Perm (conflictsIn (sufsOf t m) pat) := by
  rw [store_conflicts_eq, conflictsIn_eq_filter (h.good.pats m), ← routesOf_eq]
  exact ((h.abs.1 m).filter _).symm

end


theorem store_routesOf_append (s : Store) (m m' : Bytes) (r : Route) :
    Store.routesOf (s ++ [(m, r)]) m' = if m = m' then s.routesOf m' ++ [r] else s.routesOf m' := by
  simp only [Store.routesOf, List.filter_append, List.map_append, List.filter_cons, List.filter_nil]
  by_cases e : m = m'
  · simp [e]
  · have : (m == m') = false := beq_false_of_ne e
    simp [e, this]

/-- **Handle refines the map.** On a reachable tree related to a store, registering a route with a well-formed
    pattern succeeds exactly when the sequential map accepts it (then tree and store stay related, `Len` grows by
    one), fails with `ErrRouteExist` carrying the stored route exactly when the key (method, pattern) is present,
    and fails with `ErrRouteConflict` exactly when the key is absent and some registered route of the method
    declares a different wildcard of the same kind at the same position — the error then lists precisely those
    routes (as a multiset) and is never empty. -/
theorem handle_refines {t : Tree} {s : Store} {m : Bytes} {r : Route} (h : Sim t s) (hv : validPattern r = true) :
    match t.insert m r, s.handle m r with
    | .ok (t', _), (s', .ok r') => r' = r ∧ Sim t' s'
    | .error (.exist e), (s', .exist) => s' = s ∧ s.get m r.pattern = some e
    | .error (.conflict cs), (s', .conflict cs') => s' = s ∧ cs.Perm cs' ∧ cs ≠ []
    | _, _ => False := by
  have hs := insert_spec (m := m) h.good hv
  cases hi : t.insert m r with
  | error e =>
    rw [hi] at hs
    obtain ⟨⟨hconf, hmem⟩, hne⟩ := hs
    cases e with
    | exist x =>
      have hg := h.get_some m hmem
      simp only [Store.handle, hg]
      refine ⟨?_, ?_⟩ <;> first | trivial | rfl | exact hg
    | conflict cs =>
      have hg := h.get_none m hmem
      have hc := (h.conflicts m r.pattern).trans (by rw [hconf]; exact List.Perm.refl _ : (conflictsIn (sufsOf t m) r.pattern).Perm cs)
      have hcs := hne cs rfl
      simp only [Store.handle, hg]
      cases hcc : s.conflicts m r.pattern with
      | nil => rw [hcc] at hc; exact absurd hc.symm.eq_nil hcs
      | cons c cs' => rw [hcc] at hc; exact ⟨rfl, hc.symm, hcs⟩
  | ok y =>
    obtain ⟨t', cse⟩ := y
    rw [hi] at hs
    obtain ⟨hgood, hsize, hperm, hother, hconf, hmem⟩ := hs
    have hg := h.get_none m hmem
    have hc : s.conflicts m r.pattern = [] := by
      have := h.conflicts m r.pattern
      rw [hconf] at this; exact this.eq_nil
    simp only [Store.handle, hg, hc]
    refine ⟨trivial, hgood, ?_, ?_, ?_⟩
    · unfold StoreOk
      simp only [List.map_append, List.map_cons, List.map_nil]
      rw [List.nodup_append]
      refine ⟨h.store, by simp, ?_⟩
      intro a ha b hb
      simp only [List.mem_singleton] at hb; subst hb
      obtain ⟨e, he, rfl⟩ := List.mem_map.mp ha
      simp only [Store.get, Option.map_eq_none_iff, List.find?_eq_none] at hg
      have := hg e he
      intro heq
      simp only [Prod.mk.injEq] at heq
      simp [heq.1, heq.2] at this
    · intro m'
      rw [store_routesOf_append]
      by_cases e : m = m'
      · subst e
        simp only [if_true]
        rw [routesOf_eq]
        refine (hperm.map _).trans ?_
        simp only [List.map_cons]
        rw [← routesOf_eq]
        exact ((h.abs.1 m).cons r).trans (List.perm_append_singleton r _).symm
      · simp only [e, if_false]
        rw [routesOf_eq, hother m' (Ne.symm e), ← routesOf_eq]
        exact h.abs.1 m'
    · rw [hsize, h.abs.2]; simp


theorem store_routesOf_update (s : Store) (m m' : Bytes) (r : Route) :
    Store.routesOf (s.map fun e => if e.1 == m && e.2.pattern == r.pattern then (m, r) else e) m' =
      if m' = m then (s.routesOf m).map (fun r' => if r'.pattern == r.pattern then r else r') else s.routesOf m' := by
  induction s with
  | nil => simp [Store.routesOf]
  | cons e es ih =>
    by_cases h3 : m' = m
    · subst h3
      by_cases h1 : e.1 = m'
      · by_cases h2 : e.2.pattern = r.pattern <;>
          simp [Store.routesOf, List.filter_cons, h1, h2] at ih ⊢ <;> exact ih
      · simp [Store.routesOf, List.filter_cons, h1] at ih ⊢; exact ih
    · by_cases h1 : e.1 = m
      · have h4 : ¬ e.1 = m' := fun e' => h3 (e'.symm.trans h1)
        have h5 : ¬ m = m' := fun e' => h3 e'.symm
        by_cases h2 : e.2.pattern = r.pattern <;>
          simp [Store.routesOf, List.filter_cons, h1, h2, h3, h4, h5] at ih ⊢ <;> exact ih
      · by_cases h4 : e.1 = m' <;>
          simp [Store.routesOf, List.filter_cons, h1, h3, h4] at ih ⊢ <;> exact ih

theorem store_update_keys (s : Store) (m : Bytes) (r : Route) :
    (s.map fun e => if e.1 == m && e.2.pattern == r.pattern then (m, r) else e).map (fun e => (e.1, e.2.pattern)) =
      s.map (fun e => (e.1, e.2.pattern)) := by
  rw [List.map_map]
  apply List.map_congr_left
  intro e _
  simp only [Function.comp]
  split
  · rename_i hc
    simp only [Bool.and_eq_true, beq_iff_eq] at hc
    rw [hc.1, hc.2]
  · rfl

/-- **Update refines the map.** `Update` succeeds exactly when the key (method, pattern) is registered, and then
    replaces the stored route by the new one (tree and store stay related, `Len` unchanged); otherwise it reports
    `ErrRouteNotFound` and changes nothing. -/
theorem update_refines {t : Tree} {s : Store} {m : Bytes} {r : Route} (h : Sim t s) :
    match t.update m r, s.update m r with
    | some t', (s', .ok r') => r' = r ∧ Sim t' s'
    | none, (s', .notFound) => s' = s
    | _, _ => False := by
  have hs := update_spec (m := m) (r := r) h.good
  cases hu : t.update m r with
  | none =>
    rw [hu] at hs
    have hg := h.get_none m hs
    simp only [Store.update, hg]
  | some t' =>
    rw [hu] at hs
    obtain ⟨hgood, hsize, ⟨old, X, hp1, hp2⟩, hother⟩ := hs
    have hold : (r.pattern, old) ∈ sufsOf t m := hp1.mem_iff.mpr (by simp)
    have hg := h.get_some m hold
    have holdpat : old.pattern = r.pattern := ((h.good.pats m _ hold).1).symm
    simp only [Store.update, hg]
    refine ⟨trivial, hgood, ?_, ?_, ?_⟩
    · unfold StoreOk; rw [store_update_keys]; exact h.store
    · intro m'
      rw [store_routesOf_update]
      by_cases e : m' = m
      · subst e
        simp only [if_true]
        -- patterns are unique among the routes of the method
        have hnd : ((old :: X.map (·.2)).map (·.pattern)).Nodup := by
          have h1 : (s.routesOf m').Perm (old :: X.map (·.2)) := by
            refine (h.abs.1 m').symm.trans ?_
            rw [routesOf_eq]; simpa using hp1.map (·.2)
          exact (h1.map _).nodup_iff.mp (store_routesOf_patterns_nodup h.store m')
        have hX : (X.map (·.2)).map (fun r' => if r'.pattern == r.pattern then r else r') = X.map (·.2) := by
          conv => rhs; rw [← List.map_id (X.map (·.2))]
          apply List.map_congr_left
          intro x hx
          simp only [List.map_cons, List.nodup_cons] at hnd
          have : x.pattern ≠ r.pattern := by
            intro e; apply hnd.1; rw [holdpat, ← e]; exact List.mem_map_of_mem hx
          simp [this]
        rw [routesOf_eq]
        refine (hp2.map _).trans ?_
        simp only [List.map_cons]
        have h2 : ((s.routesOf m').map (fun r' => if r'.pattern == r.pattern then r else r')).Perm
            (r :: X.map (·.2)) := by
          have h1 : (s.routesOf m').Perm (old :: X.map (·.2)) := by
            refine (h.abs.1 m').symm.trans ?_
            rw [routesOf_eq]; simpa using hp1.map (·.2)
          refine (h1.map _).trans ?_
          simp only [List.map_cons, hX, holdpat, beq_self_eq_true, if_true]
          exact List.Perm.refl _
        exact h2.symm
      · simp only [e, if_false]
        rw [routesOf_eq, hother m' e, ← routesOf_eq]
        exact h.abs.1 m'
    · rw [hsize, h.abs.2]; simp


theorem store_delete_length {s : Store} {m : Bytes} {pat : List Tok} (hok : StoreOk s)
    (hfound : (s.find? fun e => e.1 == m && e.2.pattern == pat).isSome = true) :
    (s.filter fun e => !(e.1 == m && e.2.pattern == pat)).length + 1 = s.length := by
  induction s with
  | nil => simp at hfound
  | cons e es ih =>
    unfold StoreOk at hok
    simp only [List.map_cons, List.nodup_cons] at hok
    cases hk : (e.1 == m && e.2.pattern == pat)
    · simp only [List.find?_cons, hk] at hfound
      simp only [List.filter_cons, hk, Bool.not_false, if_true, List.length_cons]
      rw [ih hok.2 hfound]
    · simp only [List.filter_cons, hk, Bool.not_true, Bool.false_eq_true, if_false, List.length_cons]
      congr 1
      congr 1
      rw [List.filter_eq_self]
      intro x hx
      simp only [Bool.and_eq_true, beq_iff_eq] at hk
      simp only [Bool.not_eq_true', Bool.and_eq_false_iff, beq_eq_false_iff_ne]
      apply Decidable.or_iff_not_imp_left.mpr
      intro h1 h2
      simp only [ne_eq, Decidable.not_not] at h1
      apply hok.1
      rw [hk.1, hk.2, ← h1, ← h2]
      exact List.mem_map_of_mem (f := fun e => (e.1, e.2.pattern)) hx

theorem store_routesOf_delete (s : Store) (m m' : Bytes) (pat : List Tok) :
    Store.routesOf (s.filter fun e => !(e.1 == m && e.2.pattern == pat)) m' =
      if m' = m then (s.routesOf m).filter (fun r' => !(r'.pattern == pat)) else s.routesOf m' := by
  induction s with
  | nil => simp [Store.routesOf]
  | cons e es ih =>
    by_cases h3 : m' = m
    · subst h3
      by_cases h1 : e.1 = m'
      · by_cases h2 : e.2.pattern = pat <;>
          simp [Store.routesOf, List.filter_cons, h1, h2] at ih ⊢ <;> exact ih
      · simp [Store.routesOf, List.filter_cons, h1] at ih ⊢; exact ih
    · by_cases h1 : e.1 = m
      · have h4 : ¬ e.1 = m' := fun e' => h3 (e'.symm.trans h1)
        have h5 : ¬ m = m' := fun e' => h3 e'.symm
        by_cases h2 : e.2.pattern = pat <;>
          simp [Store.routesOf, List.filter_cons, h1, h2, h3, h4, h5] at ih ⊢ <;> exact ih
      · by_cases h4 : e.1 = m' <;>
          simp [Store.routesOf, List.filter_cons, h1, h3, h4] at ih ⊢ <;> exact ih

/-- **Delete refines the map.** `Delete` succeeds exactly when the key (method, pattern) is registered; it then
    returns the stored route, removes exactly that entry (tree and store stay related, `Len` shrinks by one);
    otherwise it reports `ErrRouteNotFound` and changes nothing. -/
theorem delete_refines {t : Tree} {s : Store} {m : Bytes} {pat : List Tok} (h : Sim t s) :
    match t.remove m pat, s.delete m pat with
    | some (t', old, _), (s', .ok old') => old' = old ∧ Sim t' s'
    | none, (s', .notFound) => s' = s
    | _, _ => False := by
  have hs := remove_spec (m := m) (toks := pat) h.good
  cases hr : t.remove m pat with
  | none =>
    rw [hr] at hs
    have hg := h.get_none m hs
    simp only [Store.delete, hg]
  | some y =>
    obtain ⟨t', old, cse⟩ := y
    rw [hr] at hs
    obtain ⟨hgood, hsize, hp, hother⟩ := hs
    have hold : (pat, old) ∈ sufsOf t m := hp.mem_iff.mpr (by simp)
    have hg := h.get_some m hold
    have holdpat : old.pattern = pat := ((h.good.pats m _ hold).1).symm
    simp only [Store.delete, hg]
    refine ⟨trivial, hgood, ?_, ?_, ?_⟩
    · exact h.store.sublist (List.Sublist.map _ List.filter_sublist)
    · intro m'
      rw [store_routesOf_delete]
      by_cases e : m' = m
      · subst e
        simp only [if_true]
        have h1 : (s.routesOf m').Perm (old :: routesOf t' m') := by
          refine (h.abs.1 m').symm.trans ?_
          rw [routesOf_eq, routesOf_eq]; simpa using hp.map (·.2)
        have hnd : ((old :: routesOf t' m').map (·.pattern)).Nodup :=
          (h1.map _).nodup_iff.mp (store_routesOf_patterns_nodup h.store m')
        simp only [List.map_cons, List.nodup_cons] at hnd
        refine List.Perm.symm ((h1.filter _).trans ?_)
        simp only [List.filter_cons, holdpat, beq_self_eq_true, Bool.not_true, Bool.false_eq_true, if_false]
        rw [List.filter_eq_self.mpr]
        intro x hx
        have : x.pattern ≠ pat := by
          intro e; apply hnd.1; rw [holdpat, ← e]; exact List.mem_map_of_mem hx
        simp [this]
      · simp only [e, if_false]
        rw [routesOf_eq, hother m' e, ← routesOf_eq]
        exact h.abs.1 m'
    · have hf : (s.find? fun e => e.1 == m && e.2.pattern == pat).isSome = true := by
        simp only [Store.get, Option.map_eq_some_iff] at hg
        obtain ⟨x, hx, _⟩ := hg
        rw [hx]; rfl
      have := store_delete_length h.store hf
      rw [hsize, h.abs.2]; omega

end Fox.C02

namespace Fox.C02
open Fox Fox.Model Fox.Spec

theorem Good.congr {t t' : Tree} (e : t'.roots = t.roots) (h : Good t) : Good t' :=
  ⟨fun x hx => h.roots x (e ▸ hx), e ▸ h.nodup⟩

theorem routesOf_congr {t t' : Tree} (e : t'.roots = t.roots) (m : Bytes) : routesOf t' m = routesOf t m := by
  simp only [routesOf, e]

theorem routesOf_newRoots (sz mp dp : Nat) (m : Bytes) : routesOf ⟨newRoots, sz, mp, dp⟩ m = [] := by
  unfold routesOf
  cases hm : methodRoot newRoots m with
  | none => rfl
  | some root =>
    have := methodRoot_some hm
    simp only [newRoots, commonVerbs, List.map_cons, List.map_nil, List.mem_cons, List.not_mem_nil,
      or_false, Prod.mk.injEq] at this
    rcases this with ⟨_, rfl⟩ | ⟨_, rfl⟩ | ⟨_, rfl⟩ | ⟨_, rfl⟩ <;> rfl

theorem truncateOne_refines {rs : Roots} {sz mp dp : Nat} {s : Store} (m : Bytes) (h : Sim ⟨rs, sz, mp, dp⟩ s) :
    Sim ⟨(truncateOne (rs, sz) m).1, (truncateOne (rs, sz) m).2, mp, dp⟩ (s.filter fun e => e.1 != m) := by
  have hstore : StoreOk (s.filter fun e => e.1 != m) := h.store.sublist (List.Sublist.map _ List.filter_sublist)
  have hlen : (s.filter fun e => e.1 != m).length = s.length - (s.routesOf m).length := by
    have := filter_length_split (fun e : Bytes × Route => e.1 == m) s
    simp only [Store.routesOf, List.length_map]
    have e : (fun e : Bytes × Route => e.1 != m) = (fun e => !(e.1 == m)) := rfl
    rw [e]; omega
  unfold truncateOne
  simp only []
  cases hm : methodRoot rs m with
  | none =>
    simp only []
    have hnil : s.routesOf m = [] := by
      have := h.abs.1 m
      simp only [routesOf, hm] at this
      exact this.symm.eq_nil
    have : (s.filter fun e => e.1 != m) = s := by
      rw [List.filter_eq_self]
      intro e he
      cases hem : e.1 == m
      · simp [bne, hem]
      · exfalso
        have : e.2 ∈ s.routesOf m := by
          simp only [Store.routesOf, List.mem_map, List.mem_filter]
          exact ⟨e, ⟨he, hem⟩, rfl⟩
        rw [hnil] at this; cases this
    rw [this]; exact h
  | some root =>
    simp only []
    have hcnt : (routesNode root).length = (s.routesOf m).length := by
      have := (h.abs.1 m).length_eq
      simpa [routesOf, hm] using this
    cases hrm : isRemovable m with
    | true =>
      simp only [if_true]
      refine ⟨⟨fun x hx => h.good.roots x (List.mem_filter.mp hx).1,
        h.good.nodup.sublist (List.Sublist.map _ List.filter_sublist)⟩, hstore, ?_, ?_⟩
      · intro m'
        by_cases e : m' = m
        · subst e
          simp only [routesOf, methodRoot_filter_same, store_routesOf_filter_ne_same]
          exact List.Perm.refl _
        · simp only [routesOf, methodRoot_filter_other _ e, store_routesOf_filter_ne_other _ e]
          exact h.abs.1 m'
      · have := h.abs.2; simp only [hlen, hcnt] at this ⊢; omega
    | false =>
      simp only [Bool.false_eq_true, if_false]
      refine ⟨good_setRoot h.good m rootOk_empty _ _ _, hstore, ?_, ?_⟩
      · intro m'
        by_cases e : m' = m
        · subst e
          simp only [routesOf, methodRoot_setRoot_same hm, store_routesOf_filter_ne_same]
          exact List.Perm.refl _
        · simp only [routesOf, methodRoot_setRoot_other e, store_routesOf_filter_ne_other _ e]
          exact h.abs.1 m'
      · have := h.abs.2; simp only [hlen, hcnt] at this ⊢; omega

theorem truncate_fold {mp dp : Nat} (ms : List Bytes) : ∀ (rs : Roots) (sz : Nat) (s : Store),
    Sim ⟨rs, sz, mp, dp⟩ s →
    Sim ⟨(ms.foldl truncateOne (rs, sz)).1, (ms.foldl truncateOne (rs, sz)).2, mp, dp⟩
      (ms.foldl (fun s m => s.filter fun e => e.1 != m) s) := by
  induction ms with
  | nil => intro rs sz s h; exact h
  | cons m ms ih =>
    intro rs sz s h
    simp only [List.foldl_cons]
    exact ih _ _ _ (truncateOne_refines m h)

theorem store_fold_filter (ms : List Bytes) : ∀ s : Store,
    ms.foldl (fun s m => s.filter fun e => e.1 != m) s = s.filter fun e => !ms.contains e.1 := by
  induction ms with
  | nil => intro s; simp only [List.foldl_nil, List.contains_nil, Bool.not_false]; exact (List.filter_eq_self.mpr (fun _ _ => rfl)).symm
  | cons m ms ih =>
    intro s
    simp only [List.foldl_cons, ih, List.filter_filter]
    apply List.filter_congr
    intro e _
    simp only [List.contains_cons, Bool.not_or, bne]
    rw [Bool.and_comm]

/-- **Truncate refines the map.** Truncating some methods (or all of them, for the empty list) removes exactly
    the routes of those methods, and `Len` is the number of remaining routes. -/
theorem truncate_refines {t : Tree} {s : Store} (ms : List Bytes) (h : Sim t s) :
    Sim (t.truncate ms) (s.truncate ms) := by
  obtain ⟨rs, sz, mp, dp⟩ := t
  unfold Tree.truncate Store.truncate
  cases hms : ms.isEmpty with
  | true =>
    simp only [if_true]
    refine ⟨Good.congr (t := newTree) rfl good_newTree, by simp [StoreOk], ?_, rfl⟩
    intro m
    rw [routesOf_newRoots]; simp [Store.routesOf]
  | false =>
    simp only [Bool.false_eq_true, if_false]
    have := truncate_fold (mp := mp) (dp := dp) ms rs sz s h
    rw [store_fold_filter] at this
    exact this

end Fox.C02

namespace Fox.C02
open Fox Fox.Model Fox.Spec

/-! ### preservation of the representation invariant `wfRoots` alone -/

theorem wfRoots_iff (rs : Roots) : wfRoots rs = true ↔ (∀ x ∈ rs, wfRoot x.2 = true) ∧ (rs.map (·.1)).Nodup := by
  simp only [Model.wfRoots, Bool.and_eq_true, List.all_eq_true, nodupB_iff]

theorem wfRoots_setRoot {rs : Roots} (h : wfRoots rs = true) (m : Bytes) {n : Node} (hn : wfRoot n = true) :
    wfRoots (setRoot rs m n) = true := by
  rw [wfRoots_iff] at h ⊢
  refine ⟨?_, by rw [setRoot_names]; exact h.2⟩
  intro x hx
  rcases mem_setRoot hx with h1 | rfl
  · exact h.1 x h1
  · exact hn

theorem wfRoots_filter {rs : Roots} (h : wfRoots rs = true) (p : Bytes × Node → Bool) :
    wfRoots (rs.filter p) = true := by
  rw [wfRoots_iff] at h ⊢
  exact ⟨fun x hx => h.1 x (List.mem_filter.mp hx).1, h.2.sublist (List.Sublist.map _ List.filter_sublist)⟩

/-- `insert` preserves the representation invariant (for a well-formed pattern) -/
theorem wf_insert {t t' : Tree} {m : Bytes} {r : Route} {c : InsCase} (hwf : wfRoots t.roots = true)
    (hv : validPattern r = true) (h : t.insert m r = .ok (t', c)) : wfRoots t'.roots = true := by
  have hne := validPattern_ne_nil hv
  have hok := ((validPattern_iff r).mp hv).1
  have hho := validPattern_hostOk hv
  unfold Tree.insert at h
  simp only [] at h
  cases hm : methodRoot t.roots m with
  | some root =>
    simp only [hm] at h
    cases hi : insertNode root true 0 0 r.pattern r with
    | error e => rw [hi] at h; simp at h
    | ok res =>
      rw [hi] at h
      simp only [Except.ok.injEq, Prod.mk.injEq] at h
      obtain ⟨rfl, _⟩ := h
      have hroot := ((wfRoots_iff _).mp hwf).1 _ (methodRoot_some hm)
      exact wfRoots_setRoot hwf m (wf_insertRoot r root r.pattern res hroot hne hok hho hi)
  | none =>
    have hm2 : methodRoot (t.roots ++ [(m, emptyNode)]) m = some emptyNode := methodRoot_append_same _ hm
    simp only [hm, hm2] at h
    cases hi : insertNode emptyNode true 0 0 r.pattern r with
    | error e => rw [hi] at h; simp at h
    | ok res =>
      rw [hi] at h
      simp only [Except.ok.injEq, Prod.mk.injEq] at h
      obtain ⟨rfl, _⟩ := h
      have hwf2 : wfRoots (t.roots ++ [(m, emptyNode)]) = true := by
        rw [wfRoots_iff] at hwf ⊢
        refine ⟨?_, ?_⟩
        · intro x hx
          rcases List.mem_append.mp hx with h1 | h1
          · exact hwf.1 x h1
          · simp only [List.mem_singleton] at h1; subst h1; exact (by decide : wfRoot emptyNode = true)
        · simp only [List.map_append, List.map_cons, List.map_nil]
          rw [List.nodup_append]
          refine ⟨hwf.2, by simp, ?_⟩
          intro a ha b hb
          simp only [List.mem_singleton] at hb; subst hb
          obtain ⟨x, hx, rfl⟩ := List.mem_map.mp ha
          exact methodRoot_none hm x hx
      exact wfRoots_setRoot hwf2 m (wf_insertRoot r emptyNode r.pattern res (by decide) hne hok hho hi)

/-- `update` preserves the representation invariant -/
theorem wf_update {t t' : Tree} {m : Bytes} {r : Route} (hwf : wfRoots t.roots = true)
    (h : t.update m r = some t') : wfRoots t'.roots = true := by
  unfold Tree.update at h
  cases hm : methodRoot t.roots m with
  | none => simp [hm] at h
  | some root =>
    simp only [hm] at h
    cases hu : updateNode root r.pattern r with
    | none => simp [hu] at h
    | some root' =>
      simp only [hu, Option.some.injEq] at h
      subst h
      have hroot := ((wfRoots_iff _).mp hwf).1 _ (methodRoot_some hm)
      exact wfRoots_setRoot hwf m (wf_updateRoot hroot hu)

/-- `remove` preserves the representation invariant -/
theorem wf_remove {t t' : Tree} {m : Bytes} {toks : List Tok} {old : Route} {c : RemCase}
    (hwf : wfRoots t.roots = true) (h : t.remove m toks = some (t', old, c)) : wfRoots t'.roots = true := by
  unfold Tree.remove at h
  cases hm : methodRoot t.roots m with
  | none => simp [hm] at h
  | some root =>
    simp only [hm] at h
    cases hr : removeNode root true toks with
    | none => simp [hr] at h
    | some y =>
      obtain ⟨res, old', cse⟩ := y
      simp only [hr, Option.some.injEq, Prod.mk.injEq] at h
      obtain ⟨rfl, _, _⟩ := h
      have hroot := ((wfRoots_iff _).mp hwf).1 _ (methodRoot_some hm)
      cases res with
      | replaced n =>
        have hn : wfRoot n = true := by
          have := (wf_removeNode root true toks _ old' cse (by simpa [wfN] using hroot) hr n rfl).1
          simpa [wfN] using this
        simp only []
        split
        · exact wfRoots_filter hwf _
        · exact wfRoots_setRoot hwf m hn
      | vanished =>
        simp only []
        split
        · exact wfRoots_filter hwf _
        · exact wfRoots_setRoot hwf m hroot
      | vanishedHost =>
        simp only []
        split
        · exact wfRoots_filter hwf _
        · exact wfRoots_setRoot hwf m hroot

theorem wf_truncateOne {rs : Roots} (sz : Nat) (m : Bytes) (hwf : wfRoots rs = true) :
    wfRoots (truncateOne (rs, sz) m).1 = true := by
  unfold truncateOne
  simp only []
  cases methodRoot rs m with
  | none => exact hwf
  | some root =>
    simp only []
    split
    · exact wfRoots_filter hwf _
    · exact wfRoots_setRoot hwf m (by decide)

/-- `truncate` preserves the representation invariant -/
theorem wf_truncate {t : Tree} (ms : List Bytes) (hwf : wfRoots t.roots = true) :
    wfRoots (t.truncate ms).roots = true := by
  unfold Tree.truncate
  split
  · exact (by decide : wfRoots newRoots = true)
  · simp only []
    have : ∀ (ms : List Bytes) (rs : Roots) (sz : Nat), wfRoots rs = true →
        wfRoots (ms.foldl truncateOne (rs, sz)).1 = true := by
      intro ms
      induction ms with
      | nil => intro rs sz h; exact h
      | cons m ms ih => intro rs sz h; exact ih _ _ (wf_truncateOne sz m h)
    exact this ms t.roots t.size hwf

/-! ### preservation of the full invariant `Good` (representation + hostname shape + pattern consistency) -/

/-- a successful `Handle` with a well-formed pattern keeps the full invariant -/
theorem good_insert {t t' : Tree} {m : Bytes} {r : Route} {c : InsCase} (hg : Good t)
    (hv : validPattern r = true) (h : t.insert m r = .ok (t', c)) : Good t' := by
  have := insert_spec (m := m) hg hv
  rw [h] at this; exact this.1

/-- a successful `Update` keeps the full invariant -/
theorem good_update {t t' : Tree} {m : Bytes} {r : Route} (hg : Good t) (h : t.update m r = some t') : Good t' := by
  have := update_spec (m := m) (r := r) hg
  rw [h] at this; exact this.1

/-- a successful `Delete` keeps the full invariant (no merge case leaves a dead branch or a misplaced '/') -/
theorem good_remove {t t' : Tree} {m : Bytes} {toks : List Tok} {old : Route} {c : RemCase} (hg : Good t)
    (h : t.remove m toks = some (t', old, c)) : Good t' := by
  have := remove_spec (m := m) (toks := toks) hg
  rw [h] at this; exact this.1

theorem good_truncateOne {rs : Roots} {sz mp dp : Nat} (m : Bytes) (hg : Good ⟨rs, sz, mp, dp⟩) :
    Good ⟨(truncateOne (rs, sz) m).1, (truncateOne (rs, sz) m).2, mp, dp⟩ := by
  unfold truncateOne
  simp only []
  cases methodRoot rs m with
  | none => exact hg
  | some root =>
    simp only []
    split
    · exact ⟨fun x hx => hg.roots x (List.mem_filter.mp hx).1,
        hg.nodup.sublist (List.Sublist.map _ List.filter_sublist)⟩
    · exact good_setRoot hg m rootOk_empty _ _ _

/-- `Truncate` keeps the full invariant -/
theorem good_truncate {t : Tree} (ms : List Bytes) (hg : Good t) : Good (t.truncate ms) := by
  obtain ⟨rs, sz, mp, dp⟩ := t
  unfold Tree.truncate
  split
  · exact Good.congr (t := newTree) rfl good_newTree
  · simp only []
    have : ∀ (ms : List Bytes) (rs : Roots) (sz : Nat), Good ⟨rs, sz, mp, dp⟩ →
        Good ⟨(ms.foldl truncateOne (rs, sz)).1, (ms.foldl truncateOne (rs, sz)).2, mp, dp⟩ := by
      intro ms
      induction ms with
      | nil => intro rs sz h; exact h
      | cons m ms ih => intro rs sz h; exact ih _ _ (good_truncateOne m h)
    exact this ms rs sz hg

/-- the hostname invariant of `Model/WF.lean` holds on the empty tree … -/
theorem hostOk_newTree : hostOkRoots newTree.roots = true := by decide

/-- … and on every tree obtained by `insert` from a tree satisfying `Good` -/
theorem hostOk_insert {t t' : Tree} {m : Bytes} {r : Route} {c : InsCase} (hg : Good t)
    (hv : validPattern r = true) (h : t.insert m r = .ok (t', c)) : hostOkRoots t'.roots = true :=
  (good_insert hg hv h).hostOkRoots

/-- the hostname invariant holds after `Update` on a tree satisfying `Good` -/
theorem hostOk_update {t t' : Tree} {m : Bytes} {r : Route} (hg : Good t) (h : t.update m r = some t') :
    hostOkRoots t'.roots = true := (good_update hg h).hostOkRoots

/-- the hostname invariant holds after `Delete` on a tree satisfying `Good` (`hostOkRoots` alone is not inductive
    for `remove`: merging a hostname node into its parent needs to know that routes only sit in the path part) -/
theorem hostOk_remove {t t' : Tree} {m : Bytes} {toks : List Tok} {old : Route} {c : RemCase} (hg : Good t)
    (h : t.remove m toks = some (t', old, c)) : hostOkRoots t'.roots = true := (good_remove hg h).hostOkRoots

/-- the hostname invariant holds after `Truncate` on a tree satisfying `Good` -/
theorem hostOk_truncate {t : Tree} (ms : List Bytes) (hg : Good t) : hostOkRoots (t.truncate ms).roots = true :=
  (good_truncate ms hg).hostOkRoots

end Fox.C02

namespace Fox.C02
open Fox Fox.Model Fox.Spec

/-! ### histories of operations -/

/-- a mutating call on the router -/
inductive Op where
  | handle (m : Bytes) (r : Route)
  | update (m : Bytes) (r : Route)
  | delete (m : Bytes) (pat : List Tok)
  | truncate (ms : List Bytes)

/-- only `Handle` needs a hypothesis: the pattern it registers is well formed (what `parseRoute` accepts) -/
def Op.valid : Op → Bool
  | .handle _ r => validPattern r
  | _ => true

/-- one call on the radix tree; a failed call returns the tree it was given -/
def stepModel (t : Tree) : Op → Tree × Option Outcome
  | .handle m r =>
    match t.insert m r with
    | .ok (t', _) => (t', some (.ok r))
    | .error (.exist _) => (t, some .exist)
    | .error (.conflict cs) => (t, some (.conflict cs))
  | .update m r =>
    match t.update m r with
    | some t' => (t', some (.ok r))
    | none => (t, some .notFound)
  | .delete m pat =>
    match t.remove m pat with
    | some (t', old, _) => (t', some (.ok old))
    | none => (t, some .notFound)
  | .truncate ms => (t.truncate ms, none)

/-- the same call on the sequential map -/
def stepSpec (s : Store) : Op → Store × Option Outcome
  | .handle m r => ((s.handle m r).1, some (s.handle m r).2)
  | .update m r => ((s.update m r).1, some (s.update m r).2)
  | .delete m pat => ((s.delete m pat).1, some (s.delete m pat).2)
  | .truncate ms => (s.truncate ms, none)

/-- outcomes agree; the routes named by a conflict error are compared as a multiset -/
def sameOutcome : Option Outcome → Option Outcome → Prop
  | none, none => True
  | some (.ok a), some (.ok b) => a = b
  | some .exist, some .exist => True
  | some .notFound, some .notFound => True
  | some (.conflict a), some (.conflict b) => a.Perm b ∧ a ≠ []
  | _, _ => False

/-- outcome lists agree position by position -/
def sameOutcomes : List (Option Outcome) → List (Option Outcome) → Prop
  | [], [] => True
  | a :: as, b :: bs => sameOutcome a b ∧ sameOutcomes as bs
  | _, _ => False

def isError : Option Outcome → Bool
  | some (.ok _) => false
  | none => false
  | _ => true

def runModel (t : Tree) : List Op → Tree × List (Option Outcome)
  | [] => (t, [])
  | op :: ops => ((runModel (stepModel t op).1 ops).1, (stepModel t op).2 :: (runModel (stepModel t op).1 ops).2)

def runSpec (s : Store) : List Op → Store × List (Option Outcome)
  | [] => (s, [])
  | op :: ops => ((runSpec (stepSpec s op).1 ops).1, (stepSpec s op).2 :: (runSpec (stepSpec s op).1 ops).2)

/-- one step of the simulation -/
theorem step_refines {t : Tree} {s : Store} (op : Op) (h : Sim t s) (hv : op.valid = true) :
    Sim (stepModel t op).1 (stepSpec s op).1 ∧ sameOutcome (stepModel t op).2 (stepSpec s op).2 := by
  cases op with
  | handle m r =>
    have := handle_refines (m := m) h hv
    simp only [stepModel, stepSpec]
    cases hi : t.insert m r with
    | ok y =>
      obtain ⟨t', c⟩ := y
      rw [hi] at this
      cases hh : s.handle m r with
      | mk s' o =>
        rw [hh] at this
        cases o <;> simp only [sameOutcome] at this ⊢
        exact ⟨this.2, this.1.symm⟩
    | error e =>
      rw [hi] at this
      cases hh : s.handle m r with
      | mk s' o =>
        rw [hh] at this
        cases e <;> cases o <;> simp only [sameOutcome] at this ⊢
        · exact ⟨this.1 ▸ h, trivial⟩
        · exact ⟨this.1 ▸ h, this.2⟩
  | update m r =>
    have := update_refines (m := m) (r := r) h
    simp only [stepModel, stepSpec]
    cases hu : t.update m r with
    | some t' =>
      rw [hu] at this
      cases hh : s.update m r with
      | mk s' o =>
        rw [hh] at this
        cases o <;> simp only [sameOutcome] at this ⊢
        exact ⟨this.2, this.1.symm⟩
    | none =>
      rw [hu] at this
      cases hh : s.update m r with
      | mk s' o =>
        rw [hh] at this
        cases o <;> simp only [sameOutcome] at this ⊢
        exact ⟨this ▸ h, trivial⟩
  | delete m pat =>
    have := delete_refines (m := m) (pat := pat) h
    simp only [stepModel, stepSpec]
    cases hr : t.remove m pat with
    | some y =>
      obtain ⟨t', old, c⟩ := y
      rw [hr] at this
      cases hh : s.delete m pat with
      | mk s' o =>
        rw [hh] at this
        cases o <;> simp only [sameOutcome] at this ⊢
        exact ⟨this.2, this.1.symm⟩
    | none =>
      rw [hr] at this
      cases hh : s.delete m pat with
      | mk s' o =>
        rw [hh] at this
        cases o <;> simp only [sameOutcome] at this ⊢
        exact ⟨this ▸ h, trivial⟩
  | truncate ms =>
    simp only [stepModel, stepSpec, sameOutcome, and_true]
    exact truncate_refines ms h

/-- **C02, refinement.** Starting from related states (in particular from the empty router), every finite
    history of `Handle` (with parseable patterns), `Update`, `Delete` and `Truncate` calls produces on the radix
    tree the same outcomes as on a sequential map keyed by (method, pattern) — success, `ErrRouteExist`,
    `ErrRouteNotFound`, `ErrRouteConflict` with the same non-empty multiset of routes — and leaves the tree
    related to the map: same routes per method, `Len` = number of entries, tree invariants intact. -/
theorem run_refines : ∀ (ops : List Op) {t : Tree} {s : Store}, Sim t s → (∀ op ∈ ops, op.valid = true) →
    Sim (runModel t ops).1 (runSpec s ops).1 ∧
      sameOutcomes (runModel t ops).2 (runSpec s ops).2
  | [], _, _, h, _ => ⟨h, trivial⟩
  | op :: ops, t, s, h, hv => by
    obtain ⟨h1, h2⟩ := step_refines op h (hv op (by simp))
    obtain ⟨h3, h4⟩ := run_refines ops h1 (fun o ho => hv o (by simp [ho]))
    exact ⟨h3, h2, h4⟩

/-- **C02, refinement, from the empty router** (`run_refines` with `newTree` and the empty map). -/
theorem C02_refines (ops : List Op) (hv : ∀ op ∈ ops, op.valid = true) :
    Sim (runModel newTree ops).1 (runSpec [] ops).1 ∧
      sameOutcomes (runModel newTree ops).2 (runSpec [] ops).2 :=
  run_refines ops sim_new hv

/-- **`Len`.** After any history the route counter of the tree equals the number of entries of the map. -/
theorem C02_len (ops : List Op) (hv : ∀ op ∈ ops, op.valid = true) :
    (runModel newTree ops).1.size = (runSpec [] ops).1.length :=
  (C02_refines ops hv).1.abs.2

/-- **Registered routes.** After any history, for every method the tree holds exactly the routes of the map
    (as a multiset; the tree iterates them in key order, the map in registration order). -/
theorem C02_routes (ops : List Op) (hv : ∀ op ∈ ops, op.valid = true) (m : Bytes) :
    (routesOf (runModel newTree ops).1 m).Perm ((runSpec [] ops).1.routesOf m) :=
  (C02_refines ops hv).1.abs.1 m

/-- **Invariants of reachable trees.** Every tree reachable from the empty router satisfies the representation
    invariant `wfRoots` and the hostname invariant `hostOkRoots` (the hypotheses of the lookup refinement, C01). -/
theorem C02_reachable_wf (ops : List Op) (hv : ∀ op ∈ ops, op.valid = true) :
    wfRoots (runModel newTree ops).1.roots = true ∧ hostOkRoots (runModel newTree ops).1.roots = true :=
  ⟨(C02_refines ops hv).1.good.wfRoots, (C02_refines ops hv).1.good.hostOkRoots⟩

/-- **A failed call changes nothing**: neither the tree nor the map. -/
theorem C02_failed_noop {t : Tree} {s : Store} (op : Op) (h : Sim t s) (hv : op.valid = true)
    (herr : isError (stepSpec s op).2 = true) : (stepSpec s op).1 = s ∧ (stepModel t op).1 = t := by
  obtain ⟨_, hsame⟩ := step_refines op h hv
  cases op with
  | handle m r =>
    simp only [stepModel, stepSpec] at hsame herr ⊢
    constructor
    · unfold Store.handle at herr ⊢
      cases hg : s.get m r.pattern with
      | some e => rfl
      | none =>
        simp only [hg] at herr ⊢
        cases hc : s.conflicts m r.pattern with
        | nil => simp [hc, isError] at herr
        | cons c cs => rfl
    · cases hi : t.insert m r with
      | ok y =>
        obtain ⟨t', c⟩ := y
        rw [hi] at hsame
        cases hh : (s.handle m r).2 <;> rw [hh] at hsame herr <;> simp [sameOutcome, isError] at hsame herr
      | error e => cases e <;> rfl
  | update m r =>
    simp only [stepModel, stepSpec] at hsame herr ⊢
    constructor
    · unfold Store.update at herr ⊢
      cases hg : s.get m r.pattern with
      | some e => simp [hg, isError] at herr
      | none => rfl
    · cases hu : t.update m r with
      | some t' =>
        rw [hu] at hsame
        cases hh : (s.update m r).2 <;> rw [hh] at hsame herr <;> simp [sameOutcome, isError] at hsame herr
      | none => rfl
  | delete m pat =>
    simp only [stepModel, stepSpec] at hsame herr ⊢
    constructor
    · unfold Store.delete at herr ⊢
      cases hg : s.get m pat with
      | some e => simp [hg, isError] at herr
      | none => rfl
    · cases hr : t.remove m pat with
      | some y =>
        obtain ⟨t', old, c⟩ := y
        rw [hr] at hsame
        cases hh : (s.delete m pat).2 <;> rw [hh] at hsame herr <;> simp [sameOutcome, isError] at hsame herr
      | none => rfl
  | truncate ms => simp [stepSpec, isError] at herr

end Fox.C02

namespace Fox.C02
open Fox Fox.Model Fox.Spec

/-! ### the exact-pattern lookup (`Has` / `Route`) -/

theorem render_append (a b : List Tok) : render (a ++ b) = render a ++ render b := by
  simp [render]

theorem render_cons_ne_nil (t : Tok) (ts : List Tok) : render (t :: ts) ≠ [] := by
  cases t <;> simp [render, Tok.render]

theorem head_render (t : Tok) (ts : List Tok) : (render (t :: ts)).head? = some (firstByte (t :: ts)) := by
  cases t <;> simp [render, Tok.render, firstByte]

theorem searchKids_pick (t : Tok) (ts : List Tok) : ∀ cs : List Node,
    searchKids cs (render (t :: ts)) =
      (match pickKid (t :: ts) cs with
       | none => none
       | some (_, c, _) => searchNode c (render (t :: ts)))
  | [] => by simp [searchKids, pickKid]
  | c :: cs => by
    unfold searchKids
    simp only [pickKid, head_render, Option.some.injEq]
    split
    · rfl
    · rw [searchKids_pick t ts cs]
      cases pickKid (t :: ts) cs with
      | none => rfl
      | some x => rfl

/-- a registered suffix is found by the byte-wise search, in the node that carries its route -/
theorem found_searchNode (n : Node) : ∀ (toks : List Tok) (x : Route), wfNode n = true → keyOk toks = true →
    (toks, x) ∈ sufsNode n → ∃ n', searchNode n (render toks) = some n' ∧ n'.route = some x := by
  induction n using Node.ind with
  | h key route cs ih =>
    intro toks x hwf hok hm
    rw [wfNode_iff] at hwf
    obtain ⟨hkne, hkok, hnd, hcatch, hkids⟩ := hwf
    rw [sufsNode_own] at hm
    rcases List.mem_append.mp hm with hm | hm
    · cases route with
      | none => simp [own] at hm
      | some old =>
        simp only [own, List.mem_singleton, Prod.mk.injEq] at hm
        obtain ⟨rfl, rfl⟩ := hm
        refine ⟨.mk toks (some x) cs, ?_, rfl⟩
        unfold searchNode
        simp
    · obtain ⟨sr, hsr, he⟩ := List.mem_map.mp hm
      obtain ⟨s, x'⟩ := sr
      simp only [pre, Prod.mk.injEq] at he
      obtain ⟨rfl, rfl⟩ := he
      have hsne : s ≠ [] := sufsKids_ne_nil hkids _ hsr
      have hoks : keyOk s = true := keyOk_append_right key s hok
      obtain ⟨pre, c, post, hp, hmc⟩ := pick_of_mem hkids hnd hoks hsr
      cases s with
      | nil => exact absurd rfl hsne
      | cons t ts =>
        obtain ⟨rfl, _, _⟩ := pick_some hp
        obtain ⟨n', h1, h2⟩ := ih c (by simp) (t :: ts) x' (wfKids_mem hkids (by simp)) hoks hmc
        refine ⟨n', ?_, h2⟩
        unfold searchNode
        have hlen : ¬ (render (key ++ t :: ts)).length ≤ (render key).length := by
          rw [render_append, List.length_append]
          have : (render (t :: ts)).length ≠ 0 := fun e => render_cons_ne_nil t ts (List.length_eq_zero_iff.mp e)
          omega
        simp only [hlen, if_false]
        rw [render_append, List.take_left', List.drop_left']
        · simp only [if_true, searchKids_pick, hp]; exact h1
        · rfl
        · rfl

theorem found_searchRoot {root : Node} {toks : List Tok} {x : Route} (hwf : wfRoot root = true)
    (hok : keyOk toks = true) (hm : (toks, x) ∈ sufsNode root) :
    ∃ n', searchRoot root (render toks) = some n' ∧ n'.route = some x := by
  obtain ⟨key, route, cs⟩ := root
  obtain ⟨rfl, rfl, hnd, hwk⟩ := (wfRoot_iff _ _ _).mp hwf
  rw [sufsNode_own] at hm
  simp only [own, List.nil_append, List.mem_map] at hm
  obtain ⟨sr, hsr, he⟩ := hm
  obtain ⟨s, x'⟩ := sr
  simp only [pre, List.nil_append, Prod.mk.injEq] at he
  obtain ⟨rfl, rfl⟩ := he
  have hsne : s ≠ [] := sufsKids_ne_nil hwk _ hsr
  obtain ⟨pre, c, post, hp, hmc⟩ := pick_of_mem hwk hnd hok hsr
  cases s with
  | nil => exact absurd rfl hsne
  | cons t ts =>
    obtain ⟨rfl, _, _⟩ := pick_some hp
    obtain ⟨n', h1, h2⟩ := found_searchNode c (t :: ts) x' (wfKids_mem hwk (by simp)) hok hmc
    refine ⟨n', ?_, h2⟩
    unfold searchRoot
    simp only [render_cons_ne_nil, if_false, Node.children_mk, searchKids_pick, hp]
    exact h1

theorem searchKids_sound : ∀ (cs : List Node) (p : Bytes) (n' : Node), searchKids cs p = some n' →
    ∃ c ∈ cs, searchNode c p = some n'
  | [], _, _, h => by simp [searchKids] at h
  | c :: cs, p, n', h => by
    unfold searchKids at h
    split at h
    · exact ⟨c, by simp, h⟩
    · obtain ⟨d, hd, hs⟩ := searchKids_sound cs p n' h
      exact ⟨d, by simp [hd], hs⟩

theorem routesNode_mk (k : List Tok) (r : Option Route) (cs : List Node) :
    routesNode (.mk k r cs) = (match r with | some r => [r] | none => []) ++ cs.flatMap routesNode := by
  conv => lhs; unfold routesNode
  rw [routesKids_eq_flatMap]
  cases r <;> rfl

/-- the node returned by the byte-wise search lies in the searched subtree -/
theorem sound_searchNode (n : Node) : ∀ (p : Bytes) (n' : Node) (x : Route), searchNode n p = some n' →
    n'.route = some x → x ∈ routesNode n := by
  induction n using Node.ind with
  | h key route cs ih =>
    intro p n' x h hx
    unfold searchNode at h
    simp only [] at h
    split at h
    · split at h
      · simp only [Option.some.injEq] at h; subst h
        simp only [Node.route_mk] at hx; subst hx
        simp [routesNode_mk]
      · cases h
    · split at h
      · obtain ⟨c, hc, hs⟩ := searchKids_sound _ _ _ h
        have := ih c hc _ _ _ hs hx
        rw [routesNode_mk]
        exact List.mem_append_right _ (List.mem_flatMap.mpr ⟨c, hc, this⟩)
      · cases h

theorem sound_routeOf {root : Node} {txt : Bytes} {x : Route} (h : routeOf root txt = some x) :
    x ∈ routesNode root ∧ x.text = txt := by
  unfold routeOf at h
  cases hs : searchRoot root txt with
  | none => simp [hs] at h
  | some n' =>
    simp only [hs] at h
    cases hr : n'.route with
    | none => simp [hr] at h
    | some r =>
      simp only [hr] at h
      split at h
      · rename_i htxt
        simp only [Option.some.injEq] at h; subst h
        refine ⟨?_, htxt⟩
        unfold searchRoot at hs
        split at hs
        · simp only [Option.some.injEq] at hs; subst hs
          obtain ⟨k, ro, cs⟩ := root
          simp only [Node.route_mk] at hr; subst hr
          simp [routesNode_mk]
        · obtain ⟨c, hc, hs'⟩ := searchKids_sound _ _ _ hs
          have := sound_searchNode c _ _ _ hs' hr
          obtain ⟨k, ro, cs⟩ := root
          rw [routesNode_mk]
          exact List.mem_append_right _ (List.mem_flatMap.mpr ⟨c, hc, this⟩)
      · cases h

/-- `Has`/`Route` find every registered route under the text of its pattern -/
theorem has_registered {t : Tree} {m : Bytes} {pat : List Tok} {r : Route} (hg : Good t)
    (hm : (pat, r) ∈ sufsOf t m) : t.has m (render pat) = some r := by
  unfold sufsOf at hm
  unfold Tree.has
  cases hroot : methodRoot t.roots m with
  | none => rw [hroot] at hm; cases hm
  | some root =>
    rw [hroot] at hm
    simp only []
    have hro := hg.roots _ (methodRoot_some hroot)
    obtain ⟨hpat, hok⟩ := hro.pats _ hm
    obtain ⟨n', h1, h2⟩ := found_searchRoot hro.wf hok hm
    unfold routeOf
    simp only [h1, h2, Route.text]
    simp only at hpat
    subst hpat; simp

/-- `Has`/`Route` only ever return a registered route, and one whose pattern text is the requested text -/
theorem has_sound {t : Tree} {m : Bytes} {txt : Bytes} {r : Route} (h : t.has m txt = some r) :
    r ∈ routesOf t m ∧ r.text = txt := by
  unfold Tree.has at h
  unfold routesOf
  cases hroot : methodRoot t.roots m with
  | none => simp [hroot] at h
  | some root =>
    simp only [hroot] at h ⊢
    exact sound_routeOf h

/-- **`Has` / `Route` read the map.** On related states: a key present in the map is found, with its stored
    route, under the text of its pattern; whatever is found is an entry of the map with that pattern text; and if
    no *other* registered pattern of the method renders to the same text as `pat` (rendering is injective on
    parseable patterns), the lookup of `render pat` is exactly the map lookup of `pat`. -/
theorem C02_has {t : Tree} {s : Store} (h : Sim t s) (m : Bytes) :
    (∀ pat r, s.get m pat = some r → t.has m (render pat) = some r) ∧
    (∀ txt r, t.has m txt = some r → r ∈ s.routesOf m ∧ render r.pattern = txt) ∧
    (∀ pat, (∀ r' ∈ s.routesOf m, render r'.pattern = render pat → r'.pattern = pat) →
      t.has m (render pat) = s.get m pat) := by
  have h1 : ∀ pat r, s.get m pat = some r → t.has m (render pat) = some r := by
    intro pat r hg
    rw [store_get_eq] at hg
    have hin := List.mem_of_find?_eq_some hg
    have hp := List.find?_some hg
    simp only [beq_iff_eq] at hp
    obtain ⟨sr, hsr, rfl⟩ := (h.mem_iff m r).mp hin
    have := (h.good.pats m sr hsr).1
    apply has_registered h.good
    obtain ⟨a, b⟩ := sr
    simp only at this hp ⊢
    rw [← hp, ← this]; exact hsr
  have h2 : ∀ txt r, t.has m txt = some r → r ∈ s.routesOf m ∧ render r.pattern = txt := by
    intro txt r hh
    obtain ⟨ha, hb⟩ := has_sound hh
    exact ⟨(h.abs.1 m).mem_iff.mp ha, hb⟩
  refine ⟨h1, h2, ?_⟩
  intro pat hinj
  cases hg : s.get m pat with
  | some r => exact h1 pat r hg
  | none =>
    cases hh : t.has m (render pat) with
    | none => rfl
    | some r =>
      exfalso
      obtain ⟨ha, hb⟩ := h2 _ _ hh
      have hp := hinj r ha hb
      rw [store_get_eq, List.find?_eq_none] at hg
      exact hg r ha (by simp [hp])

end Fox.C02

namespace Fox.C02
open Fox Fox.Model Fox.Spec

/-! ### the iterators `All` and `Methods` -/

instance : LawfulBEq Route where
  eq_of_beq {a b} h := by
    change instBEqRoute.beq a b = true at h
    obtain ⟨a1, a2, a3, a4, a5⟩ := a
    obtain ⟨b1, b2, b3, b4, b5⟩ := b
    simp only [instBEqRoute.beq, Bool.and_eq_true, beq_iff_eq] at h
    obtain ⟨rfl, rfl, rfl, rfl, rfl⟩ := h
    rfl
  rfl {a} := by
    change instBEqRoute.beq a a = true
    obtain ⟨a1, a2, a3, a4, a5⟩ := a
    simp [instBEqRoute.beq]

theorem count_fiber (m : Bytes) (r : Route) : ∀ l : List (Bytes × Route),
    List.count (m, r) l = List.count r ((l.filter fun e => e.1 == m).map (·.2))
  | [] => rfl
  | e :: es => by
    obtain ⟨m', r'⟩ := e
    rw [List.count_cons, count_fiber m r es, List.filter_cons]
    by_cases hm : m' = m
    · subst hm
      simp only [beq_self_eq_true, if_true, List.map_cons, List.count_cons]
      congr 1
      by_cases hr : r' = r
      · subst hr; simp
      · have : ((m', r') == (m', r)) = false := by
          apply beq_false_of_ne; intro e; exact hr (Prod.mk.inj e).2
        have h2 : (r' == r) = false := beq_false_of_ne hr
        simp [this, h2]
    · have h1 : (m' == m) = false := beq_false_of_ne hm
      have h2 : ((m', r') == (m, r)) = false := by
        apply beq_false_of_ne; intro e; exact hm (Prod.mk.inj e).1
      simp [h1, h2]

theorem all_fiber_none (m : Bytes) : ∀ rs : Roots, (∀ x ∈ rs, x.1 ≠ m) →
    ((rs.flatMap fun x => (routesNode x.2).map fun r => (x.1, r)).filter fun e => e.1 == m) = []
  | [], _ => rfl
  | x :: xs, h => by
    simp only [List.flatMap_cons, List.filter_append]
    rw [all_fiber_none m xs (fun y hy => h y (by simp [hy]))]
    simp only [List.append_nil, List.filter_eq_nil_iff, List.mem_map]
    rintro e ⟨r, _, rfl⟩
    simpa using h x (by simp)

theorem all_fiber (m : Bytes) : ∀ rs : Roots, (rs.map (·.1)).Nodup →
    ((rs.flatMap fun x => (routesNode x.2).map fun r => (x.1, r)).filter fun e => e.1 == m).map (·.2) =
      routesOf ⟨rs, 0, 0, 0⟩ m
  | [], _ => rfl
  | x :: xs, hnd => by
    simp only [List.map_cons, List.nodup_cons] at hnd
    unfold routesOf
    simp only [List.flatMap_cons, List.filter_append, List.map_append, methodRoot, List.find?_cons]
    by_cases hm : x.1 = m
    · have hrest : ∀ y ∈ xs, y.1 ≠ m := by
        intro y hy e; apply hnd.1; rw [hm, ← e]; exact List.mem_map_of_mem (f := (·.1)) hy
      rw [all_fiber_none m xs hrest]
      have : (x.1 == m) = true := by simp [hm]
      simp only [this, Option.map_some, List.map_nil, List.append_nil]
      rw [List.filter_eq_self.mpr]
      · simp [List.map_map, Function.comp_def]
      · intro e he
        obtain ⟨r, _, rfl⟩ := List.mem_map.mp he
        exact this
    · have h1 : (x.1 == m) = false := beq_false_of_ne hm
      have := all_fiber m xs hnd.2
      unfold routesOf at this
      simp only [methodRoot] at this
      simp only [h1, this]
      rw [List.filter_eq_nil_iff.mpr]
      · rfl
      · intro e he
        obtain ⟨r, _, rfl⟩ := List.mem_map.mp he
        simp [h1]

/-- **`All`.** The iterator over all routes yields exactly the entries of the map (as a multiset). -/
theorem C02_all {t : Tree} {s : Store} (h : Sim t s) : (t.all).Perm s := by
  rw [List.perm_iff_count]
  rintro ⟨m, r⟩
  rw [count_fiber, count_fiber]
  have h1 : ((t.all.filter fun e => e.1 == m).map (·.2)) = routesOf t m := by
    have := all_fiber m t.roots h.good.nodup
    rw [routesOf_congr (t := t) (t' := ⟨t.roots, 0, 0, 0⟩) rfl m] at this
    exact this
  rw [h1]
  exact (h.abs.1 m).count_eq r

/-- **`Len`** is the number of routes the iterator `All` yields. -/
theorem C02_len_all {t : Tree} {s : Store} (h : Sim t s) : t.size = t.all.length := by
  rw [h.abs.2, (C02_all h).length_eq]

/-- **`Methods`** lists exactly the methods that have at least one registered route. -/
theorem C02_methods {t : Tree} {s : Store} (h : Sim t s) (m : Bytes) :
    m ∈ t.methods ↔ s.routesOf m ≠ [] := by
  have hne : s.routesOf m ≠ [] ↔ routesOf t m ≠ [] := by
    constructor
    · intro h1 h2; apply h1; have := h.abs.1 m; rw [h2] at this; exact this.symm.eq_nil
    · intro h1 h2; apply h1; have := h.abs.1 m; rw [h2] at this; exact this.eq_nil
  rw [hne]
  -- a root has routes iff it has children
  have hroot : ∀ n, RootOk n → (routesNode n ≠ [] ↔ n.children.isEmpty = false) := by
    intro n hn
    obtain ⟨k, ro, cs⟩ := n
    obtain ⟨rfl, rfl, _, _⟩ := (wfRoot_iff _ _ _).mp hn.wf
    have hsh := (shapeKids_iff _).mp hn.shape
    simp only [Node.children_mk] at hsh ⊢
    rw [routesNode_mk]
    cases cs with
    | nil => simp
    | cons c cs =>
      have := routes_ne_nil_of_shape c (hsh c (by simp))
      simp [this]
  simp only [Tree.methods, List.mem_map, List.mem_filter, Bool.not_eq_true']
  constructor
  · rintro ⟨x, ⟨hx, hc⟩, rfl⟩
    have := methodRoot_of_mem h.good.nodup (show (x.1, x.2) ∈ t.roots from hx)
    simp only [routesOf, this]
    exact (hroot x.2 (h.good.roots x hx)).mpr hc
  · intro hr
    unfold routesOf at hr
    cases hm : methodRoot t.roots m with
    | none => rw [hm] at hr; exact absurd rfl hr
    | some root =>
      rw [hm] at hr
      have hx := methodRoot_some hm
      exact ⟨(m, root), ⟨hx, (hroot root (h.good.roots _ hx)).mp hr⟩, rfl⟩

/-! ### parseable patterns are valid -/

theorem findIdx_slash_spec : ∀ toks : List Tok, Tok.lit SLASH ∈ toks →
    startsWithSlash (toks.drop (toks.findIdx (· == .lit SLASH))) = true ∧
    noSlashTok (toks.take (toks.findIdx (· == .lit SLASH))) = true
  | [], h => by cases h
  | t :: ts, h => by
    by_cases ht : t = .lit SLASH
    · subst ht
      simp [List.findIdx_cons, startsWithSlash, noSlashTok]
    · have hb : (t == Tok.lit SLASH) = false := beq_false_of_ne ht
      have hmem : Tok.lit SLASH ∈ ts := by
        rcases List.mem_cons.mp h with e | e
        · exact absurd e.symm ht
        · exact e
      obtain ⟨h1, h2⟩ := findIdx_slash_spec ts hmem
      simp only [List.findIdx_cons, hb, cond_false, List.drop_succ_cons, List.take_succ_cons]
      refine ⟨h1, ?_⟩
      simp only [noSlashTok, List.contains_cons, Bool.not_or, Bool.and_eq_true, Bool.not_eq_true'] at h2 ⊢
      refine ⟨?_, h2⟩
      apply beq_false_of_ne
      exact fun e => ht e.symm

/-- The routes the driver (and fox's `parseRoute`) builds satisfy `validPattern`: tokens with `keyOk`, at least
    one literal '/', `hostToks` the index of the first one, and a hostname part that does not end with a
    catch-all (fox rejects catch-alls in hostnames). -/
theorem validPattern_of_parse (hid : Nat) (toks : List Tok) (its rts : Bool) (hk : keyOk toks = true)
    (hs : Tok.lit SLASH ∈ toks)
    (hc : endsWithCatchAll (toks.take (toks.findIdx (· == .lit SLASH))) = false) :
    validPattern { hid := hid, pattern := toks, hostToks := toks.findIdx (· == .lit SLASH),
                   ignoreTS := its, redirectTS := rts } = true := by
  obtain ⟨h1, h2⟩ := findIdx_slash_spec toks hs
  rw [validPattern_iff]
  exact ⟨hk, h1, h2, hc⟩

/-! ### non-vacuity -/

/-- a path-only pattern `/a/{x}` and a hostname pattern `a.{h}/b` satisfy the hypothesis -/
example : validPattern { hid := 1, pattern := [.lit 47, .lit 97, .lit 47, .param [120]] } = true := by decide
example : validPattern { hid := 2, pattern := [.lit 97, .lit 46, .param [104], .lit 47, .lit 98], hostToks := 3 } = true := by
  decide


/-- outcome class, for the examples below (4 + n = conflict naming n routes) -/
def outcomeTag : Option Outcome → Nat
  | none => 0
  | some (.ok _) => 1
  | some .exist => 2
  | some .notFound => 3
  | some (.conflict cs) => 4 + cs.length

def exR1 : Route := { hid := 1, pattern := [.lit 47, .lit 97, .lit 47, .param [120]] }            -- /a/{x}
def exR2 : Route := { hid := 2, pattern := [.lit 47, .lit 97, .lit 47, .param [121]] }            -- /a/{y}
def exR3 : Route := { hid := 3, pattern := [.lit 97, .lit 46, .param [104], .lit 47, .lit 98], hostToks := 3 } -- a.{h}/b
def exR3' : Route := { exR3 with hid := 4 }
def exOps : List Op :=
  [.handle GET exR1, .handle GET exR2, .handle GET exR1, .handle GET exR3, .update GET exR3',
   .delete GET exR2.pattern, .delete GET exR1.pattern, .truncate [GET]]

/-- a history exercising every outcome class: ok, conflict (one route), exist, ok, ok, notFound, ok, truncate;
    the tree and the map produce the same classes, and `Len` goes 0 → 2 → 1 → 0 -/
example : (runModel newTree exOps).2.map outcomeTag = [1, 5, 2, 1, 1, 3, 1, 0] := by decide
example : (runSpec [] exOps).2.map outcomeTag = [1, 5, 2, 1, 1, 3, 1, 0] := by decide
example : ∀ op ∈ exOps, op.valid = true := by decide
example : (runModel newTree (exOps.take 5)).1.size = 2 ∧ (runModel newTree (exOps.take 7)).1.size = 1 ∧
    (runModel newTree exOps).1.size = 0 := by decide

end Fox.C02

namespace Fox.C02

/- TODO (statements not proved here):

   * `Iter.Prefix` (`Tree.prefix`): for related states, `t.prefix m p` is (a permutation of) the routes r of the map
     with `p <+: render r.pattern` — needs a byte-level prefix analysis of `searchNode` ending mid-key.
   * `Iter.Routes` over a list of methods is `Tree.has` per method (`C02_has`), not stated separately.
   * iteration order: `Tree.all` / `routesOf` are compared with the map as multisets only (`C02_all`, `C02_routes`);
     the order (depth first, children sorted by key) is checked by the differential test, not proved.
   * transactions (begin / commit / abort, `Txn` readers) and `ErrInvalidRoute` (pattern parser, property C10) are
     outside this development: the theorems are about the tree operations a transaction performs.
   * `render` injective on parseable patterns (third part of `C02_has` takes it as an explicit hypothesis).
-/

end Fox.C02
