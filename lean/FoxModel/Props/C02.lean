namespace Fox.C02
end Fox.C02
