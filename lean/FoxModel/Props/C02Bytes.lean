import FoxModel.Lemmas.InsScan
import FoxModel.Lemmas.FragGrammar
import FoxModel.Props.C10Routable
/-
  Property C02 (and C07, C10) — the byte-level computations of `tXn.insert` at the node where the search stopped are the
  renderings of the token-level model's.

  `Model.insertNode` works on token lists: common *token* prefix, conflict iff the first differing tokens are two wildcards
  of the same kind, new keys = token sub-lists. The Go code works on strings: `commonPrefix` of bytes, a backward scan for
  '{' / '*' up to the previous '/' (or '.'), `strings.TrimPrefix`, slicing at `hostSplit - charsMatched`. The theorems
  below close that gap for every key and pattern of the grammar (no bound on anything): the byte prefix ends inside a
  token only inside two same-kind wildcards with different names, which is exactly when either rule reports a conflict;
  otherwise every string the Go code builds is the rendering of the token list the model builds.
-/
namespace Fox.C02.Bytes
open Fox Fox.Model Fox.Model.InsScan

/-- length of the common byte prefix = bytes of the common tokens + bytes shared by two different wildcards of one kind -/
theorem byte_prefix_is_token_prefix (key toks : List Tok) (hk : toksOk key = true) (ht : toksOk toks = true) :
    lcpB (render key) (render toks) = (render (commonPrefix key toks)).length + partialT key toks :=
  lcp_render key toks hk ht

/-- the inner loop of `copyOnWriteSearch` on a node's key counts exactly the common byte prefix of key and remaining path
    (`charsMatchedInNodeFound`), and takes `break STOP` exactly when that prefix ends inside both -/
theorem search_inner_loop_is_common_prefix (key rest : Bytes) :
    (cowInner key rest).1 = lcpB key rest ∧
    ((cowInner key rest).2 = true ↔ lcpB key rest < key.length ∧ lcpB key rest < rest.length) :=
  cowInner_eq key rest

/-- `searchResult.classify` on byte lengths is the model's case distinction on token lists (path and hostname part) -/
theorem classification_agrees (key toks : List Tok) (hk : toksOk key = true) (ht : toksOk toks = true) (isHost : Bool) :
    (stepB (render key) (render toks) isHost).cls = (stepT key toks).cls := by
  cases isHost
  · exact (classify_eq key toks hk ht).1
  · exact (classify_eq key toks hk ht).2

/-- path part: the backward scan over `cPrefix` reports a conflict exactly when the first differing tokens are two
    wildcards of the same kind -/
theorem conflict_rule_path (key toks : List Tok) (hk : toksOk key = true) (ht : toksOk toks = true)
    (fk : fragOkPath key = true) (ft : fragOkPath toks = true) (hm : (stepT key toks).cls = .toMiddleOfEdge) :
    (stepB (render key) (render toks) false).conflict = (stepT key toks).conflict :=
  conflict_path_eq key toks hk ht fk ft hm

/-- hostname part: the same for the '.'-bounded scan with its `HasSuffix(cPrefix, "}")` exemption -/
theorem conflict_rule_host (key toks : List Tok) (hk : toksOk key = true) (ht : toksOk toks = true)
    (fk : fragOkHost key = true) (hm : (stepT key toks).cls = .toMiddleOfEdge) :
    (stepB (render key) (render toks) true).conflict = (stepT key toks).conflict :=
  conflict_host_eq key toks hk ht fk hm

/-- whenever the model does not report a conflict in the middle of an edge, `cPrefix`, `suffixFromExistingEdge` and
    `keySuffix` are the renderings of the model's common prefix, remaining key and remaining pattern: the split falls on a
    token boundary -/
theorem split_on_token_boundary (key toks : List Tok) (hk : toksOk key = true) (ht : toksOk toks = true) (isHost : Bool)
    (hnc : (stepT key toks).conflict = false) :
    (stepB (render key) (render toks) isHost).cPrefix = render (stepT key toks).cp ∧
    (stepB (render key) (render toks) isHost).sufEdge = render (stepT key toks).sufEdge ∧
    (stepB (render key) (render toks) isHost).keySuffix = render (stepT key toks).keySuffix := by
  apply split_strings key toks hk ht isHost
  obtain ⟨_, _, h3⟩ := InsScan.cp_split key toks
  simp only [stepT] at hnc
  cases hkr : key.drop (commonPrefix key toks).length with
  | nil => rw [hkr] at h3; cases htr : toks.drop (commonPrefix key toks).length <;> rw [htr] at h3 <;> exact h3
  | cons a kr =>
    cases htr : toks.drop (commonPrefix key toks).length with
    | nil => rw [hkr, htr] at h3; exact h3
    | cons b tr =>
      rw [hkr, htr] at h3 hnc
      simp only at hnc
      rw [h3.2]
      have := partialHead_pos_iff a b
      rw [hnc] at this
      simp at this
      exact this

/-- the dedicated path child of a hostname route: the two slices of `keySuffix` at `hostSplit - charsMatched` are the
    renderings of the remaining hostname tokens and of the path tokens -/
theorem host_leaf_split (pre suf : List Tok) (hostToks : Nat) (h : pre.length ≤ hostToks) :
    leafSplitB (render suf) (render ((pre ++ suf).take hostToks)).length (render pre).length =
      (render (suf.take (hostToks - pre.length)), render (suf.drop (hostToks - pre.length))) :=
  leaf_split pre suf hostToks h

/-! ### the hypotheses hold in every reachable state -/

/-- what the parser accepts has the shape the theorems above assume (grammar tokens; in the path part a wildcard is
    followed by '/' or by nothing, in the hostname part a parameter by '.' or by nothing; names without '}', '/', '{', '*',
    in hostnames without '.'; no '}' in hostname text) -/
theorem accepted_patterns_have_the_shape {lim : Spec.Limits} {s : Bytes} {r : Route} (h : Fox.C10.Accepted lim s r) :
    patOK r.pattern = true :=
  patOK_of_valid h.validToks (Fox.C10.tokenize_litsOk s.length s r.pattern rfl h.toks)

/-- **after any history** of Handle / Update / Delete / Truncate whose registered patterns have that shape, every key of
    the radix tree is made of grammar tokens with its wildcards at the end of a segment (path part) or of a label
    (hostname part): a key is a contiguous fragment of the pattern of any route below it. So the hypotheses of
    `conflict_rule_path`, `conflict_rule_host`, `split_on_token_boundary` … are met at every node an insertion can stop at -/
theorem keys_of_reachable_trees_are_grammar_fragments (ops : List Fox.C02.Op) (hv : ∀ op ∈ ops, op.valid = true)
    (hp : ∀ op ∈ ops, opPatOK op = true) :
    fragOkRoots (Fox.C02.runModel newTree ops).1.roots = true :=
  fragOk_reachable ops hv hp

/-- in particular after any history of registrations the parser accepted -/
theorem keys_after_accepted_registrations (lim : Spec.Limits) (ops : List Fox.C02.Op)
    (ha : ∀ op ∈ ops, match op with | .handle _ r => ∃ s, Fox.C10.Accepted lim s r | _ => True) :
    fragOkRoots (Fox.C02.runModel newTree ops).1.roots = true := by
  apply fragOk_reachable
  · intro op hop
    have := ha op hop
    cases op with
    | handle m r => obtain ⟨s, hs⟩ := this; exact hs.validPattern
    | update m r => rfl
    | delete m p => rfl
    | truncate ms => rfl
  · intro op hop
    have := ha op hop
    cases op with
    | handle m r => obtain ⟨s, hs⟩ := this; exact accepted_patterns_have_the_shape hs
    | update m r => rfl
    | delete m p => rfl
    | truncate ms => rfl

/-! non-vacuity: `/users/{id}/x` against the key `/users/{id}/y…`, and `/{ab}` against `/{ac}` -/
section Ex
def L (s : String) : List Tok := s.toUTF8.toList.map Tok.lit
def k1 : List Tok := L "/users/" ++ [.param "id".toUTF8.toList] ++ L "/y"
def t1 : List Tok := L "/users/" ++ [.param "id".toUTF8.toList] ++ L "/x"
def k2 : List Tok := L "/" ++ [.param "ab".toUTF8.toList]
def t2 : List Tok := L "/" ++ [.param "ac".toUTF8.toList]
#guard toksOk k1 && toksOk t1 && fragOkPath k1 && fragOkPath t1
#guard (stepT k1 t1).cls == .toMiddleOfEdge && !(stepT k1 t1).conflict
#guard (stepB (render k1) (render t1) false).cPrefix == "/users/{id}/".toUTF8.toList
#guard !(stepB (render k1) (render t1) false).conflict
#guard (stepT k2 t2).conflict && (stepB (render k2) (render t2) false).conflict
#guard (stepB (render k2) (render t2) false).cPrefix == "/{a".toUTF8.toList
-- hostname part: a.{b}.c against a.{b}/  (the prefix ends with '}': no conflict), {ab}.c against {ac}.c (conflict)
def hk1 : List Tok := L "a." ++ [.param "b".toUTF8.toList] ++ L ".c"
def ht1 : List Tok := L "a." ++ [.param "b".toUTF8.toList] ++ L "/x"
#guard fragOkHost hk1 && toksOk hk1 && toksOk ht1
#guard (stepT hk1 ht1).cls == .toMiddleOfEdge && !(stepT hk1 ht1).conflict && !(stepB (render hk1) (render ht1) true).conflict
#guard (stepB (render ([Tok.param "ab".toUTF8.toList] ++ L ".c")) (render ([Tok.param "ac".toUTF8.toList] ++ L ".c")) true).conflict
end Ex

end Fox.C02.Bytes
