import FoxModel.Props.C02
import FoxModel.Lemmas.PrefixInv
set_option linter.unusedSimpArgs false
set_option linter.unusedVariables false
/-
  C02, reader `Iter.Prefix` — on a tree related to the sequential map, the prefix iterator of a method yields
  exactly the registered routes of that method whose pattern text starts with the requested byte string, in the
  relative order in which `Iter.All` yields them.

  Go: `Iter.Prefix` (iter.go) = guard `len(root.children) == 0`, `roots.search(root, prefix)` (node.go), then a
  depth-first pre-order walk of the node found. Model: `Tree.prefix` = guard, `searchRoot`, `routesNode`.
-/
namespace Fox.C02
open Fox Fox.Model Fox.Spec

/-- the filter `Iter.Prefix` implements: the pattern text of the route starts with `p` -/
def startsWith (p : Bytes) (r : Route) : Bool := p.isPrefixOf r.text

theorem startsWith_iff (p : Bytes) (r : Route) : startsWith p r = true ↔ p <+: render r.pattern := by
  simp only [startsWith, Route.text, List.isPrefixOf_iff_prefix]

/-! ### the tree alone -/

/-- on a tree satisfying the invariant, `Tree.prefix` is the filter of the suffix set of the method -/
theorem prefix_eq_filter_sufs {t : Tree} (hg : Good t) (m : Bytes) (p : Bytes) :
    t.prefix m p = ((sufsOf t m).filter (hitsP p)).map (·.2) := by
  unfold Tree.prefix sufsOf
  cases hroot : methodRoot t.roots m with
  | none => rfl
  | some root =>
    simp only []
    have hro := hg.roots _ (methodRoot_some hroot)
    cases hc : root.children.isEmpty with
    | true =>
      simp only [if_true]
      rw [sufsNode_no_children hro.wf hc]; rfl
    | false =>
      simp only [Bool.false_eq_true, if_false]
      rw [← search_filter_root hro.wf p]
      cases searchRoot root p <;> rfl

/-- **`Prefix` = filter of `All`, with its order.** On every tree satisfying the invariant `Good` (every reachable
    tree), the prefix iterator of method `m` yields the list of routes of `m` in raw iteration order (depth first,
    children by key: `routesOf t m`, the `m`-block of `Tree.all`) *filtered* by "the pattern text starts with
    `p`" — same routes, same multiplicities, same relative order. -/
theorem prefix_eq_filter {t : Tree} (hg : Good t) (m : Bytes) (p : Bytes) :
    t.prefix m p = (routesOf t m).filter (startsWith p) := by
  rw [prefix_eq_filter_sufs hg, routesOf_eq, List.filter_map]
  congr 1
  apply List.filter_congr
  intro sr hsr
  have := (hg.pats m sr hsr).1
  simp only [Function.comp, hitsP, startsWith, Route.text, this]

/-! ### against the sequential map -/

/-- **C02, `Iter.Prefix`.** On related states, for every method `m` and byte string `p`, the prefix iterator
    yields exactly (as a multiset) the routes registered in the map under `m` whose pattern text starts with `p`.
    `p` may be empty (everything), end at a key end, in the middle of a key, in the middle of the text `{name}` /
    `*{name}` of a wildcard, or match no route (nothing is yielded); a method without routes yields nothing. -/
theorem C02_prefix {t : Tree} {s : Store} (h : Sim t s) (m : Bytes) (p : Bytes) :
    (t.prefix m p).Perm ((s.routesOf m).filter fun r => p.isPrefixOf r.text) := by
  rw [prefix_eq_filter h.good]
  exact (h.abs.1 m).filter _

/-- the same, after any valid history from the empty router -/
theorem C02_prefix_run (ops : List Op) (hv : ∀ op ∈ ops, op.valid = true) (m : Bytes) (p : Bytes) :
    ((runModel newTree ops).1.prefix m p).Perm
      (((runSpec [] ops).1.routesOf m).filter fun r => p.isPrefixOf r.text) :=
  C02_prefix (C02_refines ops hv).1 m p

/-- after any valid history from the empty router, `Prefix` is the filter of the raw iteration of the method's
    tree — same routes, same order -/
theorem C02_prefix_order_run (ops : List Op) (hv : ∀ op ∈ ops, op.valid = true) (m : Bytes) (p : Bytes) :
    (runModel newTree ops).1.prefix m p =
      (routesOf (runModel newTree ops).1 m).filter fun r => p.isPrefixOf r.text :=
  prefix_eq_filter (C02_refines ops hv).1.good m p

/-- membership form, with the prefix relation as a proposition -/
theorem C02_prefix_mem {t : Tree} {s : Store} (h : Sim t s) (m : Bytes) (p : Bytes) (r : Route) :
    r ∈ t.prefix m p ↔ r ∈ s.routesOf m ∧ p <+: render r.pattern := by
  rw [(C02_prefix h m p).mem_iff, List.mem_filter, Route.text, List.isPrefixOf_iff_prefix]

/-- **Order.** `Prefix` yields the matching routes in the same relative order as the raw iteration of the
    method's tree (`prefix_eq_filter` says which sublist: the filter). -/
theorem C02_prefix_order {t : Tree} {s : Store} (h : Sim t s) (m : Bytes) (p : Bytes) :
    (t.prefix m p).Sublist (routesOf t m) := by
  rw [prefix_eq_filter h.good]
  exact List.filter_sublist

theorem routesOf_block_sublist_all (m : Bytes) : ∀ rs : Roots,
    ((routesOf ⟨rs, 0, 0, 0⟩ m).map fun r => (m, r)).Sublist
      (rs.flatMap fun x => (routesNode x.2).map fun r => (x.1, r))
  | [] => by simp [routesOf, methodRoot]
  | x :: xs => by
    simp only [List.flatMap_cons, routesOf, methodRoot, List.find?_cons]
    cases hx : x.1 == m with
    | true =>
      simp only [Option.map_some]
      simp only [beq_iff_eq] at hx; subst hx
      exact List.sublist_append_left _ _
    | false =>
      simp only []
      have := routesOf_block_sublist_all m xs
      simp only [routesOf, methodRoot] at this
      exact this.trans (List.sublist_append_right _ _)

/-- … and hence in the same relative order as `Iter.All` -/
theorem C02_prefix_order_all {t : Tree} {s : Store} (h : Sim t s) (m : Bytes) (p : Bytes) :
    ((t.prefix m p).map fun r => (m, r)).Sublist t.all := by
  refine ((C02_prefix_order h m p).map _).trans ?_
  have := routesOf_block_sublist_all m t.roots
  rw [routesOf_congr (t := t) (t' := ⟨t.roots, 0, 0, 0⟩) rfl m] at this
  exact this

theorem nodup_of_map {α β} (f : α → β) {l : List α} (h : (l.map f).Nodup) : l.Nodup := by
  rw [List.Nodup, List.pairwise_map] at h
  exact h.imp fun hne e => hne (by rw [e])

/-- no route is yielded twice -/
theorem C02_prefix_nodup {t : Tree} {s : Store} (h : Sim t s) (m : Bytes) (p : Bytes) : (t.prefix m p).Nodup := by
  have h1 : (s.routesOf m).Nodup := nodup_of_map _ (store_routesOf_patterns_nodup h.store m)
  exact ((C02_prefix_order h m p).nodup ((h.abs.1 m).nodup_iff.mpr h1))

/-- **The empty prefix** iterates all the routes of the method: in iteration order on the tree … -/
theorem prefix_nil {t : Tree} (hg : Good t) (m : Bytes) : t.prefix m [] = routesOf t m := by
  rw [prefix_eq_filter hg]
  exact List.filter_eq_self.mpr fun r _ => by simp [startsWith]

/-- … and, as a multiset, the routes of the map -/
theorem C02_prefix_full {t : Tree} {s : Store} (h : Sim t s) (m : Bytes) :
    (t.prefix m []).Perm (s.routesOf m) := by
  rw [prefix_nil h.good]
  exact h.abs.1 m

/-- **`Has` / `Route` and `Prefix` agree**: a route found under a pattern text is yielded for that text as prefix -/
theorem C02_prefix_has {t : Tree} {s : Store} (h : Sim t s) {m txt : Bytes} {r : Route}
    (hh : t.has m txt = some r) : r ∈ t.prefix m txt := by
  obtain ⟨h1, h2⟩ := has_sound hh
  rw [prefix_eq_filter h.good, List.mem_filter]
  refine ⟨h1, ?_⟩
  simp only [startsWith, h2, List.isPrefixOf_iff_prefix]
  exact List.prefix_refl _

/-- a registered key is yielded for every prefix of its pattern text -/
theorem C02_prefix_get {t : Tree} {s : Store} (h : Sim t s) {m : Bytes} {pat : List Tok} {r : Route}
    (hg : s.get m pat = some r) {p : Bytes} (hp : p <+: render pat) : r ∈ t.prefix m p := by
  rw [store_get_eq] at hg
  have hin := List.mem_of_find?_eq_some hg
  have he := List.find?_some hg
  simp only [beq_iff_eq] at he
  rw [C02_prefix_mem h]
  exact ⟨hin, he ▸ hp⟩

/-- a longer prefix yields a sublist -/
theorem C02_prefix_mono {t : Tree} {s : Store} (h : Sim t s) (m : Bytes) (p q : Bytes) :
    (t.prefix m (p ++ q)).Sublist (t.prefix m p) := by
  rw [prefix_eq_filter h.good, prefix_eq_filter h.good]
  have : (routesOf t m).filter (startsWith (p ++ q)) =
      ((routesOf t m).filter (startsWith p)).filter (startsWith (p ++ q)) := by
    rw [List.filter_filter]
    apply List.filter_congr
    intro r _
    cases hq : startsWith (p ++ q) r with
    | false => rfl
    | true =>
      rw [startsWith_iff] at hq
      have : startsWith p r = true := (startsWith_iff p r).mpr ((List.prefix_append p q).trans hq)
      simp [this]
  rw [this]
  exact List.filter_sublist

/-! ### `All` is `Prefix(Methods(), "")` (how iter.go defines it) -/

theorem flatMap_filter_congr {α β} (p : α → Bool) (f g : α → List β) : ∀ l : List α,
    (∀ x ∈ l, p x = true → g x = f x) → (∀ x ∈ l, p x = false → f x = []) →
    l.flatMap f = (l.filter p).flatMap g
  | [], _, _ => rfl
  | x :: xs, h1, h2 => by
    have ih := flatMap_filter_congr p f g xs (fun y hy => h1 y (List.mem_cons_of_mem _ hy))
      (fun y hy => h2 y (List.mem_cons_of_mem _ hy))
    cases hp : p x with
    | true =>
      simp only [List.filter_cons, hp, if_true, List.flatMap_cons, ih, h1 x (List.mem_cons_self ..) hp]
    | false =>
      simp only [List.filter_cons, hp, Bool.false_eq_true, if_false, List.flatMap_cons, ih,
        h2 x (List.mem_cons_self ..) hp, List.nil_append]

/-- the model's `Tree.all` (all roots, raw iteration) is what iter.go computes for `All`: the prefix iterator with
    the empty prefix over the methods `Methods` reports — same pairs, same order -/
theorem all_eq_prefix_methods {t : Tree} (hg : Good t) :
    t.all = t.methods.flatMap fun m => (t.prefix m []).map fun r => (m, r) := by
  unfold Tree.all Tree.methods
  rw [List.flatMap_map]
  apply flatMap_filter_congr
  · rintro ⟨m, n⟩ hx _
    have hm := methodRoot_of_mem hg.nodup hx
    simp only [prefix_nil hg, routesOf, hm]
  · rintro ⟨m, n⟩ hx hc
    have hro := hg.roots _ hx
    simp only [Bool.not_eq_false'] at hc
    have := sufsNode_no_children hro.wf hc
    simp only [routesNode_eq, this, List.map_nil]

/-! ### non-vacuity -/

def bytesOf (s : String) : Bytes := s.toUTF8.toList

/-- a route as the driver builds it: tokens of the pattern text, `hostToks` = index of the first literal '/' -/
def mkRoute (hid : Nat) (s : String) : Route :=
  let toks := (tokenize (bytesOf s)).getD []
  { hid := hid, pattern := toks, hostToks := toks.findIdx (· == .lit SLASH) }

def pR1 : Route := mkRoute 1 "/foo"
def pR2 : Route := mkRoute 2 "/foo/bar"
def pR3 : Route := mkRoute 3 "/fo{x}"
def pR4 : Route := mkRoute 4 "/foobar/*{w}"
def pR5 : Route := mkRoute 5 "a.b/foo"
def pR6 : Route := mkRoute 6 "/zzz"

/-- registrations in an order that exercises leaf split, child add and edge split, a hostname route, a route on
    another method, and a delete that merges a node back -/
def pOps : List Op :=
  [.handle GET pR2, .handle GET pR1, .handle GET pR4, .handle GET pR3, .handle GET pR5, .handle POST pR1,
   .handle GET pR6, .delete GET pR6.pattern]

def pTree : Tree := (runModel newTree pOps).1
def pStore : Store := (runSpec [] pOps).1

def hids (l : List Route) : List Nat := l.map (·.hid)

#guard pOps.all Op.valid
#guard pR3.pattern == [.lit 47, .lit 102, .lit 111, .param [120]] && pR5.hostToks == 3
#guard (runModel newTree pOps).2.map outcomeTag == [1, 1, 1, 1, 1, 1, 1, 1]
#guard wfRoots pTree.roots
-- raw iteration order of GET: children sorted by first byte ('/' < 'a'; below "/fo": 'o' < '{')
#guard hids (routesOf pTree GET) == [1, 2, 4, 3, 5]
-- "/fo" ends at the key end of the node "/fo": everything below
#guard hids (pTree.prefix GET (bytesOf "/fo")) == [1, 2, 4, 3]
-- "/foo": the leaf "/foo" and what hangs below it
#guard hids (pTree.prefix GET (bytesOf "/foo")) == [1, 2, 4]
-- "/foo/" ends in the middle of the key "/bar"
#guard hids (pTree.prefix GET (bytesOf "/foo/")) == [2]
-- "/fo{" ends in the middle of the text of the wildcard token `{x}`
#guard hids (pTree.prefix GET (bytesOf "/fo{")) == [3]
#guard hids (pTree.prefix GET (bytesOf "/fo{x}")) == [3]
#guard hids (pTree.prefix GET (bytesOf "/fo{y")) == []
-- "/foob" ends in the middle of the key "bar/*{w}", "/foobar/*" in the middle of the text of `*{w}`
#guard hids (pTree.prefix GET (bytesOf "/foob")) == [4]
#guard hids (pTree.prefix GET (bytesOf "/foobar/*")) == [4]
-- no child for the next byte / the key bytes match only partly
#guard hids (pTree.prefix GET (bytesOf "/foox")) == []
#guard hids (pTree.prefix GET (bytesOf "/foobaz")) == []
#guard hids (pTree.prefix GET (bytesOf "/foo/bar/")) == []
-- hostname route
#guard hids (pTree.prefix GET (bytesOf "a.")) == [5]
#guard hids (pTree.prefix GET (bytesOf "a.b/f")) == [5]
#guard hids (pTree.prefix GET (bytesOf "a.c")) == []
-- the empty prefix yields everything, in iteration order
#guard hids (pTree.prefix GET []) == [1, 2, 4, 3, 5]
-- other methods: POST has one route; PUT has a root without children (the guard); PATCH has no root
#guard hids (pTree.prefix POST (bytesOf "/f")) == [1]
#guard hids (pTree.prefix PUT []) == []
#guard hids (pTree.prefix (bytesOf "PATCH") []) == []
-- the right-hand side of `C02_prefix` on the same history (the map is in registration order)
#guard hids ((pStore.routesOf GET).filter fun r => (bytesOf "/fo").isPrefixOf r.text) == [2, 1, 4, 3]
#guard hids ((pStore.routesOf GET).filter fun r => (bytesOf "/foo/").isPrefixOf r.text) == [2]
#guard hids ((pStore.routesOf GET).filter fun r => (bytesOf "/fo{").isPrefixOf r.text) == [3]
#guard hids ((pStore.routesOf GET).filter fun r => (bytesOf "a.").isPrefixOf r.text) == [5]
#guard hids ((pStore.routesOf GET).filter fun r => ([] : Bytes).isPrefixOf r.text) == [2, 1, 4, 3, 5]
-- `All` = `Prefix(Methods(), "")`
#guard pTree.methods == [GET, POST]
#guard pTree.all.map (fun e => (e.1, e.2.hid)) == [(GET, 1), (GET, 2), (GET, 4), (GET, 3), (GET, 5), (POST, 1)]
-- Has and Prefix agree
#guard (pTree.has GET (bytesOf "/fo{x}")).map (·.hid) == some 3

/-- the theorem instantiated on the example history -/
example (hv : ∀ op ∈ pOps, op.valid = true) :
    (pTree.prefix GET (bytesOf "/fo")).Perm ((pStore.routesOf GET).filter fun r => (bytesOf "/fo").isPrefixOf r.text) :=
  C02_prefix_run pOps hv GET _

/-- why the invariant matters: on an ill-formed tree (two children indexed by the same byte) the search only
    looks into the first one, and `Prefix` misses a route; `wfRoots` excludes such trees -/
def badTree : Tree :=
  ⟨[(GET, .mk [] none [.mk [.lit 47, .lit 97] (some pR1) [], .mk [.lit 47, .lit 98] (some pR2) []])], 2, 0, 1⟩
#guard hids (badTree.prefix GET [47, 98]) == [] && hids (routesOf badTree GET) == [1, 2]
#guard !wfRoots badTree.roots

end Fox.C02
