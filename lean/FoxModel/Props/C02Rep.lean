import FoxModel.Lemmas.Sorted
import FoxModel.Model.Machine
import FoxModel.Lemmas.IterMachine
import FoxModel.Lemmas.SearchLoop
/-
  Properties C02 / C01 / C03 — the derived node fields and the searches on them (node.go: `newNode`, `newNodeFromRef`,
  `getEdge`, `updateEdge`, `linearSearch`, `binarySearch`, `paramChildIndex`, `wildcardChildIndex`).

  The tree model selects a child with `List.find?` on the child list. The Go code selects it through `childKeys`:
  linearly in the matcher, linearly up to 50 children and by bisection above in the write path (`copyOnWriteSearch`,
  `roots.search`, `updateEdge`), and through two precomputed indices for the '{' and '*' children. That is the same
  child **only if** the children are in ascending order of their first byte and the indices were computed on the list
  they are used with. Both are theorems here, for every tree reachable by any history of Handle / Update / Delete /
  Truncate, without a bound on the fan-out:

  * `children_sorted_on_reachable` - the order invariant;
  * `getEdge_on_reachable`, `updateEdge_on_reachable` - the searches of the write path find / replace the model's child
    and never panic (no index out of range in `binarySearch`, no "cannot update the edge");
  * `index_fields_on_reachable` - `children[paramChildIndex]` / `children[wildcardChildIndex]` are the model's
    `paramChild` / `wildChild`, `static_search_is_find` - the matcher's `childKeys` loop is the model's `staticChild`;
  * `sort_algorithm_irrelevant` - any correct sort gives the child list of the model (Go's `slices.SortFunc` is not
    stable; first bytes are distinct, so there is exactly one ascending arrangement).

  Tie to the code: the `ops` stream prints `childKeys`, `paramChildIndex`, `wildcardChildIndex` of every node of the real
  tree (hook `VerifDumpRep`) next to the model's (`Driver/Ops.dumpRep`, computed by `Model/NodeRep`), and calls the real
  `getEdge` with every byte on every node (hook `VerifEdgeCheck`); `srtRoots` is evaluated on every model tree.
-/
namespace Fox.C02.Rep
open Fox Fox.Model Fox.Model.NodeRep Fox.C02

mutual
/-- every node at or below a node -/
def nodesOf : Node → List Node
  | .mk k r cs => .mk k r cs :: nodesKids cs
def nodesKids : List Node → List Node
  | [] => []
  | c :: cs => nodesOf c ++ nodesKids cs
end

def nodesRoots (rs : Roots) : List Node := rs.flatMap fun x => nodesOf x.2

theorem nodesKids_mem {cs : List Node} {x : Node} : x ∈ nodesKids cs ↔ ∃ c ∈ cs, x ∈ nodesOf c := by
  induction cs with
  | nil => simp [nodesKids]
  | cons c cs ih => simp [nodesKids, ih]

theorem srt_nodes (n : Node) : srtNode n = true → ∀ x ∈ nodesOf n, (fbs x.children).Pairwise (· < ·) := by
  induction n using Node.ind with
  | h k r cs ih =>
    intro hs x hx
    rw [srtNode_iff] at hs
    simp only [nodesOf, List.mem_cons] at hx
    rcases hx with rfl | hx
    · exact hs.1
    · obtain ⟨c, hc, hxc⟩ := nodesKids_mem.mp hx
      exact ih c hc (hs.2 c hc) x hxc

theorem wf_nodes (n : Node) : wfNode n = true → ∀ x ∈ nodesOf n, wfKids x.children = true := by
  induction n using Node.ind with
  | h k r cs ih =>
    intro hw x hx
    have w := (wfNode_iff _ _ _).mp hw
    simp only [nodesOf, List.mem_cons] at hx
    rcases hx with rfl | hx
    · exact w.2.2.2.2
    · obtain ⟨c, hc, hxc⟩ := nodesKids_mem.mp hx
      exact ih c hc (wfKids_mem w.2.2.2.2 hc) x hxc

theorem find_congr {α} {p q : α → Bool} : ∀ {l : List α}, (∀ a ∈ l, p a = q a) → l.find? p = l.find? q
  | [], _ => rfl
  | a :: l, h => by
    simp only [List.find?, h a (by simp)]
    rw [find_congr (fun x hx => h x (by simp [hx]))]

theorem srt_nodesRoots {rs : Roots} (h : srtRoots rs = true) :
    ∀ x ∈ nodesRoots rs, (fbs x.children).Pairwise (· < ·) := by
  intro x hx
  obtain ⟨y, hy, hxy⟩ := List.mem_flatMap.mp hx
  exact srt_nodes y.2 ((srtRoots_iff _).mp h y hy) x hxy

theorem wf_nodesRoots {rs : Roots} (h : wfRoots rs = true) : ∀ x ∈ nodesRoots rs, wfKids x.children = true := by
  intro x hx
  obtain ⟨y, hy, hxy⟩ := List.mem_flatMap.mp hx
  have hroot := ((wfRoots_iff _).mp h).1 y hy
  rcases hyv : y.2 with ⟨k, r, cs⟩
  rw [hyv] at hroot hxy
  have w := (wfRoot_iff _ _ _).mp hroot
  simp only [nodesOf, List.mem_cons] at hxy
  rcases hxy with rfl | hxy
  · exact w.2.2.2
  · obtain ⟨c, hc, hxc⟩ := nodesKids_mem.mp hxy
    exact wf_nodes c (wfKids_mem w.2.2.2 hc) x hxc

/-- **The order invariant.** After any history of Handle / Update / Delete / Truncate with parser-accepted patterns,
    at every node of the tree the children are in strictly ascending order of the first byte of their key. -/
theorem children_sorted_on_reachable (ops : List Op) (hv : ∀ op ∈ ops, op.valid = true) :
    srtRoots (runModel newTree ops).1.roots = true :=
  srt_run ops sim_new (by decide) hv

/-- **`binarySearch` is correct on ascending keys**: no index panic, a non-negative result is a position holding `s`,
    a negative result means `s` does not occur - for key lists of any length -/
theorem binarySearch_correct (keys : List UInt8) (s : UInt8) (hs : Asc keys) :
    ∃ r, binarySearch keys s = some r ∧ ((0 ≤ r ∧ keys[r.toNat]? = some s) ∨ (r < 0 ∧ s ∉ keys)) :=
  binarySearch_spec keys s hs

/-- **`getEdge` on every reachable tree**: for every node and every byte, on either side of the 50-children threshold,
    `getEdge` returns - without panicking - the child the tree model selects -/
theorem getEdge_on_reachable (ops : List Op) (hv : ∀ op ∈ ops, op.valid = true) :
    ∀ n ∈ nodesRoots (runModel newTree ops).1.roots, ∀ s : UInt8,
      getEdge n.children s = some (n.children.find? (sel s)) :=
  fun n hn s => getEdge_eq_find (srt_nodesRoots (children_sorted_on_reachable ops hv) n hn) s

/-- **`updateEdge` on every reachable tree**: replacing the edge to a child by a node whose key starts with the same
    byte (a clone, a node with a longer or shorter key after a split or merge) replaces exactly that child and never
    runs into `panic("internal error: cannot update the edge with this node")` -/
theorem updateEdge_on_reachable (ops : List Op) (hv : ∀ op ∈ ops, op.valid = true) :
    ∀ n ∈ nodesRoots (runModel newTree ops).1.roots, ∀ (pre post : List Node) (c new : Node),
      n.children = pre ++ c :: post → firstByte new.key = firstByte c.key →
      updateEdge n.children new = some (pre ++ new :: post) := by
  intro n hn pre post c new hc hk
  have h := srt_nodesRoots (children_sorted_on_reachable ops hv) n hn
  rw [hc] at h ⊢
  exact updateEdge_eq_set h hk

/-- **The index fields on every reachable tree**: `children[paramChildIndex]` and `children[wildcardChildIndex]`
    (each guarded by `>= 0`, as in node.go) are the children the matcher's model uses -/
theorem index_fields_on_reachable (ops : List Op) (hv : ∀ op ∈ ops, op.valid = true) :
    ∀ n ∈ nodesRoots (runModel newTree ops).1.roots,
      childAt n.children (paramChildIndex n.children) = Machine.paramChild n ∧
      childAt n.children (wildcardChildIndex n.children) = Machine.wildChild n := by
  intro n hn
  have hs := srt_nodesRoots (children_sorted_on_reachable ops hv) n hn
  have hw := wf_nodesRoots (C02_reachable_wf ops hv).1 n hn
  refine ⟨?_, ?_⟩
  · rw [paramChild_eq hs, Machine.paramChild]
    exact find_congr fun c hc => isP_iff_param (wfKids_mem hw hc)
  · rw [wildChild_eq hs, Machine.wildChild]
    exact find_congr fun c hc => isW_iff_catchAll (wfKids_mem hw hc)

/-- **The matcher's `childKeys` loop** (`for i := 0; i < len(childKeys) && path[cm] != '*'; i++`) is the model's
    `staticChild` - on any child list (a linear scan needs no order) -/
theorem static_search_is_find (n : Node) (b : UInt8) :
    (if b == STAR then none else childAt n.children (linearSearch (childKeys n.children) b)) =
      Machine.staticChild n b := by
  unfold Machine.staticChild
  split
  · rfl
  · unfold childAt linearSearch
    rcases linearFrom_spec b n.children 0 with ⟨h1, h2⟩ | ⟨j, c, h1, h2, h3⟩
    · rw [h1]; unfold sel at h2; rw [h2]; rfl
    · rw [h1]; unfold sel at h3; rw [h3]; simpa using h2

/-- **Any correct sort will do**: a permutation of well-formed children with distinct kinds that is ascending in the
    first bytes is the list `newNode` has in the model -/
theorem sort_algorithm_irrelevant {cs ds : List Node} (hwf : wfKids cs = true) (hnd : (kindsOf cs).Nodup)
    (hp : ds.Perm cs) (hs : (fbs ds).Pairwise (· < ·)) : ds = sortKids cs :=
  sorted_perm_unique hwf hnd hp hs

/-! ### examples (evaluated, not proved: `bsLoop` is defined by well-founded recursion)

  sixty children `a0 … ` with first bytes 48 … 107 plus a parameter child: bisection is used and finds each of them;
  the same children in descending order (the hypothesis violated): bisection misses a child that is there. -/

def exKid (b : Nat) : Node := .mk [.lit b.toUInt8, .lit 120] none []
def exKids : List Node := (List.range 60).map fun i => exKid (48 + i)
def exKidsP : List Node := exKids ++ [.mk [.param [105, 100]] none []]

#guard exKidsP.length = 61
#guard decide ((fbs exKidsP).Pairwise (· < ·))
#guard (List.range 256).all fun b => getEdge exKidsP b.toUInt8 == some (exKidsP.find? (sel b.toUInt8))
#guard childAt exKidsP (paramChildIndex exKidsP) == exKidsP.find? isP
#guard paramChildIndex exKidsP = 60 ∧ wildcardChildIndex exKidsP = -1
#guard getEdge exKidsP.reverse 50 == some none && (exKidsP.reverse.find? (sel 50)).isSome

/-- the reachable-tree theorems are not vacuous: a concrete history -/
example : srtRoots (runModel newTree exOps).1.roots = true :=
  children_sorted_on_reachable exOps (by decide)

/-! ### the loops of `roots.search` and of the iterators (node.go, iter.go) -/

/-- **`roots.search`**: the two nested loops of the Go code (getEdge, then byte-by-byte comparison with `break STOP` on
    the first differing byte) return the node the model's search returns, for every tree and every byte string -/
theorem search_loops_are_model_search (root : Node) (p : Bytes) :
    SearchLoop.searchFrom root p = searchRoot root p :=
  SearchLoop.search_from_eq root p

/-- **the explicit-stack traversal** (`rawIterator.hasNext`, the loop of `Iter.Prefix` / `Iter.All`) started on a node
    never indexes an empty frame and yields the routes below the node in the model's pre-order; a consumer that stops
    after `k` items (`yield` returned false) has seen exactly the first `k` -/
theorem stack_loop_is_preorder (n : Node) (k : Nat) :
    IterMachine.drain k [[n]] = some ((routesNode n).take k) := by
  rw [IterMachine.drain_take k [[n]] (by intro f hf; simp at hf; subst hf; simp), IterMachine.pending_single]

/-- **`Iter.Prefix` as the Go code runs it = the model's `Tree.prefix`** (which `C02_prefix` relates to the sequential
    map), cut after `k` items for a consumer that stops early -/
theorem prefix_machine (t : Tree) (m p : Bytes) (k : Nat) :
    SearchLoop.prefixM t m p k = some ((t.prefix m p).take k) := by
  unfold SearchLoop.prefixM Tree.prefix
  cases methodRoot t.roots m with
  | none => simp
  | some root =>
    simp only []
    split
    · simp
    · rw [search_loops_are_model_search]
      cases searchRoot root p with
      | none => simp
      | some n => exact stack_loop_is_preorder n k

#guard SearchLoop.prefixM (runModel newTree exOps).1 GET [47, 97] 100 == some (((runModel newTree exOps).1.prefix GET [47, 97]))

/-- **`roots.route` (Has, Route, Iter.Routes) through the loops = the model's `routeOf`** -/
theorem route_machine (root : Node) (pattern : Bytes) : SearchLoop.routeOfM root pattern = routeOf root pattern := by
  unfold SearchLoop.routeOfM routeOf
  rw [search_loops_are_model_search]
  cases searchRoot root pattern with
  | none => rfl
  | some n => cases n.route <;> rfl

end Fox.C02.Rep
