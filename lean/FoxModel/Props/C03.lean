namespace Fox.C03
end Fox.C03
