import FoxModel.Model.Heap
import FoxModel.Generated.Writes
/-
  Property C03 — a published routing state never changes (snapshot immutability).

  Over the heap model of a write transaction (Model/Heap.lean): every in-place write performed by the copy-on-write
  search, and every in-place write that insert / update / remove perform afterwards on `p`, `pp`, `ppp` or on nodes they
  have just built, targets a cell allocated since the last snapshot. Hence the cells that existed when a snapshot was
  taken — everything an Iter, a read-only Txn, a Txn.Snapshot or a request being served can reach — are bit-for-bit the
  same after any later sequence of writes, snapshots, commits and aborts, including transactions that overflow the
  writable-node cache (the LRU only ever holds private cells, whatever it evicts) and the single-operation helpers that
  do not cache at all.
-/
namespace Fox.C03
open Fox Fox.Heap

/-- invariant of a transaction: the LRU only holds cells allocated since the last snapshot -/
def Inv (st : St) : Prop := st.frozen ≤ st.heap.length ∧ ∀ w ∈ st.writable, st.frozen ≤ w

def Private (st : St) (q : Option Nat) : Prop := ∀ x, q = some x → st.frozen ≤ x

theorem take_set_ge {α} (l : List α) (i n : Nat) (x : α) (h : n ≤ i) : (l.set i x).take n = l.take n := by
  induction l generalizing i n with
  | nil => simp
  | cons a as ih =>
    cases n with
    | zero => simp
    | succ n =>
      cases i with
      | zero => omega
      | succ i => simp [List.set, ih i n (by omega)]

theorem setChild_length (heap : List Cell) (p idx child : Nat) : (setChild heap p idx child).length = heap.length := by
  unfold setChild; split <;> simp

theorem setChild_take (heap : List Cell) (p idx child n : Nat) (h : n ≤ p) :
    (setChild heap p idx child).take n = heap.take n := by
  unfold setChild
  split
  · exact take_set_ge _ _ _ _ h
  · rfl

theorem take_append_le {α} (l : List α) (x : α) (n : Nat) (h : n ≤ l.length) : (l ++ [x]).take n = l.take n := by
  rw [List.take_append_of_le_length h]

theorem addWritable_heap (st : St) (id : Nat) : (addWritable st id).heap = st.heap ∧ (addWritable st id).frozen = st.frozen := by
  unfold addWritable; split <;> simp

theorem addWritable_inv {st : St} (h : Inv st) {id : Nat} (hid : st.frozen ≤ id) : Inv (addWritable st id) := by
  unfold addWritable
  split
  · refine ⟨h.1, ?_⟩
    intro w hw
    have := List.mem_of_mem_take hw
    simp only [List.mem_cons] at this
    rcases this with rfl | h'
    · exact hid
    · exact h.2 w h'
  · exact h

theorem cloneOf_spec (st : St) (current : Nat) (h : Inv st) :
    Inv (cloneOf st current).1 ∧ (cloneOf st current).1.frozen = st.frozen ∧
    (cloneOf st current).1.heap.take st.frozen = st.heap.take st.frozen ∧ st.frozen ≤ (cloneOf st current).2 := by
  have hfresh : st.frozen ≤ st.heap.length := h.1
  have hInvA : Inv (alloc st (st.heap.getD current default)).1 := by
    refine ⟨?_, h.2⟩
    simp only [alloc, List.length_append, List.length_singleton]; exact Nat.le_succ_of_le hfresh
  have hB := addWritable_heap (alloc st (st.heap.getD current default)).1 st.heap.length
  refine ⟨addWritable_inv hInvA (by simpa [alloc] using hfresh), ?_, ?_, hfresh⟩
  · show (addWritable (alloc st (st.heap.getD current default)).1 st.heap.length).frozen = st.frozen
    rw [hB.2]; rfl
  · show (addWritable (alloc st (st.heap.getD current default)).1 st.heap.length).heap.take st.frozen = _
    rw [hB.1]
    exact take_append_le _ _ _ hfresh

theorem link_spec (m : Bytes) (st : St) (par : Option Nat) (pslot cp : Nat) (writes : List Nat)
    (h : Inv st) (hp : Private st par) (hw : ∀ w ∈ writes, st.frozen ≤ w) :
    Inv (link m st par pslot cp writes).1 ∧ (link m st par pslot cp writes).1.frozen = st.frozen ∧
    (link m st par pslot cp writes).1.heap.take st.frozen = st.heap.take st.frozen ∧
    (∀ w ∈ (link m st par pslot cp writes).2, st.frozen ≤ w) := by
  unfold link
  cases par with
  | none => exact ⟨h, rfl, rfl, hw⟩
  | some q =>
    have hq : st.frozen ≤ q := hp q rfl
    refine ⟨⟨?_, h.2⟩, rfl, setChild_take _ _ _ _ _ hq, ?_⟩
    · show st.frozen ≤ (setChild st.heap q pslot cp).length
      rw [setChild_length]; exact h.1
    · intro w hw'
      simp only [List.mem_cons] at hw'
      rcases hw' with rfl | h'
      · exact hq
      · exact hw w h'

/-- one visit: the clone is fresh, it is linked into a private parent, the frozen part is untouched -/
theorem visit_spec (m : Bytes) (st : St) (current pslot : Nat) (par : Option Nat) (writes : List Nat)
    (h : Inv st) (hp : Private st par) (hw : ∀ w ∈ writes, st.frozen ≤ w) :
    Inv (visit m st current pslot par writes).1 ∧
    (visit m st current pslot par writes).1.frozen = st.frozen ∧
    (visit m st current pslot par writes).1.heap.take st.frozen = st.heap.take st.frozen ∧
    st.frozen ≤ (visit m st current pslot par writes).2.1 ∧
    (∀ w ∈ (visit m st current pslot par writes).2.2, st.frozen ≤ w) := by
  unfold visit
  by_cases hc : st.writable.contains current = true
  · rw [if_pos hc]
    have hmem : current ∈ st.writable := by simpa using hc
    refine ⟨⟨h.1, ?_⟩, rfl, rfl, h.2 current hmem, hw⟩
    intro w hw2
    simp only [List.mem_cons, List.mem_filter] at hw2
    rcases hw2 with rfl | hw2
    · exact h.2 _ hmem
    · exact h.2 w hw2.1
  · rw [if_neg hc]
    obtain ⟨ci, cf, ct, cp⟩ := cloneOf_spec st current h
    have hp' : Private (cloneOf st current).1 par := by intro x hx; rw [cf]; exact hp x hx
    have hw' : ∀ w ∈ writes, (cloneOf st current).1.frozen ≤ w := by intro w hw2; rw [cf]; exact hw w hw2
    obtain ⟨li, lf, lt, lw⟩ := link_spec m (cloneOf st current).1 par pslot (cloneOf st current).2 writes ci hp' hw'
    refine ⟨li, by rw [lf, cf], ?_, cp, ?_⟩
    · rw [cf] at lt; rw [lt, ct]
    · intro w hw2; rw [← cf]; exact lw w hw2

/-- **the copy-on-write search never writes a frozen cell**, whatever the tree, the path, the state of the LRU (also
    when it overflows and evicts) and with or without caching; the parents `p`, `pp`, `ppp` it returns are private. -/
theorem cow_spec (fuel : Nat) (m : Bytes) : ∀ (st : St) (current pslot : Nat) (p pp ppp : Option Nat) (path : List Tok)
    (writes : List Nat), Inv st → Private st p → Private st pp → Private st ppp → (∀ w ∈ writes, st.frozen ≤ w) →
    Inv (cow fuel m st current pslot p pp ppp path writes).1 ∧
    (cow fuel m st current pslot p pp ppp path writes).1.frozen = st.frozen ∧
    (cow fuel m st current pslot p pp ppp path writes).1.heap.take st.frozen = st.heap.take st.frozen ∧
    Private st (cow fuel m st current pslot p pp ppp path writes).2.p ∧
    Private st (cow fuel m st current pslot p pp ppp path writes).2.pp ∧
    Private st (cow fuel m st current pslot p pp ppp path writes).2.ppp ∧
    (∀ w ∈ (cow fuel m st current pslot p pp ppp path writes).2.writes, st.frozen ≤ w) := by
  induction fuel with
  | zero =>
    intro st current pslot p pp ppp path writes h hp hpp hppp hw
    exact ⟨h, rfl, rfl, hp, hpp, hppp, hw⟩
  | succ fuel ih =>
    intro st current pslot p pp ppp path writes h hp hpp hppp hw
    unfold cow
    cases path with
    | nil => exact ⟨h, rfl, rfl, hp, hpp, hppp, hw⟩
    | cons t ts =>
      simp only
      cases hg : getEdge st.heap current (Model.firstByte [t]) with
      | none => exact ⟨h, rfl, rfl, hp, hpp, hppp, hw⟩
      | some sn =>
        obtain ⟨slot, next⟩ := sn
        simp only
        obtain ⟨hi, hf, ht, hp1, hw1⟩ := visit_spec m st current pslot p writes h hp hw
        generalize hk : matchLen ((Option.map (fun x => x.key) (visit m st current pslot p writes).1.heap[next]?).getD [])
          (t :: ts) = k
        split
        · refine ⟨hi, hf, ht, ?_, hp, hpp, hw1⟩
          intro x hx; injection hx with hx; rw [← hx]; exact hp1
        · have hPriv : ∀ q, Private st q → Private (visit m st current pslot p writes).1 q := by
            intro q hq x hx; rw [hf]; exact hq x hx
          have := ih (visit m st current pslot p writes).1 next slot (some (visit m st current pslot p writes).2.1) p pp
            ((t :: ts).drop k)
            (visit m st current pslot p writes).2.2 hi
            (by intro x hx; injection hx with hx; rw [← hx, hf]; exact hp1)
            (hPriv p hp) (hPriv pp hpp) (by intro w hw'; rw [hf]; exact hw1 w hw')
          rw [hf] at this
          obtain ⟨a, b, c, d, e, f, g⟩ := this
          have back : ∀ q, Private (visit m st current pslot p writes).1 q → Private st q := by
            intro q hq x hx; rw [← hf]; exact hq x hx
          refine ⟨a, b, ?_, back _ d, back _ e, back _ f, g⟩
          rw [← ht, ← c]


/-- what the write sites of insert / update / remove are allowed to do after a search that returned `f`, `base` being
    the heap size before the operation: overwrite a child slot of `p`, `pp`, `ppp` or of a node built by this very
    operation; remember a node built by this operation as writable; allocate; install a new roots slice -/
def allowed (f : Found) (base : Nat) : Mut → Bool
  | .updateEdge t _ _ => f.p == some t || f.pp == some t || f.ppp == some t || decide (base ≤ t)
  | .addWritable id => decide (base ≤ id)
  | _ => true

def applyMuts (f : Found) (base : Nat) (st : St) (muts : List Mut) : St :=
  muts.foldl (fun s mu => if allowed f base mu then applyMut s mu else s) st

/-- one step of a transaction's life -/
inductive Step where
  /-- Handle / Update / Delete through the transaction: copy-on-write search from the root cell, then the writes -/
  | write (m : Bytes) (root : Nat) (path : List Tok) (muts : List Mut)
  /-- Truncate: only a new roots slice and new empty root cells -/
  | truncate (cells : List Cell) (rs : List (Bytes × Nat))
  /-- Iter / Snapshot / Commit / a new transaction: everything allocated so far may now be shared -/
  | freeze

def runStep (st : St) : Step → St
  | .write m root path muts =>
    let r := cow (path.length + 1) m st root 0 none none none path []
    applyMuts r.2 st.heap.length r.1 muts
  | .truncate cells rs => { cells.foldl (fun s c => (alloc s c).1) st with roots := rs }
  | .freeze => freeze st

def run (st : St) (steps : List Step) : St := steps.foldl runStep st

theorem applyMut_spec (f : Found) (base : Nat) (st : St) (mu : Mut) (fz : Nat) (hfz : st.frozen = fz) (h : Inv st)
    (hp : ∀ x, f.p = some x → fz ≤ x) (hpp : ∀ x, f.pp = some x → fz ≤ x) (hppp : ∀ x, f.ppp = some x → fz ≤ x)
    (hb : fz ≤ base) (ha : allowed f base mu = true) :
    Inv (applyMut st mu) ∧ (applyMut st mu).frozen = fz ∧ (applyMut st mu).heap.take fz = st.heap.take fz := by
  subst hfz
  cases mu with
  | allocNode c =>
    refine ⟨⟨?_, h.2⟩, rfl, take_append_le _ _ _ h.1⟩
    simp only [applyMut, alloc, List.length_append, List.length_singleton]; exact Nat.le_succ_of_le h.1
  | updateEdge t s c =>
    have ht : st.frozen ≤ t := by
      simp only [allowed, Bool.or_eq_true, beq_iff_eq, decide_eq_true_eq] at ha
      rcases ha with ((h1 | h1) | h1) | h1
      · exact hp t h1
      · exact hpp t h1
      · exact hppp t h1
      · exact Nat.le_trans hb h1
    refine ⟨⟨?_, h.2⟩, rfl, setChild_take _ _ _ _ _ ht⟩
    show st.frozen ≤ (setChild st.heap t s c).length
    rw [setChild_length]; exact h.1
  | newRoots rs => exact ⟨h, rfl, rfl⟩
  | addWritable id =>
    have hid : st.frozen ≤ id := by
      simp only [allowed, decide_eq_true_eq] at ha
      exact Nat.le_trans hb ha
    have := addWritable_heap st id
    exact ⟨addWritable_inv h hid, this.2, by rw [show (applyMut st (Mut.addWritable id)).heap = st.heap from this.1]⟩

theorem applyMuts_spec (f : Found) (base : Nat) (fz : Nat) (muts : List Mut) :
    ∀ (st : St), st.frozen = fz → Inv st →
    (∀ x, f.p = some x → fz ≤ x) → (∀ x, f.pp = some x → fz ≤ x) → (∀ x, f.ppp = some x → fz ≤ x) → fz ≤ base →
    Inv (applyMuts f base st muts) ∧ (applyMuts f base st muts).frozen = fz ∧
      (applyMuts f base st muts).heap.take fz = st.heap.take fz := by
  induction muts with
  | nil => intro st hfz h _ _ _ _; exact ⟨h, hfz, rfl⟩
  | cons mu rest ih =>
    intro st hfz h hp hpp hppp hb
    simp only [applyMuts, List.foldl_cons]
    by_cases ha : allowed f base mu = true
    · simp only [ha, if_true]
      obtain ⟨i1, f1, t1⟩ := applyMut_spec f base st mu fz hfz h hp hpp hppp hb ha
      obtain ⟨i2, f2, t2⟩ := ih (applyMut st mu) f1 i1 hp hpp hppp hb
      exact ⟨i2, f2, by rw [← t1]; exact t2⟩
    · simp only [ha, Bool.false_eq_true, if_false]
      exact ih st hfz h hp hpp hppp hb

theorem allocs_spec (cells : List Cell) : ∀ (st : St), Inv st →
    Inv (cells.foldl (fun s c => (alloc s c).1) st) ∧ (cells.foldl (fun s c => (alloc s c).1) st).frozen = st.frozen ∧
    (cells.foldl (fun s c => (alloc s c).1) st).heap.take st.frozen = st.heap.take st.frozen := by
  induction cells with
  | nil => intro st h; exact ⟨h, rfl, rfl⟩
  | cons c cs ih =>
    intro st h
    simp only [List.foldl_cons]
    have h1 : Inv (alloc st c).1 := by
      refine ⟨?_, h.2⟩
      simp only [alloc, List.length_append, List.length_singleton]; exact Nat.le_succ_of_le h.1
    obtain ⟨a, b, c'⟩ := ih (alloc st c).1 h1
    refine ⟨a, b, ?_⟩
    have : (alloc st c).1.frozen = st.frozen := rfl
    rw [this] at c'
    rw [c']
    exact take_append_le _ _ _ h.1

/-- one step never changes a frozen cell, keeps the invariant and never lowers the frozen mark -/
theorem runStep_spec (st : St) (step : Step) (h : Inv st) :
    Inv (runStep st step) ∧ st.frozen ≤ (runStep st step).frozen ∧
    (runStep st step).heap.take st.frozen = st.heap.take st.frozen := by
  cases step with
  | write m root path muts =>
    simp only [runStep]
    obtain ⟨ci, cf, ct, cp, cpp, cppp, _⟩ := cow_spec (path.length + 1) m st root 0 none none none path [] h
      (by intro x hx; cases hx) (by intro x hx; cases hx) (by intro x hx; cases hx) (by intro w hw; cases hw)
    obtain ⟨a, b, c⟩ := applyMuts_spec (cow (path.length + 1) m st root 0 none none none path []).2 st.heap.length
      st.frozen muts (cow (path.length + 1) m st root 0 none none none path []).1 cf ci cp cpp cppp h.1
    exact ⟨a, by rw [b]; exact Nat.le_refl _, by rw [c, ct]⟩
  | truncate cells rs =>
    simp only [runStep]
    obtain ⟨a, b, c⟩ := allocs_spec cells st h
    exact ⟨⟨a.1, a.2⟩, by show st.frozen ≤ (List.foldl (fun s c => (alloc s c).1) st cells).frozen; rw [b]; exact Nat.le_refl _, c⟩
  | freeze =>
    refine ⟨⟨Nat.le_refl _, by intro w hw; cases hw⟩, h.1, rfl⟩

/-- **frozen cells are stable under any continuation of the transaction's life** -/
theorem frozen_stable (steps : List Step) : ∀ (st : St), Inv st →
    Inv (run st steps) ∧ st.frozen ≤ (run st steps).frozen ∧ (run st steps).heap.take st.frozen = st.heap.take st.frozen := by
  induction steps with
  | nil => intro st h; exact ⟨h, Nat.le_refl _, rfl⟩
  | cons s rest ih =>
    intro st h
    simp only [run, List.foldl_cons]
    obtain ⟨i1, f1, t1⟩ := runStep_spec st s h
    obtain ⟨i2, f2, t2⟩ := ih (runStep st s) i1
    refine ⟨i2, Nat.le_trans f1 f2, ?_⟩
    have := congrArg (List.take st.frozen) t2
    simp only [List.take_take, Nat.min_eq_left f1] at this
    rw [← t1]; exact this

/-- **C03: a snapshot is frozen.** Whatever an Iter, a read-only Txn, a Txn.Snapshot, a committed tree or a request
    being served can reach is the heap as it was when the snapshot was taken; after any later sequence of writes
    (with any search paths, any LRU capacity incl. 0 and overflow, cached or not), truncations, further snapshots,
    commits and aborts, every one of those cells is unchanged. -/
theorem snapshot_stable (st : St) (h : Inv st) (steps : List Step) :
    (run (freeze st) steps).heap.take st.heap.length = st.heap := by
  have hi : Inv (freeze st) := ⟨Nat.le_refl _, by intro w hw; cases hw⟩
  have := (frozen_stable steps (freeze st) hi).2.2
  simpa [freeze] using this

/-- writes after a snapshot do not depend on the snapshot having been taken in any way other than the private set being
    reset: taking it changes neither the heap nor the roots -/
theorem freeze_is_transparent (st : St) : (freeze st).heap = st.heap ∧ (freeze st).roots = st.roots := ⟨rfl, rfl⟩

/-- **tie to the Go sources** (regenerated on every run). Every write site of tree.go / node.go / txn.go / iter.go and of
    `newTree` is recorded by the *origin* of the node written to - followed through local variables and through the
    parameters of helper functions to their call sites, so that the names of functions and variables do not matter:
    the only in-place write of a child slot is `updateEdge` (assigning `children[id]` of its receiver); outside the
    copy-on-write search (modelled statement by statement: `cow`, where it is called on `pp` with the clone `cp`) it is
    called only on the nodes of the cloned search path (`result.p` / `.pp` / `.ppp` of copyOnWriteSearch) - exactly the
    targets `allowed` permits - and links in only nodes built in the same transaction; every other assignment to a node
    field initialises a node that was just built (`newNode`, `newNodeFromRef`, `new(node)`); only the clones of the
    search and freshly built nodes are added to the writable cache; every slice of nodes that is mutated in place (index
    assignment, shifting `append`, `clear`, `copy` into, `slices.SortFunc` in `newNode` - followed through locals, append
    chains, helper parameters and helper results) was made by the same step (`make`, a literal, `getEdges`), never a
    re-slice of or an append onto `t.root` / a node's `children`; snapshot, clone and commit reset the cache. A write site
    of any other origin anywhere (a node of the published tree, `result.matched`, an unknown expression) breaks this
    theorem. -/
theorem writes_tie :
    Generated.updateEdgeReceivers = ["cow|pp", "searched.p", "searched.pp", "searched.ppp"] ∧
    Generated.updateEdgeArgs = ["built", "cow|cp"] ∧
    Generated.nodeFieldAssignsNotBuilt = ["updateEdge-receiver.children[]"] ∧
    Generated.writableAdds = ["built", "clone"] ∧
    Generated.sliceMutations = ["made"] ∧
    Generated.writableResets = ["tXn.clone", "tXn.commit", "tXn.snapshot"] := by
  decide

/-! ### non-vacuity: a concrete transaction that clones a path, links the clones in place and overflows a 1-slot LRU -/
section Example
def c (k : List Tok) (cs : List Nat) : Cell := ⟨k, none, cs⟩
/-- root(0) → "/a"(1) → "/b"(2) -/
def st0 : St := { heap := [c [] [1], c [.lit 47, .lit 97] [2], c [.lit 47, .lit 98] []], frozen := 3, writable := [],
                  roots := [([71, 69, 84], 0)], cap := 1 }
example : Inv st0 := ⟨by decide, by intro w hw; cases hw⟩
-- the search for /a/b/c clones the root and "/a" (cells 3 and 4), links 4 into 3 in place, and leaves cells 0-2 alone
example : (cow 10 [71, 69, 84] st0 0 0 none none none [.lit 47, .lit 97, .lit 47, .lit 98, .lit 47, .lit 99] []).2.writes = [3]
  := by decide
example : ((cow 10 [71, 69, 84] st0 0 0 none none none [.lit 47, .lit 97, .lit 47, .lit 98, .lit 47, .lit 99] []).1.heap.take 3
  == st0.heap) = true := by decide
end Example

end Fox.C03
