import FoxModel.Lemmas.LRU
import FoxModel.Lemmas.LRURing
import FoxModel.Model.Heap
/-
  Property C03 — the writable-node cache of a write transaction (internal/simplelru).

  `copyOnWriteSearch` writes a node in place when `t.writable.Get(node)` says the transaction owns it, and clones it
  otherwise. The heap model of C03 (Model/Heap) carries that cache as the list `writable`; here the cache itself is
  modelled (Model/LRU: every exported operation of lru.go on a recency list) and the one fact C03 needs of it is a
  theorem: **a "present" answer only ever names a key that was added since the cache was created or purged** - for every
  sequence of operations and every capacity. Also: the keys stay distinct and within the capacity, an `Add` beyond the
  capacity evicts exactly the least recently used entry, and the `writable` list of the heap model is this cache.

  Tie to the code: stream `lru` drives the real cache through hook `VerifLRURun` (random operation sequences at small
  capacities; Add / Get sequences of a transaction at the real capacity, well past it) against `Model/LRU.run`; stream
  `bulk` runs single transactions that clone more nodes than the cache holds.
-/
namespace Fox.C03.Cache
open Fox Fox.LRU

/-- **No false "present".** After any operations on a fresh cache, every key it holds was added since the last purge. -/
theorem present_only_if_added (cap : Nat) (ops : List Op) :
    ∀ k ∈ (run (empty cap) ops).1.keysMRU, k ∈ added ops :=
  run_keys_added ops (empty cap) [] (by simp [empty, LRU.keysMRU])

/-- the same for the answers: `Get`, `Contains` and `Peek` report "present" only for such keys -/
theorem answers_sound (cap : Nat) (ops : List Op) (k : Nat) :
    (((run (empty cap) ops).1.get k).2.isSome = true → k ∈ added ops) ∧
    ((run (empty cap) ops).1.contains k = true → k ∈ added ops) ∧
    (((run (empty cap) ops).1.peek k).isSome = true → k ∈ added ops) := by
  have h := present_only_if_added cap ops
  refine ⟨?_, ?_, ?_⟩
  · intro hg
    apply h
    apply (peek_some_iff _ k).mp
    unfold LRU.get at hg
    cases hp : (run (empty cap) ops).1.peek k with
    | none => rw [hp] at hg; simp at hg
    | some v => rfl
  · intro hc; exact h k ((contains_iff _ k).mp hc)
  · intro hp; exact h k ((peek_some_iff _ k).mp hp)

/-- **Bounded, without duplicates**, after any operations -/
theorem bounded (cap : Nat) (ops : List Op) :
    (run (empty cap) ops).1.keysMRU.Nodup ∧ (run (empty cap) ops).1.len ≤ (run (empty cap) ops).1.cap :=
  run_inv ops (empty cap) (inv_empty cap)

/-- **Eviction order**: adding a new key to a full cache drops exactly the least recently used entry -/
theorem add_evicts_least_recent (c : LRU) (k v : Nat) (hk : c.contains k = false) (hfull : c.len = c.cap) :
    (c.add k v).2 = true ∧ (c.add k v).1.items = ((k, v) :: c.items).dropLast := by
  unfold LRU.add
  simp only [hk, Bool.false_eq_true, if_false]
  have : c.cap < c.items.length + 1 := by simp [LRU.len] at hfull; omega
  simp only [List.length_cons, gt_iff_lt, this, if_true, and_self]

/-- a `Get` hit makes the entry the most recently used and changes nothing else -/
theorem get_moves_to_front (c : LRU) (k v : Nat) (h : c.peek k = some v) :
    (c.get k).1.items = (k, v) :: without c.items k ∧ (c.get k).2 = some v := by
  unfold LRU.get; rw [h]; exact ⟨rfl, rfl⟩

/-- **the `writable` list of the heap model (Model/Heap.addWritable) is this cache**: remembering a freshly cloned node -/
theorem heap_writable_is_cache (c : LRU) (id v : Nat) (hnew : c.contains id = false) (hlen : c.len ≤ c.cap) :
    (c.add id v).1.keysMRU = (id :: c.keysMRU).take c.cap := by
  unfold LRU.add
  simp only [hnew, Bool.false_eq_true, if_false]
  simp only [LRU.len] at hlen
  split
  · rename_i hgt
    simp only [List.length_cons] at hgt
    have hl : c.items.length = c.cap := by omega
    simp only [LRU.keysMRU, List.map_dropLast, List.map_cons]
    rw [List.dropLast_eq_take]
    simp [hl]
  · rename_i hle
    simp only [List.length_cons] at hle
    simp only [LRU.keysMRU, List.map_cons]
    rw [List.take_of_length_le]
    simp; omega

/-- **a hit in `copyOnWriteSearch` (Model/Heap.visit)**: the key list of the cache after `Get` of a key it holds is the
    key in front of the others - what the heap model does with its `writable` list -/
theorem heap_visit_is_cache_get (c : LRU) (k : Nat) (h : c.contains k = true) :
    (c.get k).1.keysMRU = k :: c.keysMRU.filter (· != k) ∧ (c.get k).2.isSome = true := by
  have hk := (contains_iff c k).mp h
  have hp : (c.peek k).isSome = true := (peek_some_iff c k).mpr hk
  unfold LRU.get
  cases hv : c.peek k with
  | none => rw [hv] at hp; simp at hp
  | some v => simp only [LRU.keysMRU, List.map_cons, keys_without, Option.isSome_some, and_self]

/-! ### the pointer structure of list.go

  `Model/LRURing` is list.go statement by statement: a ring of entries with `next` / `prev` pointers that may be nil and
  a sentinel, `insert` / `Remove` / `move` / `MoveToFront` / `PushFront` / `Back`, and `LRU.Add` / `LRU.Get` of lru.go on
  top of them with the `items` map. Reading a nil pointer makes an operation fail. -/

/-- **`LRU.Get` on the ring** is `get` of the list model, and keeps the ring well formed -/
theorem ring_get {r : Ring.Ring} {order : List Nat} (h : Ring.Inv r order) (k : Nat) :
    ∃ r' order', Ring.get r k = some (r', ((Ring.absOf r order).get k).2) ∧ Ring.Inv r' order' ∧
      Ring.absOf r' order' = ((Ring.absOf r order).get k).1 :=
  Ring.get_refines h k

/-- **`LRU.Add` on the ring** is `add` of the list model (an existing key is moved to the front by pointer surgery; a new
    entry is linked in after the sentinel and, beyond the capacity, `Back()` is unlinked and its key deleted) -/
theorem ring_add {r : Ring.Ring} {order : List Nat} (h : Ring.Inv r order) (k v : Nat) :
    ∃ r' order', Ring.add r k v = some (r', ((Ring.absOf r order).add k v).2) ∧ Ring.Inv r' order' ∧
      Ring.absOf r' order' = ((Ring.absOf r order).add k v).1 :=
  Ring.add_refines h k v

/-- **Any Add / Get traffic of a transaction**, of any length and at any capacity, on a fresh cache: the pointer
    structure never dereferences nil, stays a well-formed ring, answers exactly as the list model does and holds what the
    list model holds -/
theorem ring_never_fails_and_is_the_list (cap : Nat) (ops : List Ring.TOp) :
    ∃ r' order', Ring.run (Ring.new cap) ops = some (r', (run (empty cap) (ops.map Ring.TOp.toOp)).2) ∧
      Ring.Inv r' order' ∧ Ring.absOf r' order' = (run (empty cap) (ops.map Ring.TOp.toOp)).1 := by
  have := Ring.run_refines ops (Ring.inv_new cap)
  rwa [Ring.abs_new] at this

/-- hence a `Get` hit on the real structure names a key that was added: the two layers composed -/
theorem ring_present_only_if_added (cap : Nat) (ops : List Ring.TOp) (k : Nat) :
    ∃ r', Ring.run (Ring.new cap) ops = some (r', (run (empty cap) (ops.map Ring.TOp.toOp)).2) ∧
      ∀ r'' out, Ring.get r' k = some (r'', some out) → k ∈ added (ops.map Ring.TOp.toOp) := by
  obtain ⟨r', order', hrun, hinv, habs⟩ := ring_never_fails_and_is_the_list cap ops
  refine ⟨r', hrun, ?_⟩
  intro r'' out hg
  obtain ⟨r2, o2, hg2, _, _⟩ := Ring.get_refines hinv k
  rw [hg2] at hg
  simp only [Option.some.injEq, Prod.mk.injEq] at hg
  have hsome : ((Ring.absOf r' order').get k).2.isSome = true := by rw [hg.2]; rfl
  rw [habs] at hsome
  exact (answers_sound cap (ops.map Ring.TOp.toOp) k).1 hsome

/-! ### examples -/

example : (run (empty 2) [.add 1 10, .add 2 20, .get 1, .add 3 30, .contains 2, .keys]).2 =
    [.bool false, .bool false, .val (some 10), .bool true, .bool false, .list [1, 3]] := by decide
example : added [.add 1 10, .purge, .add 2 20, .get 1] = [2] := by decide

/-- the ring model computes: three adds into a cache of two, a hit, the contents read off the pointers -/
example : ((Ring.run (Ring.new 2) [.add 1 10, .add 2 20, .get 1, .add 3 30, .get 2]).map (·.2)) =
    some [.bool false, .bool false, .val (some 10), .bool true, .val none] := by decide
example : ((Ring.run (Ring.new 2) [.add 1 10, .add 2 20, .get 1, .add 3 30]).bind fun p => Ring.contents p.1) =
    some [(3, 30), (1, 10)] := by decide

end Fox.C03.Cache
