import FoxModel.Lemmas.Router
import FoxModel.Lemmas.Proto
/-
  Property C04 — transactions are atomic and isolated.
  Sequential part over `Fox.Model.Router` (the transaction machine that follows txn.go / fox.go), concurrent-reader
  part over `Fox.Model.Proto`, code-shape part by `decide` over `Generated/SyncOrder.lean`.
-/
namespace Fox.C04
open Fox Fox.Model Fox.Model.Router

/-! ### guards -/

/-- A committed or aborted write transaction refuses further use: every write and read method panics with
    ErrSettledTxn (and changes nothing), Iter panics, Snapshot returns nil, Commit and Abort are no-ops. -/
theorem guards_settled {s : State} {t : TxnId} {x : TxnSt} (hf : s.find t = some x) (hs : x.settled = true)
    (w : WOp) (q : ROp) :
    txnWrite s t w = (s, .panicSettled) ∧ txnRead s t q = (s, .panicSettled) ∧ iter s t = (s, .panicSettled) ∧
    snapshot s t = (s, .nilSnap) ∧ commit s t = (s, .done) ∧ abort s t = (s, .done) := by
  refine ⟨?_, ?_, ?_, ?_, ?_, ?_⟩ <;> simp [txnWrite, txnRead, iter, snapshot, commit, abort, hf, hs]

/-- Writing through a read-only transaction returns ErrReadOnlyTxn and has no effect at all; its Commit and Abort
    are no-ops (so it never touches the writer lock or the published tree). -/
theorem guards_readonly {s : State} {t : TxnId} {x : TxnSt} (hf : s.find t = some x) (hs : x.settled = false)
    (hw : x.write = false) (w : WOp) :
    txnWrite s t w = (s, .readOnly) ∧ commit s t = (s, .done) ∧ abort s t = (s, .done) := by
  refine ⟨?_, ?_, ?_⟩ <;> simp [txnWrite, commit, abort, hf, hs, hw]

/-! ### isolation -/

/-- While a write transaction is open, what it writes is invisible to the router: after any sequence of writes
    through it the published tree — hence the result of every router-level read — is what it was before the
    transaction began; and reads through the transaction see exactly its own writes applied to the state it started from. -/
theorem isolated (s : State) (hmu : s.mu = none) (ws : List WOp) (q : ROp) :
    let s1 := (begin s true).1
    let s2 := (runBody s1 s.next (ws.map .w)).1
    s2.published = s.published ∧ (rread s2 q).2 = (rread s q).2 ∧
    (txnRead s2 s.next q).2 = .v (readT (applyWs s.published ws) q) := by
  intro s1 s2
  have hf : s1.find s.next = some ⟨s.next, true, false, s.published⟩ := by
    simp [s1, begin, hmu, State.find]
  obtain ⟨a, b, _⟩ := runBody_writes hf ws
  have hp : s2.published = s.published := by
    rw [show s2.published = s1.published from b]; simp [s1, begin, hmu]
  refine ⟨hp, ?_, ?_⟩
  · simp [rread, hp]
  · simp only [txnRead]; rw [show s2.find s.next = _ from a]; rfl

/-- No operation of a transaction other than Commit changes the published tree (writes, reads, snapshots, iterators,
    Abort — on any transaction in any state). -/
theorem only_commit_publishes (s : State) (t : TxnId) (b : BOp) (hb : b ≠ .commit) :
    (bodyStep s t b).1.published = s.published := bodyStep_published s t b hb

/-! ### commit -/

/-- Commit of an open write transaction replaces the published tree by the transaction's private tree in one step,
    settles the transaction and releases the lock. There is no intermediate published state. -/
theorem commit_atomic {s : State} {t : TxnId} {x : TxnSt} (hf : s.find t = some x) (hw : x.write = true)
    (hs : x.settled = false) :
    (commit s t).1.published = x.tree ∧ (commit s t).1.mu = none ∧
    (commit s t).1.find t = some { x with settled := true } := by
  rw [commit_open hf hs hw]
  exact ⟨rfl, rfl, find_set (x := { x with settled := true }) (y := x) hf (find_id hf : x.id = t)⟩

/-- A managed write transaction whose function returns nil publishes exactly the private tree its writes produced. -/
theorem updates_commit (s : State) (hmu : s.mu = none) (ws : List WOp) :
    (updates s (ws.map .w) .ok).1.published = applyWs s.published ws := by
  obtain ⟨a, _, _⟩ := runBody_writes (afterBegin_find s) ws
  simp only [updates, begin_write_free hmu, effBody, finishUpdates]
  rw [abort_published, commit_open a rfl rfl]

/-- single-operation helpers (Router.Handle / Update / Delete …) are all-or-nothing one-operation transactions: the
    published tree becomes the result of the operation on the published tree (unchanged on an error), the lock is free
    afterwards. -/
theorem helper_atomic (s : State) (hmu : s.mu = none) (w : WOp) :
    (helper s w).1.published = (applyW s.published w).1 ∧ (helper s w).1.mu = none ∧
    (helper s w).2 = .w (applyW s.published w).2 := by
  have hf := afterBegin_find s
  have hw := txnWrite_open hf rfl rfl w
  have hf2 := find_set (x := ⟨s.next, true, false, (applyW s.published w).1⟩) hf rfl
  simp only [helper, begin_write_free hmu, hw]
  cases hr : (applyW s.published w).2.isErr
  · -- success: Commit, then the deferred Abort is a no-op
    simp only [Bool.false_eq_true, ↓reduceIte]
    rw [commit_open hf2 rfl rfl]
    have hf3 := find_set (x := ⟨s.next, true, true, (applyW s.published w).1⟩) hf2 rfl
    rw [abort_settled (x := ⟨s.next, true, true, (applyW s.published w).1⟩) (by simpa [State.find] using hf3) rfl]
    exact ⟨rfl, rfl, trivial⟩
  · simp only [↓reduceIte]
    rw [abort_open hf2 rfl rfl]
    exact ⟨(applyW_err _ _ hr).symm, rfl, trivial⟩

/-! ### abort, error, panic -/

/-- If the function given to Updates returns an error, or panics or terminates its goroutine (runtime.Goexit) after ANY number k of its operations (and does not
    itself call Commit), none of its writes is ever published: the published tree after Updates is the one before. -/
theorem abort_invisible (s : State) (body : List BOp) (hb : BOp.commit ∉ body) (e : Ending) (he : e ≠ .ok) :
    (updates s body e).1.published = s.published := by
  simp only [updates]
  cases hmu : s.mu with
  | some j => simp [begin, hmu]
  | none =>
    simp only [begin_write_free hmu]
    have heff : BOp.commit ∉ effBody body e := by
      cases e with
      | panicAt k => exact fun h => hb (List.mem_of_mem_take h)
      | goexitAt k => exact fun h => hb (List.mem_of_mem_take h)
      | ok => exact hb
      | err => exact hb
    cases e with
    | ok => exact absurd rfl he
    | err => simp only [finishUpdates]; rw [abort_published, runBody_published _ _ _ heff]; rfl
    | panicAt k => simp only [finishUpdates]; rw [abort_published, runBody_published _ _ _ heff]; rfl
    | goexitAt k => simp only [finishUpdates]; rw [abort_published, runBody_published _ _ _ heff]; rfl

/-- the same for an explicit Abort of an unmanaged transaction after any operations -/
theorem explicit_abort_invisible (s : State) (t : TxnId) (body : List BOp) (hb : BOp.commit ∉ body) :
    (abort (runBody s t body).1 t).1.published = s.published := by
  rw [abort_published, runBody_published _ _ _ hb]

/-- and once settled the private tree can never be published later: Commit on a settled transaction is a no-op
    (`guards_settled`), and `abort` leaves it settled -/
theorem aborted_stays_settled {s : State} {t : TxnId} {x : TxnSt} (hf : s.find t = some x) (hw : x.write = true)
    (hs : x.settled = false) : ∃ y, (abort s t).1.find t = some y ∧ y.settled = true := by
  rw [abort_open hf hs hw]
  exact ⟨{ x with settled := true }, find_set (x := { x with settled := true }) (y := x) hf (find_id hf : x.id = t), rfl⟩

/-! ### the lock -/

/-- After Updates — whether its function returned nil, returned an error, panicked or ended its goroutine (Goexit) after any prefix, and even if it
    called Commit or Abort itself — the writer lock is free and a new write transaction can begin. -/
theorem lock_released (s : State) (hmu : s.mu = none) (body : List BOp) (e : Ending) :
    (updates s body e).1.mu = none ∧ ∃ t, (begin (updates s body e).1 true).2 = .opened t := by
  have hm : (updates s body e).1.mu = none := by
    have h0 := managed_begin s hmu
    have h1 := managed_runBody h0 (effBody body e)
    simp only [updates]
    simp only [begin_write_free hmu] at h1 ⊢
    cases e with
    | ok =>
      simp only [finishUpdates]
      exact managed_abort_mu (managed_commit_mu h1).2
    | err => simp only [finishUpdates]; exact managed_abort_mu h1
    | panicAt k => simp only [finishUpdates]; exact managed_abort_mu h1
    | goexitAt k => simp only [finishUpdates]; exact managed_abort_mu h1
  exact ⟨hm, (updates s body e).1.next, by simp [begin, hm]⟩

/-- explicit Commit / Abort of an open write transaction release the lock -/
theorem lock_released_explicit {s : State} {t : TxnId} {x : TxnSt} (hf : s.find t = some x) (hw : x.write = true)
    (hs : x.settled = false) : (commit s t).1.mu = none ∧ (abort s t).1.mu = none := by
  rw [commit_open hf hs hw, abort_open hf hs hw]; exact ⟨rfl, rfl⟩

/-- while a write transaction holds the lock a second writer (transaction, Updates, helper) would wait -/
theorem second_writer_waits (s : State) {j : TxnId} (hmu : s.mu = some j) (w : WOp) (body : List BOp) (e : Ending) :
    (begin s true) = (s, .wouldBlock) ∧ helper s w = (s, .wouldBlock) ∧ (updates s body e).2.2 = .blocked := by
  simp [begin, helper, updates, hmu]

/-! ### concurrent readers (protocol model) -/

/-- In every reachable state of the interleaving model (any threads, any schedule) the value loaded by any reader or
    writer is the initial state or the final private state of a committed transaction: the replay of a prefix of the
    commit log. No reader observes part of a transaction. -/
theorem every_read_is_committed {σ : Type} {v0 : σ} {s : Proto.State σ} (h : Proto.Reach v0 s) {i : Proto.Tid}
    {ver : Nat} {v : σ} (hs : (s.thr i).seen = some (ver, v)) :
    ∃ k, ver = ((Proto.commits s).drop k).length ∧ v = Proto.replay v0 ((Proto.commits s).drop k) :=
  (Proto.inv_reach h).seenOk i ver v hs

/-- and the published value itself is always the replay of the complete log (never a strict prefix of a transaction's writes) -/
theorem published_is_committed {σ : Type} {v0 : σ} {s : Proto.State σ} (h : Proto.Reach v0 s) :
    s.pub.2 = Proto.replay v0 (Proto.commits s) := by
  have := (Proto.inv_reach h).pubLog
  rw [this]

/-! ### the shape of the Go code (regenerated on every run) -/
open Fox.Generated

def b (s : String) : List Nat := s.toList.map Char.toNat
def pNotNil : List Nat := b "p != nil"

/-- the events of the function body proper (not of its deferred function) -/
def mainLine (l : List SyncItem) : List (SyncEv × SyncCtx × List Nat) :=
  (l.filter fun i => !(i.ctx == .deferred || i.ctx == .deferredRecovered)).map SyncItem.key

def deferredPart (l : List SyncItem) : List SyncItem := l.filter fun i => i.ctx == .deferred || i.ctx == .deferredRecovered

/-- the deferred function calls `recover()` -/
def recoversPanic (l : List SyncItem) : Bool := (deferredPart l).any (·.ev == .recover)

/-- a panic in flight: the deferred function aborts the transaction BEFORE it re-panics (an abort placed after the
    re-panic would not run) - whether the abort sits inside the `p != nil` branch or in front of it -/
def panicPathAborts (l : List SyncItem) : Bool :=
  ((deferredPart l).takeWhile (·.ev != .repanic)).any (·.ev == .deferAbort) && (deferredPart l).any (·.ev == .repanic)

/-- no panic in flight (return, error, runtime.Goexit): an abort outside the "recovered a panic" branch runs -/
def normalPathAborts (l : List SyncItem) : Bool :=
  (deferredPart l).any fun i => i.ev == .deferAbort && i.ctx == .deferred

/-- Commit: read-only guard (return), settled guard (return), THEN Store, THEN Unlock. Abort: the same guards, one Unlock.
    Updates / View: begin, a deferred function that recovers, aborts on the panic path before it re-panics and aborts on
    the normal path (stated by what runs on each path, not by the wording of the deferred function), the function, return
    on error BEFORE Commit (View never commits). Every single-operation helper: begin a write transaction,
    `defer txn.Abort()`, return on error, Commit. -/
theorem sync_shape :
    sync_Commit.map (fun i => (i.ev, i.ctx, i.guard, i.act)) =
      [(.guardReadOnly, .always, [], b "return"), (.guardSettled, .always, [], b "return"),
       (.store, .always, [], b "txn.fox.tree.Store(newRoot)"), (.unlock, .always, [], b "txn.fox.mu.Unlock")] ∧
    sync_Abort.map (fun i => (i.ev, i.ctx, i.guard, i.act)) =
      [(.guardReadOnly, .always, [], b "return"), (.guardSettled, .always, [], b "return"),
       (.unlock, .always, [], b "txn.fox.mu.Unlock")] ∧
    (mainLine sync_Updates =
      [(.beginWrite, .always, []), (.callFn, .always, []), (.errReturn, .always, []), (.callCommit, .always, [])] ∧
     recoversPanic sync_Updates = true ∧ panicPathAborts sync_Updates = true ∧ normalPathAborts sync_Updates = true) ∧
    (mainLine sync_View = [(.beginRead, .always, []), (.callFn, .always, [])] ∧
     recoversPanic sync_View = true ∧ panicPathAborts sync_View = true ∧ normalPathAborts sync_View = true) ∧
    [sync_Handle, sync_HandleRoute, sync_Update, sync_UpdateRoute, sync_Delete].all (fun f => f.map SyncItem.key ==
      [(.beginWrite, .always, []), (.deferAbort, .always, []), (.errReturn, .always, []), (.callCommit, .always, [])]) = true := by
  refine ⟨by decide, by decide, by decide, by decide, by decide⟩

/-- the first two guard events of a method -/
def prologue (evs : List SyncItem) : List (SyncEv × List Nat) :=
  ((evs.filter fun i => i.ev == .guardSettled || i.ev == .guardReadOnly).take 2).map fun i => (i.ev, i.act)

/-- Every method of Txn starts with the settled guard — a panic with ErrSettledTxn for every write and read method,
    `return nil` for Snapshot, a silent return for Commit / Abort (after their read-only guard) — and every write method
    has the read-only guard (ErrReadOnlyTxn) right after it. Removing a guard from any method breaks this theorem. -/
theorem guards_in_every_method :
    sync_txnMethods.map (fun m => (m.1, prologue m.2.2)) =
      [(b "Abort", [(.guardReadOnly, b "return"), (.guardSettled, b "return")]),
       (b "Commit", [(.guardReadOnly, b "return"), (.guardSettled, b "return")]),
       (b "Delete", [(.guardSettled, b "panic(ErrSettledTxn)"), (.guardReadOnly, b "return nil, ErrReadOnlyTxn")]),
       (b "Handle", [(.guardSettled, b "panic(ErrSettledTxn)"), (.guardReadOnly, b "return nil, ErrReadOnlyTxn")]),
       (b "HandleRoute", [(.guardSettled, b "panic(ErrSettledTxn)"), (.guardReadOnly, b "return ErrReadOnlyTxn")]),
       (b "Has", [(.guardSettled, b "panic(ErrSettledTxn)")]),
       (b "Iter", [(.guardSettled, b "panic(ErrSettledTxn)")]),
       (b "Len", [(.guardSettled, b "panic(ErrSettledTxn)")]),
       (b "Lookup", [(.guardSettled, b "panic(ErrSettledTxn)")]),
       (b "Reverse", [(.guardSettled, b "panic(ErrSettledTxn)")]),
       (b "Route", [(.guardSettled, b "panic(ErrSettledTxn)")]),
       (b "Snapshot", [(.guardSettled, b "return nil")]),
       (b "Truncate", [(.guardSettled, b "panic(ErrSettledTxn)"), (.guardReadOnly, b "return ErrReadOnlyTxn")]),
       (b "Update", [(.guardSettled, b "panic(ErrSettledTxn)"), (.guardReadOnly, b "return nil, ErrReadOnlyTxn")]),
       (b "UpdateRoute", [(.guardSettled, b "panic(ErrSettledTxn)"), (.guardReadOnly, b "return ErrReadOnlyTxn")])] ∧
    -- and the guards come first: no method has a sync event or a call before them
    sync_txnMethods.all (fun m => match m.2.2 with
      | e :: _ => e.ev == .guardSettled || e.ev == .guardReadOnly
      | [] => false) = true := by
  refine ⟨by decide, by decide⟩

/-! ### non-vacuity: concrete runs of the machine -/
section Example
def rA : Route := { hid := 1, pattern := [.lit 47, .lit 97] }
def rB : Route := { hid := 2, pattern := [.lit 47, .lit 98] }
def body2 : List BOp := [.w (.handle GET rA), .w (.handle GET rB)]
/-- committed: both routes; error / panic after one op or two ops: none -/
example : (updates {} body2 .ok).1.published.size = 2 := by decide
example : (updates {} body2 .err).1.published.size = 0 := by decide
example : (updates {} body2 (.panicAt 1)).1.published.size = 0 := by decide
example : (updates {} body2 (.panicAt 1)).2.2 = .panicked ∧ (updates {} body2 (.panicAt 1)).1.mu = none := by decide
example : (updates {} body2 (.goexitAt 1)).2.2 = .goexited ∧ (updates {} body2 (.goexitAt 1)).1.mu = none ∧
    (updates {} body2 (.goexitAt 1)).1.published.size = 0 := by decide
/-- inside the transaction its own writes are visible, outside they are not -/
example : (let s1 := (begin {} true).1
           let s2 := (runBody s1 0 body2).1
           (s2.published.size, s2.mu, (s2.find 0).map (·.tree.size))) = (0, some 0, some 2) := by decide
end Example

end Fox.C04
