import FoxModel.Lemmas.Proto
import FoxModel.Lemmas.History
import FoxModel.Lemmas.HistoryComplete
import FoxModel.Lemmas.HistoryExact
import FoxModel.Driver.Hist
/-
  Property C05 — concurrent use is linearizable (protocol model; the Go runtime part is sampled by the `conc` stream
  under the race detector). All statements are over `Fox.Model.Proto`: any number of threads, any schedule, any number
  of calls per thread, under the two assumed primitives (sync.Mutex mutual exclusion, sequentially consistent
  atomic.Pointer). The history-checker theorems are in the second half (`Fox.C05.checker_*`).
-/
namespace Fox.C05
open Fox.Model.Proto

variable {σ : Type}

/-- TIE: the order of Lock / Load / Store / Unlock in the Go sources (txnWith, Txn.Commit, Txn.Abort, getRoot — regenerated
    on every run) compiles to exactly the thread programs the theorems below are about: a writer locks BEFORE it loads
    and stores BEFORE it unlocks; a read-only transaction and a router-level read are one load. -/
theorem prog_tie :
    genCommitProg = commitProg ∧ genAbortProg = abortProg ∧ genReadTxnProg = readerProg ∧ genReadProg = readerProg := by
  decide

/-- the writer mutex and the tree pointer are used nowhere else (the only other site is `New`, before the router is shared) -/
theorem no_other_sync_sites : Fox.Generated.sync_otherSitesCount = 1 := by decide

/-- At most one thread is between its lock and its unlock, in every reachable state, for every schedule. -/
theorem mutex_inv {v0 : σ} {s : State σ} (h : Reach v0 s) {i j : Tid}
    (hi : inCrit (s.thr i).pc = true) (hj : inCrit (s.thr j).pc = true) : i = j := by
  have inv := inv_reach h
  have a := (inv.mutex i).1 hi
  have b := (inv.mutex j).1 hj
  rw [a] at b
  exact Option.some.inj b

/-- Only the thread that holds the writer lock performs a `store` (or an `unlock`). -/
theorem store_only_by_holder {v0 : σ} {s : State σ} (h : Reach v0 s) {i : Tid}
    (hh : (s.thr i).pc.head? = some .store ∨ (s.thr i).pc.head? = some .unlock) : s.mu = some i := by
  rcases hh with hh | hh
  · exact holder_of_head (inv_reach h) i (Or.inl hh)
  · exact holder_of_head (inv_reach h) i (Or.inr (Or.inl hh))

/-- No lost and no doubled write: every `store` installs exactly (the storing transaction's operations applied to the
    value installed by the previous store) and bumps the version by one — the transaction did not work on a stale tree. -/
theorem commits_serial {v0 : σ} {s : State σ} (h : Reach v0 s) {i : Tid}
    (hh : (s.thr i).pc.head? = some .store) :
    (exec s i).pub = (s.pub.1 + 1, (s.thr i).f s.pub.2) := by
  have inv := inv_reach h
  have hwk := inv.works i hh
  cases hpc : (s.thr i).pc with
  | nil => simp [hpc] at hh
  | cons a r =>
    simp [hpc] at hh
    subst hh
    rw [exec_store hpc hwk]

/-- The published value is always the replay of the complete commit log, and the version is its length: the k-th
    store installs ops_k applied to what the (k-1)-th installed; no state is a partial transaction. -/
theorem pub_is_replay {v0 : σ} {s : State σ} (h : Reach v0 s) :
    s.pub = ((commits s).length, replay v0 (commits s)) := (inv_reach h).pubLog

/-- A writer computes on the CURRENT published state: when it runs its operations the value it loaded is still the
    published one (it locked before loading and nobody else can store). This is also the linearization point of a
    failed / aborted writer: its observations are those of the state published during its critical section. -/
theorem writer_sees_current {v0 : σ} {s : State σ} (h : Reach v0 s) {i : Tid}
    (hh : (s.thr i).pc.head? = some .localOps) : (s.thr i).seen = some s.pub := (inv_reach h).sees i hh

/-- Linearization point of a reader: its `load` action; everything it returns is computed from the value published at
    that instant, which lies between its call and its return. -/
theorem reader_lin_point {s : State σ} {i : Tid} {r : List Act} (hpc : (s.thr i).pc = .load :: r) :
    ((exec s i).thr i).seen = some s.pub := by
  rw [exec_load hpc]; simp [setThr_same]

/-- Every value any thread has loaded is the result of replaying a prefix of the commit log (the initial state or the
    final private state of a committed transaction), with the matching version. -/
theorem loaded_is_committed {v0 : σ} {s : State σ} (h : Reach v0 s) {i : Tid} {ver : Nat} {v : σ}
    (hs : (s.thr i).seen = some (ver, v)) :
    ∃ k, ver = ((commits s).drop k).length ∧ v = replay v0 ((commits s).drop k) := (inv_reach h).seenOk i ver v hs

/-- Versions returned by successive loads (of all threads, hence of each single thread) never decrease. -/
theorem monotone_reads {v0 : σ} {s : State σ} (h : Reach v0 s) : (loadVers s).Pairwise (· ≥ ·) :=
  (inv_reach h).loadsMono

/-- The version counter never decreases along a step. -/
theorem version_monotone {v0 : σ} {s : State σ} (h : Reach v0 s) (i : Tid) : s.pub.1 ≤ (exec s i).pub.1 := by
  cases hpc : (s.thr i).pc with
  | nil => simp [exec, hpc]
  | cons a r =>
    cases a with
    | lock => rw [exec_lock hpc]; exact Nat.le_refl _
    | load => rw [exec_load hpc]; exact Nat.le_refl _
    | localOps => rw [exec_localOps hpc]; exact Nat.le_refl _
    | store =>
      have hwk := (inv_reach h).works i (by simp [hpc])
      rw [exec_store hpc hwk]; exact Nat.le_succ _
    | unlock => rw [exec_unlock hpc]; exact Nat.le_refl _
    | ret => rw [exec_ret hpc]; exact Nat.le_refl _

/-! non-vacuity: two writers and a reader; the second writer cannot enter while the first holds the lock, the reader
    loads the old version meanwhile, both increments survive. -/
section Example
def ex0 : State Nat := init 0
def exS : State Nat :=
  let s := invoke (invoke (invoke ex0 1 commitProg (· + 1)) 2 commitProg (· + 10)) 3 readerProg id
  -- t1: lock load ; t3: load ; t1: localOps store ; t2 tries lock (skipped) ; t1 unlock ret ; t2 runs ; t3 ret
  run s [.act 1, .act 1, .act 3, .act 1, .act 1, .act 2, .act 1, .act 1, .act 2, .act 2, .act 2, .act 2, .act 2, .act 2, .act 3]
example : exS.pub = (2, 11) := by decide
example : loadVers exS = [1, 0, 0] := by decide
example : exS.mu = none := by decide
example : enabled (run (invoke (invoke ex0 1 commitProg (· + 1)) 2 commitProg (· + 10)) [.act 1]) 2 = false := by decide
end Example


/-! ### the history checker -/
section Checker
open Fox.Spec.History

/-- NO FALSE ALARM: every history the checker rejects is genuinely not linearizable with respect to the sequential
    specification `S` (for any specification whose observations expose the version they were made at). -/
theorem checker_no_false_alarm {σ W Q : Type} (S : Sem σ W Q) (hv : ExposesVersion S) (h : List (Call W Q))
    (hrej : checkHistory S h = false) : ¬ Linearizable S h := by
  intro hl
  rw [checkHistory_of_linearizable S hv hl] at hrej
  cases hrej

/-- the specification the recorded fox histories are checked against (`Driver.Hist.sem`: the sequential store of C02
    with Spec.route for lookups) exposes versions correctly -/
theorem fox_sem_exposes_version : ExposesVersion Fox.Driver.Hist.sem := by
  intro v st q n hn
  cases q <;> simp [Fox.Driver.Hist.sem] at hn
  · exact hn.symm
  · exact hn.symm

/-- NO FALSE ALARM for the checker of record: a fox history rejected by `checkHistory Driver.Hist.sem` (what the `chist`
    stream of the foxmodel driver runs on every history recorded by the `conc` stream) is not linearizable. -/
theorem checker_no_false_alarm_fox (h : List (Call Fox.Driver.Hist.W Fox.Driver.Hist.Q))
    (hrej : checkHistory Fox.Driver.Hist.sem h = false) : ¬ Linearizable Fox.Driver.Hist.sem h :=
  checker_no_false_alarm _ fox_sem_exposes_version h hrej

/-- **On histories without overlapping calls the checker decides linearizability exactly**: if every call returned before
    the next one in the log was invoked (`SeqH`), the checker accepts the history if and only if it is linearizable - and
    then the log order itself is the linearization. (For overlapping histories the four checks are necessary conditions
    only: `checker_no_false_alarm`; acceptance there is sampling evidence.) -/
theorem checker_complete_seq {σ W Q : Type} (S : Sem σ W Q) (hv : ExposesVersion S) (h : List (Call W Q))
    (hs : SeqH h) : checkHistory S h = true ↔ Linearizable S h := by
  constructor
  · exact linearizable_of_check_seq S hs
  · intro hl
    exact checkHistory_of_linearizable S hv hl

/-- an accepted sequential history replays, in its own order, as a legal execution of the specification -/
theorem accepted_seq_replays {σ W Q : Type} (S : Sem σ W Q) (h : List (Call W Q)) (hs : SeqH h)
    (hc : checkHistory S h = true) : (runSeq S (0, S.init) h).isSome = true :=
  runSeq_of_check_seq S hs hc

/-! non-vacuity: a counter object; a stale read is rejected, the same history with the right value is linearizable -/
def ctr : Sem Nat Nat Unit where
  init := 0
  wr st x := (st + x, ⟨none, "ok"⟩)
  rd v _ _ := ⟨some v, "seen"⟩

def wCall (call ret ver x : Nat) : Call Nat Unit := ⟨1, call, ret, .w x, ver, ⟨none, "ok"⟩⟩
def rCall (call ret ver : Nat) : Call Nat Unit := ⟨2, call, ret, .r (), 0, ⟨some ver, "seen"⟩⟩

theorem ex_sorted : sortedWrites [wCall 1 2 1 5, rCall 3 4 0] = [wCall 1 2 1 5] := by
  simp [sortedWrites, List.filter, Call.isW, wCall, rCall]

/-- write(+5) returned at 2, a read called at 3 still sees version 0: the checker rejects (hence, by the theorem, the
    history is not linearizable) -/
example : checkHistory ctr [wCall 1 2 1 5, rCall 3 4 0] = false := by
  unfold checkHistory
  rw [ex_sorted]
  simp [mkSegs, stepSeq, ctr, wCall, rCall, rtOk, readOk, segOk]

/-- the same history with the read seeing version 1 is linearizable -/
example : Linearizable ctr [wCall 1 2 1 5, rCall 3 4 1] := by
  refine ⟨_, List.Perm.refl _, ?_, ?_⟩
  · simp [RT, wCall, rCall]
  · simp [runSeq, stepSeq, wCall, rCall, ctr]

/-- the hypotheses of `checker_complete_seq` hold for that history: it is sequential, the counter exposes its versions,
    and the checker accepts it (so the theorem applies in the accepting direction to a concrete history) -/
example : SeqH [wCall 1 2 1 5, rCall 3 4 1] ∧ ExposesVersion ctr ∧ checkHistory ctr [wCall 1 2 1 5, rCall 3 4 1] = true := by
  refine ⟨⟨by simp [wCall, rCall], by simp [wCall, rCall]⟩, ?_, ?_⟩
  · intro v st q n hn; simp [ctr] at hn; exact hn.symm
  · exact (checker_complete_seq ctr (by intro v st q n hn; simp [ctr] at hn; exact hn.symm) _
      ⟨by simp [wCall, rCall], by simp [wCall, rCall]⟩).2
      ⟨_, List.Perm.refl _, by simp [RT, wCall, rCall], by simp [runSeq, stepSeq, wCall, rCall, ctr]⟩

/-! ### the exact checker: acceptance = linearizability, overlapping calls included -/

/-- **The checker of record decides linearizability.** For every sequential specification `S` and every history whose
    calls return after they are called (overlapping or not, any number of threads): `checkLin S h` accepts **iff** some
    total order of the calls respects real time and is a legal sequential execution of `S`. With the commit order known
    (the versions of the writes), that is: every call can be given a version - a write its own, a read one whose state
    explains its result and whose installing write had been called when the read returned - such that a call that
    returned before another was called has no greater version; the greedy assignment in call order finds the least one. -/
theorem checker_exact {σ W Q : Type} (S : Sem σ W Q) (h : List (Call W Q)) (hst : ∀ c ∈ h, c.call ≤ c.ret) :
    checkLin S h = true ↔ Linearizable S h := checkLin_iff S hst

/-- the same for the specification the recorded fox histories are checked against; `wellStamped` is evaluated by the
    driver on every history -/
theorem checker_exact_fox (h : List (Call Fox.Driver.Hist.W Fox.Driver.Hist.Q)) (hst : wellStamped h = true) :
    checkLin Fox.Driver.Hist.sem h = true ↔ Linearizable Fox.Driver.Hist.sem h := by
  apply checkLin_iff
  intro c hc
  simpa using (List.all_eq_true.1 hst) c hc

/-- **the checker as the driver runs it** (`checkLinFast`: first explaining segment from the lower bound on, lower bound
    from the calls still pending) decides linearizability of the recorded fox histories -/
theorem checker_as_run_exact (h : List (Call Fox.Driver.Hist.W Fox.Driver.Hist.Q)) (hst : wellStamped h = true) :
    checkLinFast Fox.Driver.Hist.sem h = true ↔ Linearizable Fox.Driver.Hist.sem h := by
  rw [checkLinFast_eq]
  exact checker_exact_fox h hst

/-- a rejection by the exact checker is never a false alarm -/
theorem exact_rejection_not_linearizable {σ W Q : Type} (S : Sem σ W Q) (h : List (Call W Q))
    (hst : ∀ c ∈ h, c.call ≤ c.ret) (hrej : checkLin S h = false) : ¬ Linearizable S h := by
  intro hl
  rw [checkLin_of_linearizable S hst hl] at hrej
  cases hrej

/-- what the exact checker accepts passes the four necessary conditions as well (they only serve the report now) -/
theorem exact_implies_four_conditions {σ W Q : Type} (S : Sem σ W Q) (hv : ExposesVersion S) (h : List (Call W Q))
    (hst : ∀ c ∈ h, c.call ≤ c.ret) (hc : checkLin S h = true) : checkHistory S h = true :=
  checkHistory_of_checkLin S hv hst hc

/-! non-vacuity, and the gap the exact checker closes: writer 1 is called at 1, commits version 1 and returns only at 100;
    writer 2 is called at 10, commits version 2 and returns at 20; a read called at 30 still returns the initial state.
    Each of the four necessary conditions holds (the read's segment 0 ends with writer 1, which has not returned), so
    `checkHistory` accepts - but writer 2 returned before the read was called and version 2 follows version 1: the
    history is not linearizable, and `checkLin` rejects it. With the read returning the current state it is accepted. -/
def reg : Sem Nat Nat Unit where
  init := 0
  wr st x := (st + x, ⟨none, "ok"⟩)
  rd _ st _ := ⟨none, if st = 0 then "zero" else "nonzero"⟩

def gW1 : Call Nat Unit := ⟨1, 1, 100, .w 5, 1, ⟨none, "ok"⟩⟩
def gW2 : Call Nat Unit := ⟨2, 10, 20, .w 7, 2, ⟨none, "ok"⟩⟩
def gR (s : String) : Call Nat Unit := ⟨3, 30, 40, .r (), 0, ⟨none, s⟩⟩
def gapH (s : String) : List (Call Nat Unit) := [gW1, gW2, gR s]

theorem gap_sorted (s) : sortedWrites (gapH s) = [gW1, gW2] := by
  unfold sortedWrites
  have : (gapH s).filter Call.isW = [gW1, gW2] := by simp [gapH, List.filter, Call.isW, gW1, gW2, gR]
  rw [this]
  apply List.mergeSort_of_pairwise
  simp [gW1, gW2]

theorem gap_byCall (s) : byCall (gapH s) = gapH s := by
  unfold byCall
  apply List.mergeSort_of_pairwise
  simp [gapH, gW1, gW2, gR]

theorem gap_passes_the_four_conditions : checkHistory reg (gapH "zero") = true := by
  unfold checkHistory
  rw [gap_sorted]
  simp [mkSegs, stepSeq, reg, gW1, gW2, gR, gapH, rtOk, readOk, segOk, adjOk, versioned, verSeen, pairOk]

theorem gap_rejected_by_exact : checkLin reg (gapH "zero") = false := by
  unfold checkLin
  rw [gap_sorted, gap_byCall]
  simp [mkSegs, stepSeq, reg, gW1, gW2, gR, gapH, assign, leastFrom, lowerBound, allowed, explains]

theorem gap_not_linearizable : ¬ Linearizable reg (gapH "zero") :=
  exact_rejection_not_linearizable reg _ (by simp [gapH, gW1, gW2, gR]) gap_rejected_by_exact

theorem gap_fresh_read_linearizable : Linearizable reg (gapH "nonzero") := by
  apply (checker_exact reg _ (by simp [gapH, gW1, gW2, gR])).1
  unfold checkLin
  rw [gap_sorted, gap_byCall]
  simp [mkSegs, stepSeq, reg, gW1, gW2, gR, gapH, assign, leastFrom, lowerBound, allowed, explains]
end Checker

end Fox.C05
