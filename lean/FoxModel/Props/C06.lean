import FoxModel.Lemmas.Proto
import FoxModel.Generated.ReadPaths
/-
  Property C06 — reads never wait for writers. Protocol part over `Fox.Model.Proto` (every state, every schedule);
  code part by `decide` over the call table regenerated from the Go sources (`Generated/ReadPaths.lean`,
  `Generated/SyncOrder.lean`). Trusted: name-based call resolution of foxfacts, the Go runtime (sync.Pool, atomic).
-/
namespace Fox.C06
open Fox.Model.Proto Fox.Generated

variable {σ : Type}

/-- Every action other than `lock` is enabled in EVERY state — whatever `mu` is, whoever holds it, for however long. -/
theorem nonlock_enabled (s : State σ) (i : Tid) {a : Act} {r : List Act} (hpc : (s.thr i).pc = a :: r)
    (ha : a ≠ .lock) : enabled s i = true := by
  cases a <;> simp_all [enabled]

/-- A pending reader action (`load`, then `ret`) is enabled in every state of the model, in particular while a writer
    `w` is parked between its lock and its unlock (`s.mu = some w`) at any point of its program. -/
theorem reader_enabled (s : State σ) (i : Tid) (h : (s.thr i).pc = readerProg ∨ (s.thr i).pc = [.ret]) :
    enabled s i = true := by
  rcases h with h | h
  · exact nonlock_enabled s i h (by decide)
  · exact nonlock_enabled s i h (by decide)

theorem applyMove_other (s : State σ) (m : Move σ) {i : Tid} (h : m.tid ≠ i) : (applyMove s m).thr i = s.thr i := by
  cases m with
  | act j =>
    simp only [applyMove]
    split
    · exact exec_thr_other s (fun e => h (by simp [Move.tid, e]))
    · rfl
  | call j p f =>
    simp only [applyMove]
    split
    · exact invoke_thr_other s p f (fun e => h (by simp [Move.tid, e]))
    · rfl

/-- what the other threads do never touches thread `i`'s program counter or locals -/
theorem run_other (s : State σ) (ms : List (Move σ)) {i : Tid} (h : ∀ m ∈ ms, m.tid ≠ i) :
    (run s ms).thr i = s.thr i := by
  induction ms generalizing s with
  | nil => rfl
  | cons m ms ih =>
    simp only [run, List.foldl_cons]
    have := ih (applyMove s m) (fun m' hm' => h m' (List.mem_cons_of_mem _ hm'))
    simp only [run] at this
    rw [this]
    exact applyMove_other s m (h m (List.mem_cons_self ..))

/-- A read completes within its own two actions, whatever all other threads do before, between and after them (any
    moves `ms1`, `ms2` of other threads: writers locking, storing, staying parked, new calls starting …): both actions
    are enabled when their turn comes and after the second one the call has returned. -/
theorem reader_wait_free (s : State σ) (i : Tid) (hpc : (s.thr i).pc = readerProg)
    (ms1 ms2 : List (Move σ)) (h1 : ∀ m ∈ ms1, m.tid ≠ i) (h2 : ∀ m ∈ ms2, m.tid ≠ i) :
    let s1 := run s ms1
    let s2 := run (exec s1 i) ms2
    enabled s1 i = true ∧ enabled s2 i = true ∧ ((exec s2 i).thr i).pc = [] := by
  intro s1 s2
  have e1 : (s1.thr i).pc = [.load, .ret] := by
    show ((run s ms1).thr i).pc = _
    rw [run_other s ms1 h1]; exact hpc
  have e2 : (s2.thr i).pc = [.ret] := by
    show ((run (exec s1 i) ms2).thr i).pc = _
    rw [run_other _ ms2 h2, exec_load e1]; simp [setThr_same]
  refine ⟨nonlock_enabled s1 i e1 (by decide), nonlock_enabled s2 i e2 (by decide), ?_⟩
  rw [exec_ret e2]; simp [setThr_same]

/-- A thread that cannot move is a writer at its `lock`, and the lock is held by ANOTHER thread that is a writer between
    its lock and its unlock: writers wait only for writers (and nobody else ever waits). -/
theorem writers_wait_only_for_writers {v0 : σ} {s : State σ} (h : Reach v0 s) (i : Tid)
    (hpc : (s.thr i).pc ≠ []) (hd : enabled s i = false) :
    (s.thr i).pc.head? = some .lock ∧ ∃ j, j ≠ i ∧ s.mu = some j ∧ inCrit (s.thr j).pc = true := by
  have inv := inv_reach h
  cases hp : (s.thr i).pc with
  | nil => exact absurd hp hpc
  | cons a r =>
    cases a with
    | lock =>
      refine ⟨by simp, ?_⟩
      have hm : s.mu.isNone = false := by simpa [enabled, hp] using hd
      cases hmu : s.mu with
      | none => simp [hmu] at hm
      | some j =>
        refine ⟨j, ?_, rfl, (inv.mutex j).2 hmu⟩
        intro e; subst e
        have := (inv.mutex j).2 hmu
        have hw := inv.wf j
        rw [hp] at this hw
        simp [inCrit] at this
    | load => simp [enabled, hp] at hd
    | localOps => simp [enabled, hp] at hd
    | store => simp [enabled, hp] at hd
    | unlock => simp [enabled, hp] at hd
    | ret => simp [enabled, hp] at hd

/-- "Router.txnWith", "fox.mu.Lock()", "write", … as bytes (what the `decide` theorems compare with) -/
def bRouterTxnWith : List Nat := [82, 111, 117, 116, 101, 114, 46, 116, 120, 110, 87, 105, 116, 104]
def bRouterTxn : List Nat := [82, 111, 117, 116, 101, 114, 46, 84, 120, 110]
def bRouterView : List Nat := [82, 111, 117, 116, 101, 114, 46, 86, 105, 101, 119]
def bTxnWith : List Nat := [116, 120, 110, 87, 105, 116, 104]
def bTxn : List Nat := [84, 120, 110]
def bMuLock : List Nat := [102, 111, 120, 46, 109, 117, 46, 76, 111, 99, 107, 40, 41]
def bWrite : List Nat := [119, 114, 105, 116, 101]
def bFalse : List Nat := [102, 97, 108, 115, 101]

/-- CODE FACT (regenerated from the Go sources on every run): among all package functions statically reachable from
    the read entry points (ServeHTTP, Lookup, Reverse, Has, Route, Len, Iter and every Iter method, View, Txn/txnWith, the
    read methods of Txn, every method of the request context) the ONLY blocking primitive (mutex / rwmutex lock, channel
    send / receive, select, Cond/WaitGroup wait, time.Sleep, go statement) is `fox.mu.Lock()` inside `txnWith`, under
    the condition `write`; and the only calls on those paths that begin a transaction are `View → Txn(false)` and the
    pass-through `Txn(write) → txnWith(write, …)`. A lock added to any read path breaks this theorem. -/
theorem no_blocking_on_read_paths :
    readBlocking.map BlockSite.key = [(bRouterTxnWith, .mutexLock, bMuLock, bWrite)] ∧
    readBegins.map BeginSite.key = [(bRouterTxn, bTxnWith, bWrite), (bRouterView, bTxn, bFalse)] := by
  decide

/-- A read-only transaction — Txn(false), its Commit and its Abort — performs one `load` and no lock / unlock / store:
    compiled from the regenerated event order of txnWith, Txn.Commit, Txn.Abort with `write = false`. -/
theorem readonly_txn :
    actsOf false sync_txnWith = [.load] ∧ actsOf false sync_Commit = [] ∧ actsOf false sync_Abort = [] ∧
    actsOf false sync_View = [] ∧ actsOf false sync_getRoot = [.load] := by
  decide

/-! non-vacuity: a writer parked for ever inside its critical section; a reader starts and finishes. -/
section Example
def parked : State Nat := run (invoke (init 0) 1 commitProg (· + 1)) [.act 1, .act 1, .act 1]
example : parked.mu = some 1 := by decide
def withReader : State Nat := run (invoke parked 2 readerProg id) [.act 2, .act 1, .act 2]
example : (withReader.thr 2).pc = [] := by decide
example : withReader.mu = some 1 := by decide
/-- a second writer does wait -/
example : enabled (invoke parked 3 commitProg id) 3 = false := by decide
end Example

end Fox.C06
