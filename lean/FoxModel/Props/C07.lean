import FoxModel.Props.C01Full
/-
  Property C07 — routing depends only on the registered set, not on its history.
-/
namespace Fox.C07
open Fox Fox.Model Fox.Spec Fox.C02

/-- **history independence**: two histories (of any length, with any updates, deletions, truncations and re-insertions)
    after which a method holds the same stored patterns route every request of that method identically — same route, same
    parameters, same trailing-slash outcome. (Corollary of `lookup = specification`: the specification only reads the
    stored patterns.) -/
theorem history_independent (h₁ h₂ : List Op) (hv₁ : ∀ op ∈ h₁, op.valid = true) (hv₂ : ∀ op ∈ h₂, op.valid = true)
    (m hostPort path : Bytes) (hn : noDbl path = true) (hs : SLASH ∉ stripHostPort hostPort)
    (hsame : sufsOfMethod (runModel newTree h₁).1.roots m = sufsOfMethod (runModel newTree h₂).1.roots m) :
    lookup (runModel newTree h₁).1.roots m hostPort path = lookup (runModel newTree h₂).1.roots m hostPort path := by
  rw [C01.routing_correct_on_every_reachable_state h₁ hv₁ m hostPort path hn hs,
      C01.routing_correct_on_every_reachable_state h₂ hv₂ m hostPort path hn hs, hsame]

end Fox.C07
