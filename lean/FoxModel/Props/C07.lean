namespace Fox.C07
end Fox.C07
