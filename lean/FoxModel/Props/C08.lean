import FoxModel.Generated.Consts
import FoxModel.Lemmas.TsrRemove
import FoxModel.Model.Serve
/-
  Property C08 — trailing-slash actions happen exactly when a slash-adjusted route exists.

  Routing part (which candidate `lookupByPath` reports): theorems over the model of the matcher, refined to the
  specification enumeration `specAll` (Props/C01). Dispatch part (what ServeHTTP does with a candidate): theorems over
  the model `Fox.Model.serve` of fox.go's ServeHTTP.
-/
namespace Fox.C08
open Fox Fox.Model Fox.Spec

/-- a trailing-slash candidate is reported only if no registered route below the node matches the path directly -/
theorem tsr_only_if_no_direct {c : Node} (h : wfNode c = true) (path : Bytes) (r : Route) (ps : Binds)
    (hres : pick (pathEvents c path []) = .found r ps true) :
    specAll (sufsNode c) path [] = [] := by
  rw [pathLookup_refines h] at hres
  cases hsp : specAll (sufsNode c) path [] with
  | nil => rfl
  | cons x xs => rw [hsp] at hres; obtain ⟨r', ps'⟩ := x; simp only at hres; injection hres with _ _ h3; cases h3

/-- **Remove-slash direction, exactly.** For a path `q ++ "/"` that no route below the node matches directly, the
    answer of `lookupByPath` is the best direct match of `q` (highest priority, with the parameters of that match) flagged
    as a trailing-slash match, and it is "no match" exactly when `q` has no direct match either. In particular routes
    that match neither `q ++ "/"` nor `q` cannot influence the outcome. -/
theorem tsr_remove_exact {c : Node} (h : wfNode c = true) (q : Bytes)
    (hX : specAll (sufsNode c) (q ++ [SLASH]) [] = []) :
    pick (pathEvents c (q ++ [SLASH]) []) =
      (match specAll (sufsNode c) q [] with
       | (r, ps) :: _ => Result.found r ps true
       | [] => Result.none) := by
  rw [pathLookup_refines h, hX]
  exact pathLookup_tsr_remove h q hX

/-- the root path "/" never yields a trailing-slash candidate -/
theorem root_path_no_tsr {c : Node} (h : wfNode c = true) (r : Route) (ps : Binds) :
    pick (pathEvents c [SLASH] []) ≠ .found r ps true := by
  intro hres
  have hX := tsr_only_if_no_direct h [SLASH] r ps hres
  have := tsr_remove_exact h [] (by simpa using hX)
  simp only [List.nil_append] at this
  rw [this] at hres
  have hk : specAll (sufsNode c) [] [] = [] := by
    obtain ⟨t, k', _, hh⟩ := wfNode_head h
    exact specAll_head_nil hh []
  rw [hk] at hres
  cases hres

/-! ### dispatch (fox.go ServeHTTP) -/

/-- the OPTIONS / 405 / 404 part never serves a route nor redirects -/
theorem special_kind (cfg : Cfg) (rs : Roots) (m host path : Bytes) :
    (special cfg rs m host path).kind = .options ∨ (special cfg rs m host path).kind = .noMethod ∨
    (special cfg rs m host path).kind = .noRoute := by
  unfold special optionsOutcome noMethodOutcome
  split
  · split <;> simp
  · split
    · split <;> simp
    · simp

/-- a trailing-slash candidate is never acted upon for CONNECT nor for the root path: the request is unmatched -/
theorem dispatch_connect_or_root_unmatched (cfg : Cfg) (rs : Roots) (m host path urlPath : Bytes) (r : Route) (ps : Binds)
    (hl : lookup rs m host path = .found r ps true) (hg : m = CONNECT ∨ urlPath = [SLASH]) :
    (Model.serve cfg rs m host path urlPath).kind ≠ .route ∧ (Model.serve cfg rs m host path urlPath).kind ≠ .redirect := by
  unfold Model.serve
  simp only [hl]
  unfold onTsr
  have hcond : (m != CONNECT && urlPath != [SLASH]) = false := by
    rcases hg with h | h <;> simp [h]
  simp only [hcond]
  have := special_kind cfg rs m host path
  constructor <;> (intro h; simp only [Bool.false_eq_true, if_false] at h; rw [h] at this; simp at this)

/-- a candidate on a route that ignores trailing slashes is served by that route with the adjusted parameters -/
theorem dispatch_ignore (cfg : Cfg) (rs : Roots) (m host path urlPath : Bytes) (r : Route) (ps : Binds)
    (hl : lookup rs m host path = .found r ps true) (hm : m ≠ CONNECT) (hu : urlPath ≠ [SLASH]) (hi : r.ignoreTS = true) :
    (Model.serve cfg rs m host path urlPath).kind = .route ∧ (Model.serve cfg rs m host path urlPath).route = some r ∧
      (Model.serve cfg rs m host path urlPath).params = ps := by
  unfold Model.serve
  simp only [hl]
  unfold onTsr
  have hcond : (m != CONNECT && urlPath != [SLASH]) = true := by simp [hm, hu]
  simp [hcond, hi]

/-- a redirect is issued only for a trailing-slash candidate on a redirecting route that does not ignore trailing
    slashes, never for CONNECT or "/", only for an already clean path, with 301 for GET and 308 otherwise (the codes
    regenerated from the Go sources) -/
theorem dispatch_redirect (cfg : Cfg) (rs : Roots) (m host path urlPath : Bytes)
    (hk : (Model.serve cfg rs m host path urlPath).kind = .redirect) :
    (∃ r ps, lookup rs m host path = .found r ps true ∧ r.redirectTS = true ∧ r.ignoreTS = false) ∧
    m ≠ CONNECT ∧ urlPath ≠ [SLASH] ∧ path = cleanRef path ∧
    ((Model.serve cfg rs m host path urlPath).code : Int) =
      (if m = GET then Generated.redirectCodeGet else Generated.redirectCodeOther) := by
  have hsp := special_kind cfg rs m host path
  unfold Model.serve at hk ⊢
  cases hl : lookup rs m host path with
  | none =>
    simp only [hl] at hk
    rw [hk] at hsp; simp at hsp
  | bad => simp [hl] at hk
  | found r ps tsr =>
    cases tsr with
    | false => simp [hl] at hk
    | true =>
      simp only [hl] at hk ⊢
      unfold onTsr at hk ⊢
      by_cases hcond : (m != CONNECT && urlPath != [SLASH]) = true
      · simp only [hcond, if_true] at hk ⊢
        by_cases hi : r.ignoreTS = true
        · simp [hi] at hk
        · simp only [hi] at hk ⊢
          by_cases hr : (r.redirectTS && path == cleanRef path) = true
          · simp only [hr, if_true]
            simp only [Bool.and_eq_true, bne_iff_ne, ne_eq, beq_iff_eq] at hcond hr
            refine ⟨⟨r, ps, rfl, hr.1, by simpa using hi⟩, hcond.1, hcond.2, hr.2, ?_⟩
            by_cases hg : m = GET
            · simp [hg, Generated.redirectCodeGet]
            · have : (m == GET) = false := by simpa using hg
              simp [hg, this, Generated.redirectCodeOther]
          · simp only [hr, Bool.false_eq_true, if_false] at hk
            rw [hk] at hsp; simp at hsp
      · simp only [hcond, Bool.false_eq_true, if_false] at hk
        rw [hk] at hsp; simp at hsp

end Fox.C08
