namespace Fox.C08
end Fox.C08
