import FoxModel.Props.C01Map
/-
  Property C08, last sentence — "Registered routes that match neither the request path nor its slash-adjusted form
  never change the outcome" — on the router itself: registering such a route, after any history, leaves the answer of
  the matcher to that request unchanged (same route, same parameters, same trailing-slash flag), for every method.
  Composition of `routing_correct_on_the_sequential_map` (Props/C01Map) with `route_irrelevant` (Props/C01Spec).
-/
namespace Fox.C08
open Fox Fox.Model Fox.Spec Fox.C02 Fox.C01 Fox.C01Spec

theorem runSpec_append (s : Store) (a b : List Op) :
    (runSpec s (a ++ b)).1 = (runSpec (runSpec s a).1 b).1 := by
  induction a generalizing s with
  | nil => rfl
  | cons op a ih => simp only [List.cons_append, runSpec]; exact ih _

theorem routesOf_append (s : Store) (m m' : Bytes) (r : Route) :
    Store.routesOf (s ++ [(m, r)]) m' = if m == m' then s.routesOf m' ++ [r] else s.routesOf m' := by
  unfold Store.routesOf
  by_cases h : (m == m') = true
  · simp [h]
  · simp [h]

/-- the route list of method `m'` after one more `Handle`: unchanged (other method, or the registration failed) or
    extended by the new route at the end -/
theorem routesOf_handle (s : Store) (m m' : Bytes) (r : Route) :
    (s.handle m r).1.routesOf m' = s.routesOf m' ∨ (s.handle m r).1.routesOf m' = s.routesOf m' ++ [r] := by
  unfold Store.handle
  split
  · exact Or.inl rfl
  · split
    · rw [routesOf_append]
      split
      · exact Or.inr rfl
      · exact Or.inl rfl
    · exact Or.inl rfl

/-- **C08: an irrelevant registration never changes the outcome.** After any history, registering one more route
    (for any method) that matches neither the request nor its slash-adjusted form (`Spec.Irrelevant`) leaves the
    matcher's answer to that request unchanged, whatever the tree looked like before and however the new route splits
    its nodes. -/
theorem irrelevant_registration_never_changes_outcome (ops : List Op) (hv : ∀ op ∈ ops, op.valid = true)
    (hu : ∀ op ∈ ops, updSplitOk op = true) (m : Bytes) (r : Route) (hr : (Op.handle m r).valid = true)
    (m' hostPort path : Bytes) (hn : noDbl path = true) (hs : SLASH ∉ stripHostPort hostPort)
    (hirr : Irrelevant r hostPort path) :
    lookup (runModel newTree (ops ++ [.handle m r])).1.roots m' hostPort path =
      lookup (runModel newTree ops).1.roots m' hostPort path := by
  have hv' : ∀ op ∈ ops ++ [Op.handle m r], op.valid = true := by
    intro op hop
    rcases List.mem_append.mp hop with h | h
    · exact hv op h
    · rw [List.mem_singleton.mp h]; exact hr
  have hu' : ∀ op ∈ ops ++ [Op.handle m r], updSplitOk op = true := by
    intro op hop
    rcases List.mem_append.mp hop with h | h
    · exact hu op h
    · rw [List.mem_singleton.mp h]; rfl
  rw [routing_correct_on_the_sequential_map _ hv' hu' m' hostPort path hn hs,
    routing_correct_on_the_sequential_map ops hv hu m' hostPort path hn hs]
  have hco := store_coherent (ops ++ [Op.handle m r]) (fun op hop => opSplitOk_of (hv' op hop) (hu' op hop)) m'
  have hst : (runSpec [] (ops ++ [Op.handle m r])).1 = ((runSpec [] ops).1.handle m r).1 := by
    rw [runSpec_append]; rfl
  rw [hst] at hco ⊢
  rcases routesOf_handle (runSpec [] ops).1 m m' r with h | h
  · rw [h]
  · rw [h] at hco ⊢
    have := route_irrelevant (R1 := (runSpec [] ops).1.routesOf m') (R2 := []) (r := r) hco hirr
    rw [List.append_nil] at this
    rw [this]

end Fox.C08
