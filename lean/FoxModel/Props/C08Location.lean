import FoxModel.Model.Location
import FoxModel.Lemmas.CleanSpec
import FoxModel.Props.C17
import FoxModel.Model.Serve
/-
  Property C08, the `Location` of the trailing-slash redirect: the relative reference that
  `defaultRedirectTrailingSlashHandler` writes resolves (RFC 3986 §5.2) against the request URL to the request path with
  the trailing slash adjusted, on the same scheme and authority, with the query string kept.
-/
namespace Fox.C08.Loc
open Fox Fox.Model.Location Fox.RFC3986 Fox.Spec.Clean

/-! ### lists -/

theorem takeWhile_app {p : UInt8 → Bool} {l r : Bytes} (hl : ∀ x ∈ l, p x = true) (hr : ∀ a ∈ r.head?, p a = false) :
    (l ++ r).takeWhile p = l := by
  induction l with
  | nil =>
    cases r with
    | nil => rfl
    | cons a r => simp [hr a (by simp)]
  | cons x l ih =>
    simp only [List.cons_append, List.takeWhile_cons, hl x (by simp), if_true]
    rw [ih (fun y hy => hl y (by simp [hy]))]

theorem dropWhile_app {p : UInt8 → Bool} {l r : Bytes} (hl : ∀ x ∈ l, p x = true) (hr : ∀ a ∈ r.head?, p a = false) :
    (l ++ r).dropWhile p = r := by
  induction l with
  | nil =>
    cases r with
    | nil => rfl
    | cons a r => simp [hr a (by simp)]
  | cons x l ih =>
    simp only [List.cons_append, List.dropWhile_cons, hl x (by simp), if_true]
    rw [ih (fun y hy => hl y (by simp [hy]))]

theorem takeWhile_all {p : UInt8 → Bool} {l : Bytes} (hl : ∀ x ∈ l, p x = true) : l.takeWhile p = l := by
  have := takeWhile_app (r := []) hl (by simp); simpa using this

theorem dropWhile_all {p : UInt8 → Bool} {l : Bytes} (hl : ∀ x ∈ l, p x = true) : l.dropWhile p = [] := by
  have := dropWhile_app (r := []) hl (by simp); simpa using this


/-! ### Go side: `path.Base` and `FixTrailingSlash` on  x ++ "/" ++ b  and  x ++ "/" ++ b ++ "/" -/

theorem getLast?_ne_slash {b : Bytes} (hb : SLASH ∉ b) (x : Bytes) : (x ++ SLASH :: b).getLast? ≠ some SLASH ∨ b = [] := by
  cases hb' : b.getLast? with
  | none => right; simpa using hb'
  | some c =>
    left
    have hc : c ∈ b := List.mem_of_getLast? hb'
    have : (x ++ SLASH :: b).getLast? = some c := by
      rw [List.getLast?_append, List.getLast?_cons, hb']; simp
    rw [this]; intro h; injection h with h; exact hb (h ▸ hc)

theorem last_ne_slash {b : Bytes} (hb : SLASH ∉ b) (hne : b ≠ []) (x : Bytes) : (x ++ SLASH :: b).getLast? ≠ some SLASH := by
  rcases getLast?_ne_slash hb x with h | h
  · exact h
  · exact absurd h hne

theorem strip_of_last_ne {p : Bytes} (h : p.getLast? ≠ some SLASH) : stripTrailingSlashes p = p := by
  unfold stripTrailingSlashes
  rw [List.getLast?_eq_head?_reverse] at h
  cases hr : p.reverse with
  | nil => simp [List.reverse_eq_nil_iff.mp hr]
  | cons c r =>
    have hc : c ≠ SLASH := by intro hc; apply h; simp [hr, hc]
    rw [List.dropWhile_cons]; simp only [hc, decide_false]
    rw [← hr]; simp

theorem strip_append_slash (p : Bytes) : stripTrailingSlashes (p ++ [SLASH]) = stripTrailingSlashes p := by
  simp [stripTrailingSlashes]

theorem afterLast_append {b : Bytes} (hb : SLASH ∉ b) (x : Bytes) : afterLastSlash (x ++ SLASH :: b) = b := by
  unfold afterLastSlash
  have : (x ++ SLASH :: b).reverse = b.reverse ++ SLASH :: x.reverse := by simp
  rw [this, takeWhile_app (by intro y hy; simp at hy ⊢; intro h; exact hb (h ▸ hy)) (by simp)]
  simp

theorem pathBase_noslash {b : Bytes} (hb : SLASH ∉ b) (hne : b ≠ []) (x : Bytes) : pathBase (x ++ SLASH :: b) = b := by
  unfold pathBase
  rw [strip_of_last_ne (last_ne_slash hb hne x), afterLast_append hb]
  simp [hne]

theorem pathBase_slash {b : Bytes} (hb : SLASH ∉ b) (hne : b ≠ []) (x : Bytes) : pathBase (x ++ SLASH :: b ++ [SLASH]) = b := by
  unfold pathBase
  rw [strip_append_slash, strip_of_last_ne (last_ne_slash hb hne x), afterLast_append hb]
  simp [hne]

theorem fix_noslash {b : Bytes} (hb : SLASH ∉ b) (hne : b ≠ []) (x : Bytes) :
    fixTrailingSlash (x ++ SLASH :: b) = x ++ SLASH :: b ++ [SLASH] := by
  unfold fixTrailingSlash
  rw [if_neg (fun h => last_ne_slash hb hne x h.2)]

theorem fix_slash (b x : Bytes) : fixTrailingSlash (x ++ SLASH :: b ++ [SLASH]) = x ++ SLASH :: b := by
  unfold fixTrailingSlash
  rw [if_pos ⟨by simp; omega, List.getLast?_concat⟩, List.dropLast_concat]

theorem target_noslash {b : Bytes} (hb : SLASH ∉ b) (hne : b ≠ []) (x : Bytes) :
    redirectTarget (x ++ SLASH :: b) = guardColon b ++ [SLASH] := by
  unfold redirectTarget
  rw [fix_noslash hb hne, if_pos List.getLast?_concat, pathBase_slash hb hne]

theorem target_slash {b : Bytes} (hb : SLASH ∉ b) (hne : b ≠ []) (x : Bytes) :
    redirectTarget (x ++ SLASH :: b ++ [SLASH]) = [DOT, DOT, SLASH] ++ b := by
  unfold redirectTarget
  rw [fix_slash, if_neg (last_ne_slash hb hne x), pathBase_noslash hb hne]


/-! ### RFC side: the components of  seg ++ "/" ++ rest [++ "?" ++ q] -/

/-- a non-empty first segment without any of `: / ? #` -/
structure PlainSeg (seg : Bytes) : Prop where
  ne : seg ≠ []
  plain : ∀ c ∈ seg, notGenDelim c = true

theorem firstSegment_eq {seg : Bytes} (h : PlainSeg seg) (r : Bytes) : firstSegment (seg ++ SLASH :: r) = seg :=
  takeWhile_app h.plain (by simp [notGenDelim])

theorem schemeOf_none {seg : Bytes} (h : PlainSeg seg) (r : Bytes) : schemeOf (seg ++ SLASH :: r) = none := by
  unfold schemeOf
  rw [firstSegment_eq h, List.drop_left]
  simp [SLASH, COLON]

theorem looseSchemeOf_none {seg : Bytes} (h : PlainSeg seg) (r : Bytes) : looseSchemeOf (seg ++ SLASH :: r) = none := by
  unfold looseSchemeOf
  rw [firstSegment_eq h, List.drop_left]
  simp [SLASH, COLON]

theorem afterScheme_eq {seg : Bytes} (h : PlainSeg seg) (r : Bytes) : afterScheme (seg ++ SLASH :: r) = seg ++ SLASH :: r := by
  unfold afterScheme; rw [schemeOf_none h]

theorem head_ne_slash {seg : Bytes} (h : PlainSeg seg) : ∃ c t, seg = c :: t ∧ c ≠ SLASH := by
  cases seg with
  | nil => exact absurd rfl h.ne
  | cons c t =>
    refine ⟨c, t, rfl, ?_⟩
    have := h.plain c (by simp)
    intro hc; subst hc; simp [notGenDelim] at this

theorem authorityOf_none {seg : Bytes} (h : PlainSeg seg) (r : Bytes) : authorityOf (seg ++ SLASH :: r) = none := by
  obtain ⟨c, t, rfl, hc⟩ := head_ne_slash h
  have : (SLASH == c) = false := by simp [Ne.symm hc]
  simp [authorityOf, List.isPrefixOf, this]

theorem afterAuthority_eq {seg : Bytes} (h : PlainSeg seg) (r : Bytes) :
    afterAuthority (seg ++ SLASH :: r) = seg ++ SLASH :: r := by
  unfold afterAuthority; rw [authorityOf_none h]

theorem pathOf_withQuery {P : Bytes} (hP : ∀ c ∈ P, notQueryStart c = true) (q : Bytes) :
    pathOf (withQuery P q) = P ∧ afterPath (withQuery P q) = if q = [] then [] else QMARK :: q := by
  unfold withQuery pathOf afterPath
  by_cases hq : q = []
  · simp only [hq, if_true]; exact ⟨takeWhile_all hP, dropWhile_all hP⟩
  · simp only [hq, if_false]
    exact ⟨takeWhile_app hP (by simp [notQueryStart]), dropWhile_app hP (by simp [notQueryStart])⟩

theorem query_parts {q : Bytes} (hq : HASH ∉ q) :
    queryOf (if q = [] then [] else QMARK :: q) = (if q = [] then none else some q) ∧
    fragmentOf (afterQuery (if q = [] then [] else QMARK :: q)) = none := by
  have hall : ∀ c ∈ q, notHash c = true := by
    intro c hc; simp [notHash]; intro h; exact hq (h ▸ hc)
  by_cases h : q = []
  · simp [h, queryOf, afterQuery, fragmentOf]
  · simp [h, queryOf, afterQuery, fragmentOf, takeWhile_all hall, dropWhile_all hall]

/-- the components of a relative-path reference whose first segment is plain -/
theorem parseRef_rel {seg rest q : Bytes} (h : PlainSeg seg) (hrest : ∀ c ∈ rest, notQueryStart c = true) (hq : HASH ∉ q) :
    parseRef (withQuery (seg ++ SLASH :: rest) q) =
      { scheme := none, authority := none, path := seg ++ SLASH :: rest,
        query := if q = [] then none else some q, fragment := none } := by
  have hP : ∀ c ∈ seg ++ SLASH :: rest, notQueryStart c = true := by
    intro c hc
    rcases List.mem_append.mp hc with hc | hc
    · have := h.plain c hc; simp [notGenDelim] at this; simp [notQueryStart, this]
    · rcases List.mem_cons.mp hc with hc | hc
      · subst hc; simp [notQueryStart, SLASH, QMARK, HASH]
      · exact hrest c hc
  have hw : withQuery (seg ++ SLASH :: rest) q = seg ++ SLASH :: (rest ++ if q = [] then [] else QMARK :: q) := by
    unfold withQuery; by_cases hq : q = [] <;> simp [hq]
  have h1 := (pathOf_withQuery hP q).1
  have h2 := (pathOf_withQuery hP q).2
  have h3 := query_parts hq
  unfold parseRef
  have e1 : schemeOf (withQuery (seg ++ SLASH :: rest) q) = none := by rw [hw]; exact schemeOf_none h _
  have e2 : afterScheme (withQuery (seg ++ SLASH :: rest) q) = withQuery (seg ++ SLASH :: rest) q := by
    rw [hw]; exact afterScheme_eq h _
  have e3 : authorityOf (withQuery (seg ++ SLASH :: rest) q) = none := by rw [hw]; exact authorityOf_none h _
  have e4 : afterAuthority (withQuery (seg ++ SLASH :: rest) q) = withQuery (seg ++ SLASH :: rest) q := by
    rw [hw]; exact afterAuthority_eq h _
  rw [e2, e4, e1, e3, h1, h2, h3.1, h3.2]

/-- scheme and authority do not depend on what follows the first '/' (no condition on the query) -/
theorem parseRef_noScheme {seg : Bytes} (h : PlainSeg seg) (r : Bytes) :
    (parseRef (seg ++ SLASH :: r)).scheme = none ∧ (parseRef (seg ++ SLASH :: r)).authority = none ∧
    looseSchemeOf (seg ++ SLASH :: r) = none ∧ firstSegment (seg ++ SLASH :: r) = seg := by
  refine ⟨schemeOf_none h r, ?_, looseSchemeOf_none h r, firstSegment_eq h r⟩
  show authorityOf (afterScheme _) = none
  rw [afterScheme_eq h, authorityOf_none h]


/-! ### §5.2.4: the fuel of the loop suffices -/

theorem prefix_length {a l : Bytes} (h : a.isPrefixOf l = true) : a.length ≤ l.length :=
  (List.isPrefixOf_iff_prefix.mp h).length_le

/-- every round of step 2 shortens the input buffer -/
theorem rdsStep_length_lt {inp : Bytes} (out : Bytes) (h : inp ≠ []) : (rdsStep inp out).1.length < inp.length := by
  have hpos : 0 < inp.length := List.length_pos_iff.mpr h
  unfold rdsStep
  split
  · rename_i hp; have := prefix_length hp; simp at this ⊢; omega
  split
  · rename_i hp; have := prefix_length hp; simp at this ⊢; omega
  split
  · rename_i hp; have := prefix_length hp; simp at this ⊢; omega
  split
  · rename_i hp; simp [hp]
  split
  · rename_i hp; have := prefix_length hp; simp at this ⊢; omega
  split
  · rename_i hp; simp [hp]
  split
  · simpa using hpos
  · cases inp with
    | nil => exact absurd rfl h
    | cons c r => simp [firstSegLen]; omega

/-- with at least `inp.length` rounds of fuel the result does not depend on the fuel: the loop has ended by itself -/
theorem rdsLoop_fuel : ∀ (n m : Nat) (inp out : Bytes), inp.length ≤ n → inp.length ≤ m → rdsLoop n inp out = rdsLoop m inp out := by
  intro n
  induction n with
  | zero =>
    intro m inp out hn _
    have : inp = [] := List.length_eq_zero_iff.mp (by omega)
    subst this
    cases m <;> simp [rdsLoop]
  | succ n ih =>
    intro m inp out hn hm
    cases m with
    | zero =>
      have : inp = [] := List.length_eq_zero_iff.mp (by omega)
      subst this; simp [rdsLoop]
    | succ m =>
      simp only [rdsLoop]
      by_cases h : inp = []
      · simp [h]
      · simp only [h, if_false]
        have := rdsStep_length_lt out h
        exact ih m _ _ (by omega) (by omega)

/-- the loop of step 2 -/
def rds (inp out : Bytes) : Bytes := rdsLoop inp.length inp out

theorem removeDotSegments_eq (p : Bytes) : removeDotSegments p = rds p [] := rfl

theorem rds_nil (out : Bytes) : rds [] out = out := rfl

theorem rds_step {inp : Bytes} (out : Bytes) (h : inp ≠ []) : rds inp out = rds (rdsStep inp out).1 (rdsStep inp out).2 := by
  unfold rds
  cases hl : inp.length with
  | zero => exact absurd (List.length_eq_zero_iff.mp hl) h
  | succ k =>
    have := rdsStep_length_lt out h
    simp only [rdsLoop, h, if_false]
    exact rdsLoop_fuel _ _ _ _ (by omega) (Nat.le_refl _)


/-! ### §5.2.4: the rounds that occur -/

/-- the rest of an input buffer after a complete segment: empty, or it starts with '/' -/
def SegEnd (rest : Bytes) : Prop := ∀ a ∈ rest.head?, a = SLASH

theorem segEnd_nil : SegEnd [] := by simp [SegEnd]
theorem segEnd_slash (r : Bytes) : SegEnd (SLASH :: r) := by simp [SegEnd]

theorem firstSegLen_seg {s rest : Bytes} (hs : SLASH ∉ s) (hr : SegEnd rest) (c : UInt8) :
    firstSegLen (c :: (s ++ rest)) = 1 + s.length := by
  simp only [firstSegLen]
  rw [takeWhile_app (by intro y hy; simp; intro h; exact hs (h ▸ hy)) (by intro a ha; simp [hr a ha])]

/-- 2E on "/" ++ s ++ rest, `s` a proper element: the segment moves to the output buffer -/
theorem step_seg {s rest : Bytes} (hs : GoodElem s) (hr : SegEnd rest) (out : Bytes) :
    rdsStep (SLASH :: (s ++ rest)) out = (rest, out ++ SLASH :: s) := by
  obtain ⟨hne, hd, hdd, hsl⟩ := hs
  have hlen := firstSegLen_seg hsl hr SLASH
  have hE : (List.drop (firstSegLen (SLASH :: (s ++ rest))) (SLASH :: (s ++ rest)),
      out ++ List.take (firstSegLen (SLASH :: (s ++ rest))) (SLASH :: (s ++ rest))) = (rest, out ++ SLASH :: s) := by
    rw [hlen, Nat.add_comm]
    simp [List.take_left']
  rw [← hE]
  have hSD : (SLASH == DOT) = false := by decide
  have hDS : (DOT == SLASH) = false := by decide
  unfold rdsStep
  cases s with
  | nil => exact absurd rfl hne
  | cons a s1 =>
    have ha : a ≠ SLASH := fun h => hsl (by simp [h])
    by_cases haD : a = DOT
    · subst haD
      cases s1 with
      | nil => exact absurd rfl hd
      | cons c s2 =>
        have hc : c ≠ SLASH := fun h => hsl (by simp [h])
        have hc' : (SLASH == c) = false := by simp [Ne.symm hc]
        by_cases hcD : c = DOT
        · subst hcD
          cases s2 with
          | nil => exact absurd rfl hdd
          | cons d s3 =>
            have hd' : d ≠ SLASH := fun h => hsl (by simp [h])
            have hd'' : (SLASH == d) = false := by simp [Ne.symm hd']
            simp [List.isPrefixOf, hSD, hDS, hd'']
        · have hcD' : (DOT == c) = false := by simp [Ne.symm hcD]
          simp [List.isPrefixOf, hDS, hc', hcD', hcD]
    · have haD' : (DOT == a) = false := by simp [Ne.symm haD]
      simp [List.isPrefixOf, hDS, haD', haD]

/-- 2E on a final "/" -/
theorem step_slash (out : Bytes) : rdsStep [SLASH] out = ([], out ++ [SLASH]) := by
  simp [rdsStep, List.isPrefixOf, firstSegLen, SLASH, DOT]

/-- 2B on "/./" -/
theorem step_dot (r out : Bytes) : rdsStep (SLASH :: DOT :: SLASH :: r) out = (SLASH :: r, out) := by
  simp [rdsStep, List.isPrefixOf, SLASH, DOT]

/-- 2C on "/../" -/
theorem step_dotdot (r out : Bytes) : rdsStep (SLASH :: DOT :: DOT :: SLASH :: r) out = (SLASH :: r, removeLastSegment out) := by
  simp [rdsStep, List.isPrefixOf, SLASH, DOT]

theorem removeLast_append {b : Bytes} (hb : SLASH ∉ b) (x : Bytes) : removeLastSegment (x ++ SLASH :: b) = x := by
  unfold removeLastSegment
  have : (x ++ SLASH :: b).reverse = b.reverse ++ SLASH :: x.reverse := by simp
  rw [this, dropWhile_app (by intro y hy; simp at hy ⊢; intro h; exact hb (h ▸ hy)) (by simp)]
  simp

theorem dropLastSegment_append {b : Bytes} (hb : SLASH ∉ b) (x : Bytes) : dropLastSegment (x ++ SLASH :: b) = x ++ [SLASH] := by
  unfold dropLastSegment
  have : (x ++ SLASH :: b).reverse = b.reverse ++ SLASH :: x.reverse := by simp
  rw [this, dropWhile_app (by intro y hy; simp at hy ⊢; intro h; exact hb (h ▸ hy)) (by simp)]
  simp

/-! ### §5.2.4 on the three merged paths -/

theorem rds_seg {s rest : Bytes} (hs : GoodElem s) (hr : SegEnd rest) (out : Bytes) :
    rds (SLASH :: (s ++ rest)) out = rds rest (out ++ SLASH :: s) := by
  rw [rds_step out (by simp), step_seg hs hr]

/-- proper elements pass through unchanged -/
theorem rds_join {st : List Bytes} (hst : ∀ s ∈ st, GoodElem s) {rest : Bytes} (hr : SegEnd rest) (out : Bytes) :
    rds (join st ++ rest) out = rds rest (out ++ join st) := by
  induction st generalizing out with
  | nil => simp [join]
  | cons s st ih =>
    have hjr : SegEnd (join st ++ rest) := by
      cases st with
      | nil => simpa [join] using hr
      | cons t st => rw [join_cons]; exact segEnd_slash _
    rw [join_cons, List.cons_append, List.append_assoc, rds_seg (hst s (by simp)) hjr,
      ih (fun t ht => hst t (by simp [ht]))]
    simp

theorem rds_slash (out : Bytes) : rds [SLASH] out = out ++ [SLASH] := by
  rw [rds_step out (by simp), step_slash, rds_nil]


/-! ### §5.2.2 on a relative-path reference -/

theorem resolve_rel {seg rest q : Bytes} (h : PlainSeg seg) (hrest : ∀ c ∈ rest, notQueryStart c = true) (hq : HASH ∉ q)
    {e : Bytes} (he : e ≠ []) (q0 : Option Bytes) :
    resolve e q0 (withQuery (seg ++ SLASH :: rest) q) =
      { sameOrigin := true, path := rds (dropLastSegment e ++ (seg ++ SLASH :: rest)) [],
        query := if q = [] then none else some q, fragment := none } := by
  obtain ⟨c, t, rfl, hc⟩ := head_ne_slash h
  unfold resolve
  rw [parseRef_rel h hrest hq]
  simp [resolveRef, merge, he, hc, removeDotSegments_eq]

theorem plain_dot : PlainSeg [DOT] := ⟨by simp, by simp [notGenDelim, DOT, COLON, SLASH, QMARK, HASH]⟩
theorem plain_dotdot : PlainSeg [DOT, DOT] := ⟨by simp, by simp [notGenDelim, DOT, COLON, SLASH, QMARK, HASH]⟩

/-- what the proof needs of the last element `b` of the request path -/
structure LastElem (b : Bytes) : Prop where
  good : GoodElem b
  noQuery : QMARK ∉ b
  noFragment : HASH ∉ b

theorem LastElem.notQueryStart {b : Bytes} (h : LastElem b) : ∀ c ∈ b, notQueryStart c = true := by
  intro c hc
  have h1 : c ≠ QMARK := fun e => h.noQuery (e ▸ hc)
  have h2 : c ≠ HASH := fun e => h.noFragment (e ▸ hc)
  simp [RFC3986.notQueryStart, h1, h2]

theorem LastElem.plain {b : Bytes} (h : LastElem b) (hcol : COLON ∉ b) : PlainSeg b := by
  refine ⟨h.good.1, ?_⟩
  intro c hc
  have h1 : c ≠ QMARK := fun e => h.noQuery (e ▸ hc)
  have h2 : c ≠ HASH := fun e => h.noFragment (e ▸ hc)
  have h3 : c ≠ COLON := fun e => hcol (e ▸ hc)
  have h4 : c ≠ SLASH := fun e => h.good.2.2.2 (e ▸ hc)
  simp [notGenDelim, h1, h2, h3, h4]

/-- request path without trailing slash: the Location is "b/" or "./b/" -/
theorem resolves_noslash {st : List Bytes} {b q : Bytes} (hst : ∀ s ∈ st, GoodElem s) (hb : LastElem b) (hq : HASH ∉ q)
    (q0 : Option Bytes) :
    resolve (join st ++ SLASH :: b) q0 (location (join st ++ SLASH :: b) q) =
      { sameOrigin := true, path := join st ++ SLASH :: b ++ [SLASH],
        query := if q = [] then none else some q, fragment := none } := by
  have hsl := hb.good.2.2.2
  have hne := hb.good.1
  unfold location
  rw [target_noslash hsl hne]
  unfold guardColon
  by_cases hcol : COLON ∈ b
  · rw [if_pos hcol]
    have hshape : [DOT, SLASH] ++ b ++ [SLASH] = [DOT] ++ SLASH :: (b ++ [SLASH]) := by simp
    have hrest : ∀ c ∈ b ++ [SLASH], notQueryStart c = true := by
      intro c hc
      rcases List.mem_append.mp hc with hc | hc
      · exact hb.notQueryStart c hc
      · simp at hc; subst hc; simp [notQueryStart, SLASH, QMARK, HASH]
    rw [hshape, resolve_rel plain_dot hrest hq (by simp), dropLastSegment_append hsl]
    have : join st ++ [SLASH] ++ ([DOT] ++ SLASH :: (b ++ [SLASH])) = join st ++ (SLASH :: DOT :: SLASH :: (b ++ [SLASH])) := by
      simp
    rw [this, rds_join hst (segEnd_slash _), rds_step _ (by simp), step_dot, rds_seg hb.good (segEnd_slash _), rds_slash]
    simp
  · rw [if_neg hcol]
    have hshape : b ++ [SLASH] = b ++ SLASH :: [] := rfl
    rw [hshape, resolve_rel (hb.plain hcol) (by simp) hq (by simp), dropLastSegment_append hsl]
    have : join st ++ [SLASH] ++ (b ++ [SLASH]) = join st ++ (SLASH :: (b ++ [SLASH])) := by simp
    rw [this, rds_join hst (segEnd_slash _), rds_seg hb.good (segEnd_slash _), rds_slash]
    simp

/-- request path with a trailing slash: the Location is "../b" -/
theorem resolves_slash {st : List Bytes} {b q : Bytes} (hst : ∀ s ∈ st, GoodElem s) (hb : LastElem b) (hq : HASH ∉ q)
    (q0 : Option Bytes) :
    resolve (join st ++ SLASH :: b ++ [SLASH]) q0 (location (join st ++ SLASH :: b ++ [SLASH]) q) =
      { sameOrigin := true, path := join st ++ SLASH :: b,
        query := if q = [] then none else some q, fragment := none } := by
  have hsl := hb.good.2.2.2
  have hne := hb.good.1
  unfold location
  rw [target_slash hsl hne]
  have hshape : [DOT, DOT, SLASH] ++ b = [DOT, DOT] ++ SLASH :: b := rfl
  have hbase : join st ++ SLASH :: b ++ [SLASH] = (join st ++ SLASH :: b) ++ SLASH :: [] := rfl
  rw [hshape, resolve_rel plain_dotdot hb.notQueryStart hq (by simp), hbase, dropLastSegment_append (by simp)]
  have hst' : ∀ s ∈ st ++ [b], GoodElem s := by
    intro s hs
    rcases List.mem_append.mp hs with hs | hs
    · exact hst s hs
    · simp at hs; subst hs; exact hb.good
  have : join st ++ SLASH :: b ++ [SLASH] ++ ([DOT, DOT] ++ SLASH :: b) = join (st ++ [b]) ++ (SLASH :: DOT :: DOT :: SLASH :: b) := by
    simp [join]
  rw [this, rds_join hst' (segEnd_slash _), rds_step _ (by simp), step_dotdot]
  have : [] ++ join (st ++ [b]) = join st ++ SLASH :: b := by simp [join]
  rw [this, removeLast_append hsl]
  have h := rds_seg hb.good segEnd_nil (join st)
  simp only [List.append_nil] at h
  simp [h, rds_nil]


/-! ### the shape of a redirected path -/

/-- "/" ++ proper elements joined by "/", the last one `b`, with or without a final "/" -/
def Shape (e : Bytes) : Prop :=
  ∃ (st : List Bytes) (b : Bytes), (∀ s ∈ st, GoodElem s) ∧ GoodElem b ∧
    (e = join st ++ SLASH :: b ∨ e = join st ++ SLASH :: b ++ [SLASH])

theorem shape_of_canonical {e : Bytes} (h : Canonical e) (hroot : e ≠ [SLASH]) : Shape e := by
  rcases h with h | ⟨st, hne, hgood, he⟩
  · exact absurd h hroot
  · have hst : st.dropLast ++ [st.getLast hne] = st := List.dropLast_concat_getLast hne
    have hj : join st = join st.dropLast ++ SLASH :: st.getLast hne := by
      conv => lhs; rw [← hst]
      simp [join]
    refine ⟨st.dropLast, st.getLast hne, fun s hs => hgood s (List.dropLast_subset _ hs),
      hgood _ (List.getLast_mem hne), ?_⟩
    rcases he with he | he
    · left; rw [he, hj]
    · right; rw [he, hj]

theorem join_splitSlash (t : Bytes) : join (splitSlash t) = SLASH :: t := by
  induction t with
  | nil => simp [splitSlash, join]
  | cons c t ih =>
    by_cases hc : c = SLASH
    · subst hc; rw [splitSlash_cons_slash, join_cons, ih]; simp
    · cases hs : splitSlash t with
      | nil => exact absurd hs (splitSlash_ne_nil t)
      | cons h r =>
        rw [hs, join_cons] at ih
        simp only [splitSlash, if_neg hc, hs, join_cons]
        simp only [List.cons.injEq, true_and] at ih
        simp [ih]

theorem hasDoubleSlash_cons_cons (a b : UInt8) (r : Bytes) :
    hasDoubleSlash (a :: b :: r) = ((a == SLASH && b == SLASH) || hasDoubleSlash (b :: r)) := by
  simp [hasDoubleSlash]

/-- without "//", only the first and the last element of the split can be empty -/
theorem inner_ne_nil : ∀ (t : Bytes), hasDoubleSlash t = false → ∀ s ∈ (splitSlash t).tail.dropLast, s ≠ [] := by
  intro t
  induction t with
  | nil => simp [splitSlash]
  | cons c t ih =>
    intro h s hs
    have ht : hasDoubleSlash t = false := by
      cases t with
      | nil => simp [hasDoubleSlash]
      | cons d t => rw [hasDoubleSlash_cons_cons] at h; simp at h; exact h.2
    by_cases hc : c = SLASH
    · subst hc
      rw [splitSlash_cons_slash, List.tail_cons] at hs
      cases t with
      | nil => simp [splitSlash] at hs
      | cons d t =>
        have hd : d ≠ SLASH := by
          intro hd; subst hd; rw [hasDoubleSlash_cons_cons] at h; simp at h
        cases hsp : splitSlash t with
        | nil => exact absurd hsp (splitSlash_ne_nil t)
        | cons x r =>
          have hsplit : splitSlash (d :: t) = (d :: x) :: r := by simp [splitSlash, hd, hsp]
          have ih' := ih ht
          rw [hsplit, List.tail_cons] at ih'
          rw [hsplit] at hs
          cases r with
          | nil => simp at hs
          | cons y r =>
            rw [List.dropLast_cons_cons] at hs
            rcases List.mem_cons.mp hs with hs | hs
            · subst hs; simp
            · exact ih' s hs
    · cases hsp : splitSlash t with
      | nil => exact absurd hsp (splitSlash_ne_nil t)
      | cons x r =>
        have hsplit : splitSlash (c :: t) = (c :: x) :: r := by simp [splitSlash, hc, hsp]
        rw [hsplit, List.tail_cons] at hs
        have ih' := ih ht
        rw [hsp, List.tail_cons] at ih'
        exact ih' s hs

theorem canonical_of_cleanEscaped {e : Bytes} (h : CleanEscaped e) : Canonical e := by
  obtain ⟨hroot, hnr, hds, hdot, hdd, _, _⟩ := h
  cases e with
  | nil => simp at hroot
  | cons c t =>
    simp only [List.head?_cons, Option.some.injEq] at hroot
    subst hroot
    right
    have hne := splitSlash_ne_nil t
    have hsegs : segments (SLASH :: t) = [] :: splitSlash t := splitSlash_cons_slash t
    rw [hsegs] at hdot hdd
    have hinner := inner_ne_nil (SLASH :: t) hds
    rw [splitSlash_cons_slash, List.tail_cons] at hinner
    have hst : (splitSlash t).dropLast ++ [(splitSlash t).getLast hne] = splitSlash t := List.dropLast_concat_getLast hne
    have hgood : ∀ s ∈ splitSlash t, s ≠ [] → GoodElem s := by
      intro s hs hsne
      refine ⟨hsne, ?_, ?_, mem_splitSlash_noslash hs⟩
      · intro h; subst h; exact hdot (by simp [hs])
      · intro h; subst h; exact hdd (by simp [hs])
    have hj : SLASH :: t = join (splitSlash t).dropLast ++ SLASH :: (splitSlash t).getLast hne := by
      rw [← join_splitSlash t]
      conv => lhs; rw [← hst]
      simp [join]
    by_cases hlast : (splitSlash t).getLast hne = []
    · refine ⟨(splitSlash t).dropLast, ?_, ?_, Or.inr ?_⟩
      · intro hnil; rw [hnil, hlast] at hj; simp [join] at hj; exact hnr (by simp [hj])
      · intro s hs; exact hgood s (List.dropLast_subset _ hs) (hinner s hs)
      · rw [hj, hlast]
    · refine ⟨splitSlash t, hne, ?_, Or.inl (join_splitSlash t).symm⟩
      intro s hs
      rw [← hst] at hs
      rcases List.mem_append.mp hs with hs | hs
      · exact hgood s (List.dropLast_subset _ hs) (hinner s hs)
      · simp at hs; subst hs; exact hgood _ (List.getLast_mem hne) hlast

theorem hasDoubleSlash_noslash_append {s : Bytes} (hs : SLASH ∉ s) (r : Bytes) : hasDoubleSlash (s ++ r) = hasDoubleSlash r := by
  induction s with
  | nil => rfl
  | cons a s ih =>
    have ha : a ≠ SLASH := fun h => hs (by simp [h])
    have hs' : SLASH ∉ s := fun h => hs (by simp [h])
    cases hsr : s ++ r with
    | nil =>
      have h1 : r = [] := (List.append_eq_nil_iff.mp hsr).2
      have h2 : s = [] := (List.append_eq_nil_iff.mp hsr).1
      simp [h1, h2, hasDoubleSlash]
    | cons x y =>
      rw [List.cons_append, hsr, hasDoubleSlash_cons_cons, ← hsr, ih hs']
      simp [ha]

theorem hasDoubleSlash_join {st : List Bytes} (hst : ∀ s ∈ st, GoodElem s) {tl : Bytes} (htl : tl = [] ∨ tl = [SLASH]) :
    hasDoubleSlash (join st ++ tl) = false := by
  induction st with
  | nil => rcases htl with h | h <;> simp [h, join, hasDoubleSlash]
  | cons s st ih =>
    obtain ⟨hne, _, _, hsl⟩ := hst s (by simp)
    cases s with
    | nil => exact absurd rfl hne
    | cons a s =>
      have ha : a ≠ SLASH := fun h => hsl (by simp [h])
      have := hasDoubleSlash_noslash_append hsl (join st ++ tl)
      rw [ih (fun t ht => hst t (by simp [ht]))] at this
      have e : join ((a :: s) :: st) ++ tl = SLASH :: a :: (s ++ (join st ++ tl)) := by simp [join_cons]
      rw [e, hasDoubleSlash_cons_cons]
      simp only [List.cons_append] at this
      rw [this]; simp [ha]

theorem cleanEscaped_of_canonical {e : Bytes} (h : Canonical e) (hroot : e ≠ [SLASH]) (hq : QMARK ∉ e) (hf : HASH ∉ e) :
    CleanEscaped e := by
  rcases h with h | ⟨st, hne, hgood, he⟩
  · exact absurd h hroot
  · have hns : ∀ s ∈ st, SLASH ∉ s := fun s hs => (hgood s hs).2.2.2
    have hsplit : segments e = [] :: st ∨ segments e = [] :: st ++ [[]] := by
      rcases he with he | he
      · left; rw [he]; exact splitSlash_join hns
      · right; rw [he]; unfold segments
        rw [splitSlash_append_slash, splitSlash_join hns]; simp [splitSlash]
    have hmem : ∀ x, x ≠ [] → x ∈ segments e → x ∈ st := by
      intro x hx hm
      rcases hsplit with h | h <;> rw [h] at hm <;> simp at hm
      · rcases hm with hm | hm
        · exact absurd hm hx
        · exact hm
      · rcases hm with hm | hm | hm
        · exact absurd hm hx
        · exact hm
        · exact absurd hm hx
    refine ⟨?_, hroot, ?_, ?_, ?_, hq, hf⟩
    · cases st with
      | nil => exact absurd rfl hne
      | cons s st => rcases he with he | he <;> simp [he, join_cons]
    · rcases he with he | he
      · have := hasDoubleSlash_join hgood (tl := []) (Or.inl rfl); simpa [he] using this
      · rw [he]; exact hasDoubleSlash_join hgood (Or.inr rfl)
    · intro hm; exact (hgood _ (hmem _ (by simp) hm)).2.1 rfl
    · intro hm; exact (hgood _ (hmem _ (by simp) hm)).2.2.1 rfl


/-! ### `hexEscapeNonASCII` -/

theorem hexEscapeByte_ascii {b : UInt8} (h : b < 128) : hexEscapeByte b = [b] := by
  unfold hexEscapeByte
  rw [if_neg (by simpa using h)]

theorem hexEscape_ascii {s : Bytes} (h : isASCII s = true) : hexEscapeNonASCII s = s := by
  induction s with
  | nil => rfl
  | cons b s ih =>
    simp only [isASCII, List.all_cons, Bool.and_eq_true, decide_eq_true_eq] at h
    have ih' := ih (by simpa [isASCII] using h.2)
    unfold hexEscapeNonASCII at ih' ⊢
    rw [List.flatMap_cons, ih', hexEscapeByte_ascii h.1]; rfl

theorem hexEscape_append (a b : Bytes) : hexEscapeNonASCII (a ++ b) = hexEscapeNonASCII a ++ hexEscapeNonASCII b := by
  simp [hexEscapeNonASCII]

theorem hexEscapeByte_ne_nil (b : UInt8) : hexEscapeByte b ≠ [] := by
  unfold hexEscapeByte; split <;> simp

theorem hexEscape_eq_nil {q : Bytes} : hexEscapeNonASCII q = [] ↔ q = [] := by
  cases q with
  | nil => simp [hexEscapeNonASCII]
  | cons b q =>
    simp only [hexEscapeNonASCII, List.flatMap_cons, List.append_eq_nil_iff, reduceCtorEq, iff_false, not_and]
    intro h; exact absurd h (hexEscapeByte_ne_nil b)

set_option maxRecDepth 100000 in
theorem hexEscapeByte_hash_fin : ∀ n : Fin 256, HASH ∉ hexEscapeByte (UInt8.ofFin n) ∨ UInt8.ofFin n = HASH := by decide

/-- escaping introduces no '#' (only '%' and hexadecimal digits) -/
theorem hexEscape_noHash {q : Bytes} (h : HASH ∉ q) : HASH ∉ hexEscapeNonASCII q := by
  intro hm
  simp only [hexEscapeNonASCII, List.mem_flatMap] at hm
  obtain ⟨b, hb, hm⟩ := hm
  have := hexEscapeByte_hash_fin b.toFin
  simp only [UInt8.ofFin_toFin] at this
  rcases this with h1 | h1
  · exact h1 hm
  · exact h (h1 ▸ hb)

theorem hexEscape_withQuery {t : Bytes} (ht : isASCII t = true) (q : Bytes) :
    hexEscapeNonASCII (withQuery t q) = withQuery t (hexEscapeNonASCII q) := by
  unfold withQuery
  by_cases hq : q = []
  · subst hq
    have : hexEscapeNonASCII ([] : Bytes) = [] := rfl
    simp only [this, if_true]
    exact hexEscape_ascii ht
  · have hq' : hexEscapeNonASCII q ≠ [] := fun h => hq (hexEscape_eq_nil.mp h)
    rw [if_neg hq, if_neg hq', hexEscape_append, hexEscape_ascii ht]
    have : QMARK :: q = [QMARK] ++ q := rfl
    rw [this, hexEscape_append]
    rfl

theorem isASCII_append {a b : Bytes} : isASCII (a ++ b) = (isASCII a && isASCII b) := by simp [isASCII]

theorem isASCII_target {e : Bytes} (h : Shape e) (ha : isASCII e = true) : isASCII (redirectTarget e) = true := by
  obtain ⟨st, b, _, hb, he⟩ := h
  have hb' : isASCII b = true := by
    rcases he with he | he <;> (rw [he] at ha; simp [isASCII] at ha ⊢)
    · exact ha.2.2
    · exact ha.2.2.1
  rcases he with he | he
  · rw [he, target_noslash hb.2.2.2 hb.1]
    unfold guardColon
    split
    · simp only [isASCII_append, hb']; decide
    · simp only [isASCII_append, hb']; decide
  · rw [he, target_slash hb.2.2.2 hb.1]
    simp only [isASCII_append, hb']; decide

/-! ### `cleanRef` of the serving model is the canonical form of C17 -/

theorem splitOn_eq_splitSlash (p : Bytes) : p.splitOn SLASH = splitSlash p := by
  induction p with
  | nil => simp [splitSlash]
  | cons c p ih =>
    rw [List.splitOn_cons_eq_if_modifyHead, ih]
    by_cases hc : c = SLASH
    · simp [hc, splitSlash]
    · cases hs : splitSlash p with
      | nil => exact absurd hs (splitSlash_ne_nil p)
      | cons h r => simp [hc, splitSlash, hs, List.modifyHead]

/-- one element against the stack of `cleanRef` (top of the stack last) -/
def refStep (st : List Bytes) (s : Bytes) : List Bytes :=
  if s = [] ∨ s = [DOT] then st else if s = [DOT, DOT] then st.dropLast else st ++ [s]

theorem push_reverse (acc : List Bytes) (s : Bytes) : push acc.reverse s = (refStep acc s).reverse := by
  unfold push refStep
  split
  · rfl
  · split
    · simp [List.tail_reverse]
    · simp

theorem foldl_refStep (segs : List Bytes) (acc : List Bytes) :
    (segs.foldl push acc.reverse).reverse = segs.foldl refStep acc := by
  induction segs generalizing acc with
  | nil => simp
  | cons s segs ih => rw [List.foldl_cons, List.foldl_cons, push_reverse, ih]

theorem foldl_body (st : List Bytes) (acc : Bytes) :
    st.foldl (fun acc s => acc ++ [SLASH] ++ s) acc = acc ++ join st := by
  induction st generalizing acc with
  | nil => simp [join]
  | cons s st ih => rw [List.foldl_cons, ih, join_cons]; simp

theorem join_eq_nil {st : List Bytes} : join st = [] ↔ st = [] := by
  cases st with
  | nil => simp [join]
  | cons s st => simp [join_cons]

theorem cleanRef_eq_clean (p : Bytes) : Model.cleanRef p = clean p := by
  have hstack : (splitSlash p).foldl (fun st s =>
      if s = [] ∨ s = [DOT] then st else if s = [DOT, DOT] then st.dropLast else st ++ [s]) [] = stack p := by
    show (splitSlash p).foldl refStep [] = stack p
    rw [← foldl_refStep]; rfl
  unfold Model.cleanRef clean
  simp only [foldl_body, List.nil_append, splitOn_eq_splitSlash, hstack, join_eq_nil]
  by_cases hst : stack p = []
  · simp [hst]
  · have hp : p ≠ [] := by intro h; subst h; exact hst (by decide)
    have key : ∀ L : Option Bytes, decide (p ≠ [] ∧ (L = some [] ∨ L = some [DOT])) = (L == some [] || L == some [DOT]) := by
      intro L
      rcases L with _ | l
      · simp
      · by_cases h1 : l = []
        · simp [h1, hp]
        · by_cases h2 : l = [DOT]
          · simp [h2, hp]
          · simp [h1, h2]
    simp only [hst, if_false, wantsTrailing, key]
    split <;> simp_all

/-- the guard of the serving model (`Model.onTsr`: `path == cleanRef path`) holds exactly for the canonical paths -/
theorem cleanRef_fixed_iff (p : Bytes) : p = Model.cleanRef p ↔ Canonical p := by
  rw [cleanRef_eq_clean, C17.canonical_iff_fixed]; exact eq_comm
end Fox.C08.Loc

/-! ## the theorems -/
namespace Fox.C08
open Fox Fox.Model.Location Fox.RFC3986 Fox.Spec.Clean Fox.C08.Loc

/-- The request paths a redirect is issued for, (a)–(d) of `CleanEscaped`, are exactly the fixed points of the path cleaner other
    than the root: `Canonical` is the canonical form of property C17 (`C17.canonical_iff_fixed`: `Canonical q ↔ clean q = q`). -/
theorem cleanEscaped_iff_canonical (e : Bytes) :
    CleanEscaped e ↔ Canonical e ∧ e ≠ [SLASH] ∧ QMARK ∉ e ∧ HASH ∉ e :=
  ⟨fun h => ⟨canonical_of_cleanEscaped h, h.notRoot, h.noQuery, h.noFragment⟩,
   fun h => cleanEscaped_of_canonical h.1 h.2.1 h.2.2.1 h.2.2.2⟩

/-- … and exactly the strings that pass the guard `path == CleanPath(path)` of `ServeHTTP` (the model of `CleanPath` of C17) and the
    guard `r.URL.Path != "/"`. -/
theorem cleanEscaped_iff_cleanPath (e : Bytes) :
    CleanEscaped e ↔ Model.Clean.cleanPath e = .ok e ∧ e ≠ [SLASH] ∧ QMARK ∉ e ∧ HASH ∉ e := by
  rw [cleanEscaped_iff_canonical, C17.redirect_guard_iff]

/-- … and exactly the strings that pass the guard `path == cleanRef path` of the serving model (`Model.onTsr`, `Spec.serve`). -/
theorem cleanEscaped_iff_cleanRef (e : Bytes) :
    CleanEscaped e ↔ e = Model.cleanRef e ∧ e ≠ [SLASH] ∧ QMARK ∉ e ∧ HASH ∉ e := by
  rw [cleanEscaped_iff_canonical, cleanRef_fixed_iff]

theorem shape_of_cleanEscaped {e : Bytes} (h : CleanEscaped e) : Shape e :=
  shape_of_canonical (canonical_of_cleanEscaped h) h.notRoot

/-- **The Location resolves to the adjusted path.** For every escaped request path `e` a redirect is issued for (it starts with '/',
    is not "/", has no empty, "." or ".." element, and neither '?' nor '#'), every query string `q` without '#', and whatever the
    query `q0` the client has on record for the request URL: resolving the reference `location e q` (what `localRedirect` computes,
    before `hexEscapeNonASCII`) against `scheme://authority` ++ `e` by RFC 3986 §5.2 gives the same scheme and authority, the path
    `FixTrailingSlash(e)`, no fragment, and the query `q` — where an empty `q` means that no '?' is written, so that the target has
    *no* query component (RFC: undefined; the client then requests the bare path). -/
theorem location_resolves {e q : Bytes} (he : CleanEscaped e) (hq : HASH ∉ q) (q0 : Option Bytes) :
    resolve e q0 (location e q) =
      { sameOrigin := true, path := fixTrailingSlash e, query := if q = [] then none else some q, fragment := none } := by
  obtain ⟨st, b, hst, hb, hshape⟩ := shape_of_cleanEscaped he
  have hmem : ∀ c ∈ b, c ∈ e := by
    intro c hc; rcases hshape with h | h <;> (rw [h]; simp [hc])
  have hlast : LastElem b := ⟨hb, fun h => he.noQuery (hmem _ h), fun h => he.noFragment (hmem _ h)⟩
  rcases hshape with h | h
  · rw [h, resolves_noslash hst hlast hq, fix_noslash hb.2.2.2 hb.1]
  · rw [h, resolves_slash hst hlast hq, fix_slash]

/-- the reference written by the handler: a plain first segment ("b" without ':', "." or ".."), a '/', and the rest -/
theorem location_form {e : Bytes} (he : CleanEscaped e) (q : Bytes) :
    ∃ seg r, PlainSeg seg ∧ location e q = seg ++ SLASH :: r := by
  obtain ⟨st, b, hst, hb, hshape⟩ := shape_of_cleanEscaped he
  have hmem : ∀ c ∈ b, c ∈ e := by
    intro c hc; rcases hshape with h | h <;> (rw [h]; simp [hc])
  have hlast : LastElem b := ⟨hb, fun h => he.noQuery (hmem _ h), fun h => he.noFragment (hmem _ h)⟩
  unfold location withQuery
  rcases hshape with h | h
  · rw [h, target_noslash hb.2.2.2 hb.1]
    unfold guardColon
    by_cases hcol : COLON ∈ b
    · refine ⟨[DOT], b ++ SLASH :: (if q = [] then [] else QMARK :: q), plain_dot, ?_⟩
      by_cases hq : q = [] <;> simp [hq, hcol]
    · refine ⟨b, if q = [] then [] else QMARK :: q, hlast.plain hcol, ?_⟩
      by_cases hq : q = [] <;> simp [hq, hcol]
  · rw [h, target_slash hb.2.2.2 hb.1]
    refine ⟨[DOT, DOT], b ++ (if q = [] then [] else QMARK :: q), plain_dotdot, ?_⟩
    by_cases hq : q = [] <;> simp [hq]

/-- **The Location is never an absolute URI nor a network-path reference** (the repair of F08), for every query string whatsoever:
    it has no scheme (§3.1 grammar), no scheme in the liberal reading of the Appendix B expression either (any non-empty run before
    the first ':'), no authority, and its first segment (the bytes before the first of `: / ? #`) is non-empty and is followed by '/',
    so it contains no ':' (Go's `url.Parse` rejects a first path segment with a colon). -/
theorem location_never_absolute {e : Bytes} (he : CleanEscaped e) (q : Bytes) :
    (parseRef (location e q)).scheme = none ∧ (parseRef (location e q)).authority = none ∧
    looseSchemeOf (location e q) = none ∧
    firstSegment (location e q) ≠ [] ∧
    ((location e q).drop (firstSegment (location e q)).length).head? = some SLASH := by
  obtain ⟨seg, r, hseg, hl⟩ := location_form he q
  obtain ⟨h1, h2, h3, h4⟩ := parseRef_noScheme hseg r
  rw [hl]
  refine ⟨h1, h2, h3, ?_, ?_⟩
  · rw [h4]; exact hseg.ne
  · rw [h4]; simp

/-- `FixTrailingSlash(e)` and `e` differ by exactly one trailing '/': one of them is the other followed by '/', and the shorter one
    does not end in '/'. -/
theorem location_adjusts_slash {e : Bytes} (he : CleanEscaped e) :
    (fixTrailingSlash e = e ++ [SLASH] ∧ e.getLast? ≠ some SLASH) ∨
    (e = fixTrailingSlash e ++ [SLASH] ∧ (fixTrailingSlash e).getLast? ≠ some SLASH) := by
  obtain ⟨st, b, _, hb, hshape⟩ := shape_of_cleanEscaped he
  rcases hshape with h | h
  · left; rw [h]; exact ⟨fix_noslash hb.2.2.2 hb.1 _, last_ne_slash hb.2.2.2 hb.1 _⟩
  · right; rw [h, fix_slash]; exact ⟨rfl, last_ne_slash hb.2.2.2 hb.1 _⟩

/-- for every string: `FixTrailingSlash` appends one '/' or removes one '/' -/
theorem fixTrailingSlash_cases (e : Bytes) : fixTrailingSlash e = e ++ [SLASH] ∨ e = fixTrailingSlash e ++ [SLASH] := by
  unfold fixTrailingSlash
  split
  · rename_i h
    right
    have hne : e ≠ [] := by intro h0; simp [h0] at h
    have := List.dropLast_concat_getLast hne
    have hl : e.getLast hne = SLASH := by
      have := h.2; rw [List.getLast?_eq_some_getLast hne] at this; exact Option.some.inj this
    rw [← hl]; exact this.symm
  · left; rfl

/-- `FixTrailingSlash` is an involution on every non-empty string that does not end in "//" (or is "//"); the empty string and
    e.g. "/a//" are not restored -/
theorem fixTrailingSlash_involutive {e : Bytes} (hne : e ≠ []) (hdd : ∀ x, x ≠ [] → e ≠ x ++ [SLASH, SLASH]) :
    fixTrailingSlash (fixTrailingSlash e) = e := by
  by_cases h : e.length > 1 ∧ e.getLast? = some SLASH
  · have hl : e.getLast hne = SLASH := by
      have := h.2; rw [List.getLast?_eq_some_getLast hne] at this; exact Option.some.inj this
    have hd := List.dropLast_concat_getLast hne
    rw [hl] at hd
    have h1 : fixTrailingSlash e = e.dropLast := by unfold fixTrailingSlash; rw [if_pos h]
    rw [h1]
    unfold fixTrailingSlash
    by_cases h2 : e.dropLast.length > 1 ∧ e.dropLast.getLast? = some SLASH
    · exfalso
      have hne2 : e.dropLast ≠ [] := by intro h0; simp [h0] at h2
      have hl2 : e.dropLast.getLast hne2 = SLASH := by
        have := h2.2; rw [List.getLast?_eq_some_getLast hne2] at this; exact Option.some.inj this
      have hd2 := List.dropLast_concat_getLast hne2
      rw [hl2] at hd2
      apply hdd e.dropLast.dropLast
      · intro h0
        have h3 := congrArg List.length h0
        simp only [List.length_dropLast, List.length_nil] at h3
        have h4 := h2.1
        simp only [List.length_dropLast] at h4
        omega
      · rw [← hd, ← hd2]; simp
    · rw [if_neg h2]; exact hd
  · have h1 : fixTrailingSlash e = e ++ [SLASH] := by unfold fixTrailingSlash; rw [if_neg h]
    rw [h1]
    unfold fixTrailingSlash
    rw [if_pos ⟨by have := List.length_pos_iff.mpr hne; simp; omega, List.getLast?_concat⟩, List.dropLast_concat]

theorem fixTrailingSlash_involutive_of_clean {e : Bytes} (he : CleanEscaped e) : fixTrailingSlash (fixTrailingSlash e) = e := by
  obtain ⟨st, b, _, hb, hshape⟩ := shape_of_cleanEscaped he
  rcases hshape with h | h
  · rw [h, fix_noslash hb.2.2.2 hb.1, fix_slash]
  · rw [h, fix_slash, fix_noslash hb.2.2.2 hb.1]

/-! ### the header value: `hexEscapeNonASCII` -/

/-- `hexEscapeNonASCII` is the identity on ASCII input (`URL.EscapedPath` is always ASCII; `URL.RawQuery` need not be). -/
theorem hexEscapeNonASCII_ascii {s : Bytes} (h : isASCII s = true) : hexEscapeNonASCII s = s := hexEscape_ascii h

/-- On an ASCII path the header value is the Location computed with the escaped query: escaping only touches the query. -/
theorem locationHeader_eq {e : Bytes} (he : CleanEscaped e) (ha : isASCII e = true) (q : Bytes) :
    locationHeader e q = location e (hexEscapeNonASCII q) := by
  unfold locationHeader location
  exact hexEscape_withQuery (isASCII_target (shape_of_cleanEscaped he) ha) q

/-- **The header value resolves to the adjusted path**, with the query string kept up to the %-escaping of its non-ASCII bytes
    (for an ASCII query: kept byte for byte). -/
theorem locationHeader_resolves {e q : Bytes} (he : CleanEscaped e) (ha : isASCII e = true) (hq : HASH ∉ q) (q0 : Option Bytes) :
    resolve e q0 (locationHeader e q) =
      { sameOrigin := true, path := fixTrailingSlash e,
        query := if q = [] then none else some (hexEscapeNonASCII q), fragment := none } := by
  rw [locationHeader_eq he ha, location_resolves he (hexEscape_noHash hq)]
  by_cases h : q = []
  · simp [h, hexEscapeNonASCII]
  · have : hexEscapeNonASCII q ≠ [] := fun h' => h (hexEscape_eq_nil.mp h')
    simp [h, this]

theorem locationHeader_never_absolute {e : Bytes} (he : CleanEscaped e) (ha : isASCII e = true) (q : Bytes) :
    (parseRef (locationHeader e q)).scheme = none ∧ (parseRef (locationHeader e q)).authority = none ∧
    looseSchemeOf (locationHeader e q) = none := by
  rw [locationHeader_eq he ha]
  have := location_never_absolute he (hexEscapeNonASCII q)
  exact ⟨this.1, this.2.1, this.2.2.1⟩

end Fox.C08

namespace Fox.C08.Loc
open Fox Fox.Model.Location Fox.RFC3986 Fox.Spec.Clean

/-! ### the F08 repair for *every* path: the first delimiter of the Location is never ':' -/

/-- a reference whose bytes before the first '/' contain no ':' and do not start the string with '/' -/
theorem next_delim_ne_colon (pre post : Bytes) (hc : COLON ∉ pre) :
    ((pre ++ SLASH :: post).drop (firstSegment (pre ++ SLASH :: post)).length).head? ≠ some COLON := by
  unfold firstSegment
  induction pre with
  | nil => simp [notGenDelim, SLASH, COLON]
  | cons c pre ih =>
    have hc' : COLON ∉ pre := fun h => hc (by simp [h])
    have hcc : c ≠ COLON := fun h => hc (by simp [h])
    by_cases hn : notGenDelim c = true
    · simp only [List.cons_append, List.takeWhile_cons, hn, if_true, List.length_cons, List.drop_succ_cons]
      exact ih hc'
    · simp only [List.cons_append, List.takeWhile_cons, hn]
      simp [hcc]

theorem noScheme_of_noColon (pre post : Bytes) (hc : COLON ∉ pre) (hne : pre ≠ []) (hs : SLASH ∉ pre) :
    (parseRef (pre ++ SLASH :: post)).scheme = none ∧ (parseRef (pre ++ SLASH :: post)).authority = none ∧
    looseSchemeOf (pre ++ SLASH :: post) = none := by
  have h1 : schemeOf (pre ++ SLASH :: post) = none := by
    unfold schemeOf; rw [if_neg (fun h => next_delim_ne_colon pre post hc h.2)]
  have h2 : looseSchemeOf (pre ++ SLASH :: post) = none := by
    unfold looseSchemeOf; rw [if_neg (fun h => next_delim_ne_colon pre post hc h.2)]
  refine ⟨h1, ?_, h2⟩
  show authorityOf (afterScheme _) = none
  unfold afterScheme; rw [h1]
  cases pre with
  | nil => exact absurd rfl hne
  | cons c t =>
    have hcs : c ≠ SLASH := fun h => hs (by simp [h])
    have : (SLASH == c) = false := by simp [Ne.symm hcs]
    simp [authorityOf, List.isPrefixOf, this]

theorem afterLast_noslash (p : Bytes) : SLASH ∉ afterLastSlash p := by
  unfold afterLastSlash
  intro h
  have hall := List.all_takeWhile (p := fun x => decide (x ≠ SLASH)) (l := p.reverse)
  rw [List.all_eq_true] at hall
  have := hall SLASH (List.mem_reverse.mp h)
  simp at this

theorem dropWhile_nil_all {p : UInt8 → Bool} {l : Bytes} (h : l.dropWhile p = []) : ∀ x ∈ l, p x = true := by
  induction l with
  | nil => simp
  | cons a l ih =>
    rw [List.dropWhile_cons] at h
    by_cases ha : p a = true
    · simp only [ha, if_true] at h
      intro x hx
      rcases List.mem_cons.mp hx with hx | hx
      · exact hx ▸ ha
      · exact ih h x hx
    · simp [ha] at h

theorem strip_last {p : Bytes} (h : ∃ c ∈ p, c ≠ SLASH) :
    ∃ d r, (p.reverse.dropWhile (· = SLASH)) = d :: r ∧ d ≠ SLASH := by
  cases hd : p.reverse.dropWhile (· = SLASH) with
  | nil =>
    obtain ⟨c, hc, hcs⟩ := h
    have := dropWhile_nil_all hd c (by simpa using hc)
    simp at this; exact absurd this hcs
  | cons d r =>
    refine ⟨d, r, rfl, ?_⟩
    have hne : p.reverse.dropWhile (· = SLASH) ≠ [] := by rw [hd]; simp
    have := List.head_dropWhile_not (fun x => decide (x = SLASH)) (l := p.reverse) hne
    simp only [hd, List.head_cons] at this
    simpa using this

/-- `path.Base` of a string with a byte other than '/' is a non-empty element without '/' -/
theorem pathBase_elem {p : Bytes} (h : ∃ c ∈ p, c ≠ SLASH) : pathBase p ≠ [] ∧ SLASH ∉ pathBase p := by
  have hp : p ≠ [] := by obtain ⟨c, hc, _⟩ := h; intro h0; simp [h0] at hc
  obtain ⟨d, r, hd, hds⟩ := strip_last h
  have hal : afterLastSlash (stripTrailingSlashes p) ≠ [] := by
    unfold afterLastSlash stripTrailingSlashes
    rw [hd, List.reverse_reverse, List.takeWhile_cons]
    simp [hds]
  unfold pathBase
  rw [if_neg hp, if_neg hal]
  exact ⟨hal, afterLast_noslash _⟩

theorem fix_has_elem {e : Bytes} (h : ∃ c ∈ e, c ≠ SLASH) : ∃ c ∈ fixTrailingSlash e, c ≠ SLASH := by
  obtain ⟨c, hc, hcs⟩ := h
  refine ⟨c, ?_, hcs⟩
  rcases fixTrailingSlash_cases e with h | h
  · rw [h]; simp [hc]
  · rw [h] at hc
    rcases List.mem_append.mp hc with hc | hc
    · exact hc
    · simp at hc; exact absurd hc hcs

end Fox.C08.Loc

namespace Fox.C08
open Fox Fox.Model.Location Fox.RFC3986 Fox.Spec.Clean Fox.C08.Loc

/-- **The F08 repair, unconditionally.** For *every* string `e` with a byte other than '/' (clean or not, escaped or not) and every
    query string: the Location has no scheme (strict or liberal reading) and no authority, so the redirect can only stay on the
    origin of the request. (For the strings consisting of slashes only, `path.Base` is "/" and the Location is "//": see `LocEx`.) -/
theorem location_never_absolute_any {e : Bytes} (he : ∃ c ∈ e, c ≠ SLASH) (q : Bytes) :
    (parseRef (location e q)).scheme = none ∧ (parseRef (location e q)).authority = none ∧
    looseSchemeOf (location e q) = none := by
  obtain ⟨hbne, hbs⟩ := pathBase_elem (fix_has_elem he)
  have hform : ∃ pre post, COLON ∉ pre ∧ pre ≠ [] ∧ SLASH ∉ pre ∧ redirectTarget e = pre ++ SLASH :: post := by
    unfold redirectTarget
    split
    · unfold guardColon
      by_cases hcol : COLON ∈ pathBase (fixTrailingSlash e)
      · exact ⟨[DOT], pathBase (fixTrailingSlash e) ++ [SLASH], by decide, by simp, by decide, by simp [hcol]⟩
      · exact ⟨pathBase (fixTrailingSlash e), [], hcol, hbne, hbs, by simp [hcol]⟩
    · exact ⟨[DOT, DOT], pathBase (fixTrailingSlash e), by decide, by simp, by decide, by simp⟩
  obtain ⟨pre, post, h1, h2, h3, ht⟩ := hform
  have hl : location e q = pre ++ SLASH :: (post ++ if q = [] then [] else QMARK :: q) := by
    unfold location withQuery; rw [ht]
    by_cases hq : q = [] <;> simp [hq]
  rw [hl]
  exact noScheme_of_noColon pre _ h1 h2 h3

/-- the redirect as the serving model issues it (`Model.onTsr`: `path == cleanRef path`, and the request is not for "/"), for a request
    whose escaped path is the string the lookup ran on -/
theorem location_resolves_of_guard {e q : Bytes} (hguard : e = Model.cleanRef e) (hroot : e ≠ [SLASH])
    (hqm : QMARK ∉ e) (hf : HASH ∉ e) (hq : HASH ∉ q) (q0 : Option Bytes) :
    resolve e q0 (location e q) =
      { sameOrigin := true, path := fixTrailingSlash e, query := if q = [] then none else some q, fragment := none } :=
  location_resolves ((cleanEscaped_iff_cleanRef e).mpr ⟨hguard, hroot, hqm, hf⟩) hq q0

end Fox.C08

/-! ## non-vacuity, the F08 witness, and why each hypothesis is there -/
namespace Fox.C08.LocEx
open Fox Fox.Model.Location Fox.RFC3986

/-- bytes of a string literal -/
def s (x : String) : Bytes := x.toUTF8.toList

def tgt (path : String) (query : Option String := none) (fragment : Option String := none) (sameOrigin : Bool := true) : Target :=
  { sameOrigin, path := s path, query := query.map s, fragment := fragment.map s }

/- the handler -/
#guard location (s "/foo") [] = s "foo/"
#guard location (s "/foo/") [] = s "../foo"
#guard location (s "/a/b:c") [] = s "./b:c/"
#guard location (s "/a/b:c/") [] = s "../b:c"
#guard location (s "/a/b%3Fc/") [] = s "../b%3Fc"
#guard location (s "/a/b%3Fc") (s "x=1&y=2") = s "b%3Fc/?x=1&y=2"
#guard location (s "/a/..%2F/") (s "x=1&y=2") = s "../..%2F?x=1&y=2"
#guard location (s "/https:evil.com") [] = s "./https:evil.com/"
#guard locationHeader (s "/foo") (s "k=é") = s "foo/?k=%c3%a9"
#guard pathBase (s "") = s "." ∧ pathBase (s "///") = s "/" ∧ pathBase (s "/a/b//") = s "b" ∧ pathBase (s "ab") = s "ab"
#guard fixTrailingSlash (s "/") = s "//" ∧ fixTrailingSlash (s "") = s "/" ∧ fixTrailingSlash (s "/a/") = s "/a"

/- … and where it leads -/
#guard resolve (s "/foo") none (location (s "/foo") []) = tgt "/foo/"
#guard resolve (s "/foo/") none (location (s "/foo/") []) = tgt "/foo"
#guard resolve (s "/a/b:c") none (location (s "/a/b:c") []) = tgt "/a/b:c/"
#guard resolve (s "/a/b:c/") none (location (s "/a/b:c/") []) = tgt "/a/b:c"
#guard resolve (s "/a/b%3Fc/") (some (s "x=1&y=2")) (location (s "/a/b%3Fc/") (s "x=1&y=2")) = tgt "/a/b%3Fc" (query := "x=1&y=2")
#guard resolve (s "/a/b%3Fc") none (location (s "/a/b%3Fc") (s "x=1&y=2")) = tgt "/a/b%3Fc/" (query := "x=1&y=2")
#guard resolve (s "/a/..%2F/") none (location (s "/a/..%2F/") []) = tgt "/a/..%2F"
#guard resolve (s "/a/%2E%2E") none (location (s "/a/%2E%2E") []) = tgt "/a/%2E%2E/"
#guard resolve (s "/https:evil.com") none (location (s "/https:evil.com") []) = tgt "/https:evil.com/"
#guard resolve (s "/foo") none (locationHeader (s "/foo") (s "k=é")) = tgt "/foo/" (query := "k=%c3%a9")

/- the hypotheses are decidable and hold of these -/
example : CleanEscaped [47, 102, 111, 111] := by decide                               -- "/foo"
example : CleanEscaped [47, 97, 47, 98, 58, 99, 47] := by decide                      -- "/a/b:c/"
example : CleanEscaped [47, 97, 47, 46, 46, 37, 50, 70, 47] := by decide              -- "/a/..%2F/"
example : ¬ CleanEscaped [47] := by decide                                            -- "/"
example : ¬ CleanEscaped [47, 97, 47, 47, 98] := by decide                            -- "/a//b"
example : ¬ CleanEscaped [47, 97, 47, 46, 46] := by decide                            -- "/a/.."
example : ¬ CleanEscaped [47, 97, 47, 46, 47] := by decide                            -- "/a/./"
example : ¬ CleanEscaped [97] := by decide                                            -- "a"

/-- an instance of the theorem, checked by evaluation as well: "/a/b:c" with the query "x=1" -/
example : resolve [47, 97, 47, 98, 58, 99] none (location [47, 97, 47, 98, 58, 99] [120, 61, 49]) =
    { sameOrigin := true, path := [47, 97, 47, 98, 58, 99, 47], query := some [120, 61, 49], fragment := none } :=
  C08.location_resolves (by decide) (by decide) none

/-! ### F08: without the "./" prefix the Location of "/https:evil.com" is an absolute URI -/

/-- the handler before the repair: `localRedirect(w, req, path.Base(url)+"/", code)` -/
def unrepairedTarget (escPath : Bytes) : Bytes :=
  if (fixTrailingSlash escPath).getLast? = some SLASH then pathBase (fixTrailingSlash escPath) ++ [SLASH]
  else [DOT, DOT, SLASH] ++ pathBase (fixTrailingSlash escPath)

#guard unrepairedTarget (s "/https:evil.com") = s "https:evil.com/"
#guard (parseRef (s "https:evil.com/")).scheme = some (s "https")
#guard resolve (s "/https:evil.com") none (s "https:evil.com/") = tgt "evil.com/" (sameOrigin := false)
-- "https:evil.com/" is parsed with the scheme "https"
example : (parseRef [104, 116, 116, 112, 115, 58, 101, 118, 105, 108, 46, 99, 111, 109, 47]).scheme
    = some [104, 116, 116, 112, 115] := by decide
-- "./https:evil.com/" is not
example : (parseRef [46, 47, 104, 116, 116, 112, 115, 58, 101, 118, 105, 108, 46, 99, 111, 109, 47]).scheme = none := by decide
-- "../a:b" is safe: the first segment is ".."
#guard (parseRef (s "../a:b")).scheme = none ∧ looseSchemeOf (s "../a:b") = none
-- a first segment that is not a scheme name by §3.1 but contains a colon: the strict parser sees a path, the Appendix B expression a scheme
#guard (parseRef (s "1a:b/")).scheme = none ∧ looseSchemeOf (s "1a:b/") = some (s "1a")

/-! ### each hypothesis of `location_resolves` is needed -/

-- (b) "/" (excluded by `r.URL.Path != "/"` in ServeHTTP): the Location would be "//", a network-path reference with an empty authority
#guard location (s "/") [] = s "//"
#guard (parseRef (s "//")).authority = some []
#guard (resolve (s "/") none (location (s "/") [])).sameOrigin = false
-- (c) an empty element: "/a//" is answered with "a/", which leads to "/a//a/" and not to "/a/"
#guard fixTrailingSlash (s "/a//") = s "/a/"
#guard resolve (s "/a//") none (location (s "/a//") []) = tgt "/a//a/"
-- (d) a "." element: "/a/./" is answered with "../.", which leads to "/" while the adjusted path "/a/." denotes "/a/"
#guard resolve (s "/a/./") none (location (s "/a/./") []) = tgt "/"
#guard removeDotSegments (fixTrailingSlash (s "/a/./")) = s "/a/"
-- (d) a ".." element: "/a/b/.." is answered with "../", which leads to "/a/" …
#guard resolve (s "/a/b/..") none (location (s "/a/b/..") []) = tgt "/a/"
-- … and "/a/b/../" with "../..", which leads to "/" while the adjusted path "/a/b/.." denotes "/a/"
#guard resolve (s "/a/b/../") none (location (s "/a/b/../") []) = tgt "/"
#guard removeDotSegments (fixTrailingSlash (s "/a/b/../")) = s "/a/"
-- (e) a raw '?' in the path (EscapedPath writes %3F): the element is cut at the '?'
#guard resolve (s "/a?b") none (location (s "/a?b") []) = tgt "/a" (query := "b/")
-- a raw '#' in the query (a request line `GET /foo?x#y`; `url.ParseRequestURI` keeps it in RawQuery): the client sees a fragment
#guard resolve (s "/foo") none (location (s "/foo") (s "x#y")) = tgt "/foo/" (query := "x") (fragment := "y")
-- `FixTrailingSlash` is not an involution on "" and on "/a//"
#guard fixTrailingSlash (fixTrailingSlash (s "")) = s "//" ∧ fixTrailingSlash (fixTrailingSlash (s "/a//")) = s "/a"

/-! ### scope: `e` is `req.URL.EscapedPath()`, which is not always the string the lookup ran on

  `ServeHTTP` looks up, and guards with `path == CleanPath(path)`, the string `path` = `URL.RawPath` if set, else `URL.Path`; the
  handler starts from `URL.EscapedPath()`. The two denote the same path whenever `RawPath` is a valid encoding (then
  `EscapedPath() = RawPath`) or empty (then `EscapedPath()` escapes `Path` byte-wise, which keeps '/', '.' and the element
  structure). But `net/http` accepts request targets with bytes that `url.validEncoded` rejects (`"`, `<`, `>`, `\`, `^`, `` ` ``,
  `{`, `|`, `}`, bytes ≥ 0x80); then `EscapedPath()` re-encodes the *decoded* `Path`, in which `%2E`, `%2E%2E`, `%2F` of the raw path
  have become real dots and slashes, so hypothesis (d) can fail for `e` although the guard passed for `RawPath`. Observed on the
  real router (route `/{a}/{b}/`, redirect enabled):
      GET /é/%2E%2E   (raw UTF-8)   EscapedPath = "/%C3%A9/.."    Location: ../    → "/"            (the route's path is "/é/%2E%2E/")
      GET /é/a%2Fb    (raw UTF-8)   EscapedPath = "/%C3%A9/a/b"   Location: b/     → ".../b/"       (the route's path is "/é/a%2Fb/")
  The target stays on the same origin (`C08.location_never_absolute_any`: for *every* `e` with a byte other than '/', the Location
  has neither scheme nor authority), so this is a redirect to the wrong path, not an open redirect. The model reproduces the
  first line: -/
#guard ¬ CleanEscaped (s "/%C3%A9/..")
#guard location (s "/%C3%A9/..") [] = s "../"
#guard resolve (s "/%C3%A9/..") none (location (s "/%C3%A9/..") []) = tgt "/"

/-! ### the reference resolver against the examples of RFC 3986 §5.4 (base `http://a/b/c/d;p?q`) -/

def r54 (ref : String) : Target := resolve (s "/b/c/d;p") (some (s "q")) (s ref)

-- §5.4.1 normal examples
#guard (r54 "g:h").sameOrigin = false ∧ (parseRef (s "g:h")).scheme = some (s "g") ∧ (parseRef (s "g:h")).path = s "h"
#guard r54 "g" = tgt "/b/c/g"
#guard r54 "./g" = tgt "/b/c/g"
#guard r54 "g/" = tgt "/b/c/g/"
#guard r54 "/g" = tgt "/g"
#guard r54 "//g" = tgt "" (sameOrigin := false) ∧ (parseRef (s "//g")).authority = some (s "g")
#guard r54 "?y" = tgt "/b/c/d;p" (query := "y")
#guard r54 "g?y" = tgt "/b/c/g" (query := "y")
#guard r54 "#s" = tgt "/b/c/d;p" (query := "q") (fragment := "s")
#guard r54 "g#s" = tgt "/b/c/g" (fragment := "s")
#guard r54 "g?y#s" = tgt "/b/c/g" (query := "y") (fragment := "s")
#guard r54 ";x" = tgt "/b/c/;x"
#guard r54 "g;x" = tgt "/b/c/g;x"
#guard r54 "g;x?y#s" = tgt "/b/c/g;x" (query := "y") (fragment := "s")
#guard r54 "" = tgt "/b/c/d;p" (query := "q")
#guard r54 "." = tgt "/b/c/"
#guard r54 "./" = tgt "/b/c/"
#guard r54 ".." = tgt "/b/"
#guard r54 "../" = tgt "/b/"
#guard r54 "../g" = tgt "/b/g"
#guard r54 "../.." = tgt "/"
#guard r54 "../../" = tgt "/"
#guard r54 "../../g" = tgt "/g"
-- §5.4.2 abnormal examples
#guard r54 "../../../g" = tgt "/g"
#guard r54 "../../../../g" = tgt "/g"
#guard r54 "/./g" = tgt "/g"
#guard r54 "/../g" = tgt "/g"
#guard r54 "g." = tgt "/b/c/g."
#guard r54 ".g" = tgt "/b/c/.g"
#guard r54 "g.." = tgt "/b/c/g.."
#guard r54 "..g" = tgt "/b/c/..g"
#guard r54 "./../g" = tgt "/b/g"
#guard r54 "./g/." = tgt "/b/c/g/"
#guard r54 "g/./h" = tgt "/b/c/g/h"
#guard r54 "g/../h" = tgt "/b/c/h"
#guard r54 "g;x=1/./y" = tgt "/b/c/g;x=1/y"
#guard r54 "g;x=1/../y" = tgt "/b/c/y"
#guard r54 "g?y/./x" = tgt "/b/c/g" (query := "y/./x")
#guard r54 "g?y/../x" = tgt "/b/c/g" (query := "y/../x")
#guard r54 "g#s/./x" = tgt "/b/c/g" (fragment := "s/./x")
#guard r54 "g#s/../x" = tgt "/b/c/g" (fragment := "s/../x")
-- §5.2.4 worked examples
#guard removeDotSegments (s "/a/b/c/./../../g") = s "/a/g"
#guard removeDotSegments (s "mid/content=5/../6") = s "mid/6"

end Fox.C08.LocEx
