import FoxModel.Model.LocationRaw
import FoxModel.Props.C08Location
/-
  Property C08, raw branch: the string that `defaultRedirectTrailingSlashHandler` feeds to `FixTrailingSlash` when the request has a
  `RawPath` that differs from `EscapedPath()` is `escapeRawPath(RawPath)`. This file proves that `escapeRawPath` preserves everything
  `C08.location_resolves` needs (the '/'-structure, emptiness, the "." and ".." elements, the leading '/') and removes what it forbids
  ('?', '#', non-ASCII bytes), so that the theorem applies to what the handler really does.
-/
namespace Fox.C08.Raw
open Fox Fox.Model.Location Fox.RFC3986 Fox.Spec.Clean Fox.C08.Loc

/-! ### bytes -/

/-- the bytes `escapeRawPath` can write: path literals and '%' (hexadecimal digits are path literals) -/
def safeByte (c : UInt8) : Bool := pathLiteral c || c == PERCENT

set_option maxRecDepth 100000 in
theorem byte_facts_fin : ∀ n : Fin 256,
    ((encByte (UInt8.ofFin n)).all safeByte = true) ∧
    (pathLiteral (UInt8.ofFin n) = true → UInt8.ofFin n ≠ PERCENT) ∧
    (isHexDigit (UInt8.ofFin n) = true → pathLiteral (UInt8.ofFin n) = true ∧ UInt8.ofFin n ≠ SLASH) ∧
    (safeByte (UInt8.ofFin n) = true → UInt8.ofFin n ≠ QMARK ∧ UInt8.ofFin n ≠ HASH ∧ UInt8.ofFin n < 128) ∧
    (pathLiteral (UInt8.ofFin n) = false →
      isHexDigit (upperHex (UInt8.ofFin n >>> 4)) = true ∧ isHexDigit (upperHex (UInt8.ofFin n &&& 15)) = true) := by decide

theorem byte_facts (c : UInt8) :
    ((encByte c).all safeByte = true) ∧
    (pathLiteral c = true → c ≠ PERCENT) ∧
    (isHexDigit c = true → pathLiteral c = true ∧ c ≠ SLASH) ∧
    (safeByte c = true → c ≠ QMARK ∧ c ≠ HASH ∧ c < 128) ∧
    (pathLiteral c = false → isHexDigit (upperHex (c >>> 4)) = true ∧ isHexDigit (upperHex (c &&& 15)) = true) := by
  have := byte_facts_fin c.toFin
  simpa only [UInt8.ofFin_toFin] using this

theorem pathLiteral_ne_percent {c : UInt8} (h : pathLiteral c = true) : c ≠ PERCENT := (byte_facts c).2.1 h
theorem hex_literal {c : UInt8} (h : isHexDigit c = true) : pathLiteral c = true := ((byte_facts c).2.2.1 h).1
theorem hex_ne_slash {c : UInt8} (h : isHexDigit c = true) : c ≠ SLASH := ((byte_facts c).2.2.1 h).2
theorem hex_safe {c : UInt8} (h : isHexDigit c = true) : safeByte c = true := by simp [safeByte, hex_literal h]
theorem safe_percent : safeByte PERCENT = true := by decide
theorem pathLiteral_slash : pathLiteral SLASH = true := by decide
theorem pathLiteral_dot : pathLiteral DOT = true := by decide
theorem slash_ne_percent : SLASH ≠ PERCENT := by decide
theorem dot_ne_percent : DOT ≠ PERCENT := by decide

theorem encByte_literal {c : UInt8} (h : pathLiteral c = true) : encByte c = [c] := by simp [encByte, h]
theorem encByte_other {c : UInt8} (h : pathLiteral c = false) :
    encByte c = [PERCENT, upperHex (c >>> 4), upperHex (c &&& 15)] := by simp [encByte, h]

theorem encByte_safe (c : UInt8) : ∀ x ∈ encByte c, safeByte x = true := by
  have := (byte_facts c).1
  simpa [List.all_eq_true] using this

/-- a byte other than '/' is never encoded with a '/' -/
theorem encByte_noslash {c : UInt8} (hc : c ≠ SLASH) : SLASH ∉ encByte c := by
  cases h : pathLiteral c with
  | true => rw [encByte_literal h]; simpa using Ne.symm hc
  | false =>
    rw [encByte_other h]
    have h1 := hex_ne_slash ((byte_facts c).2.2.2.2 h).1
    have h2 := hex_ne_slash ((byte_facts c).2.2.2.2 h).2
    simp [Ne.symm h1, Ne.symm h2, slash_ne_percent]

/-! ### the three equations of `escapeRawPath` -/

/-- the input starts with a well-formed `%XX` escape -/
def isTriple : Bytes → Bool
  | c :: h1 :: h2 :: _ => c == PERCENT && isHexDigit h1 && isHexDigit h2
  | _ => false

theorem escapeRawPath_nil : escapeRawPath [] = [] := by rw [escapeRawPath]

theorem escapeRawPath_triple {h1 h2 : UInt8} (rest : Bytes) (e1 : isHexDigit h1 = true) (e2 : isHexDigit h2 = true) :
    escapeRawPath (PERCENT :: h1 :: h2 :: rest) = PERCENT :: h1 :: h2 :: escapeRawPath rest := by
  rw [escapeRawPath]; simp [e1, e2]

theorem escapeRawPath_step {c : UInt8} {t : Bytes} (h : isTriple (c :: t) = false) :
    escapeRawPath (c :: t) = encByte c ++ escapeRawPath t := by
  match t, h with
  | [], _ => conv => lhs; unfold escapeRawPath
  | [a], _ => conv => lhs; unfold escapeRawPath
  | a :: b :: r, h =>
    rw [escapeRawPath]
    simp only [isTriple] at h
    simp [h]

theorem escapeRawPath_literal {c : UInt8} (t : Bytes) (h : pathLiteral c = true) :
    escapeRawPath (c :: t) = c :: escapeRawPath t := by
  have hc := pathLiteral_ne_percent h
  have : isTriple (c :: t) = false := by
    match t with
    | [] => rfl
    | [a] => rfl
    | a :: b :: r => simp [isTriple, hc]
  rw [escapeRawPath_step this, encByte_literal h]; rfl

theorem isTriple_true {l : Bytes} (h : isTriple l = true) :
    ∃ h1 h2 rest, l = PERCENT :: h1 :: h2 :: rest ∧ isHexDigit h1 = true ∧ isHexDigit h2 = true := by
  match l, h with
  | c :: h1 :: h2 :: rest, h =>
    simp only [isTriple, Bool.and_eq_true, beq_iff_eq] at h
    exact ⟨h1, h2, rest, by rw [h.1.1], h.1.2, h.2⟩

/-- the head of the image: a literal byte is copied, everything else starts a `%XX` triple -/
theorem escapeRawPath_head (c : UInt8) (t : Bytes) :
    (pathLiteral c = true ∧ escapeRawPath (c :: t) = c :: escapeRawPath t) ∨
    (pathLiteral c = false ∧ ∃ a b r, escapeRawPath (c :: t) = PERCENT :: a :: b :: r) := by
  cases h : pathLiteral c with
  | true => left; exact ⟨rfl, escapeRawPath_literal t h⟩
  | false =>
    right
    refine ⟨rfl, ?_⟩
    cases ht : isTriple (c :: t) with
    | true =>
      obtain ⟨h1, h2, rest, e, e1, e2⟩ := isTriple_true ht
      rw [e, escapeRawPath_triple rest e1 e2]
      exact ⟨_, _, _, rfl⟩
    | false =>
      rw [escapeRawPath_step ht, encByte_other h]
      exact ⟨_, _, _, rfl⟩

/-! ### 1(a): what is written -/

/-- every byte written is a path literal or '%' -/
theorem escapeRawPath_safe (raw : Bytes) : ∀ x ∈ escapeRawPath raw, safeByte x = true := by
  fun_induction escapeRawPath raw with
  | case1 => simp
  | case2 c h1 h2 rest hc ih =>
    simp only [Bool.and_eq_true, beq_iff_eq] at hc
    intro x hx
    simp only [List.mem_cons] at hx
    rcases hx with hx | hx | hx | hx
    · rw [hx]; exact safe_percent
    · rw [hx]; exact hex_safe hc.1.2
    · rw [hx]; exact hex_safe hc.2
    · exact ih x hx
  | case3 c h1 h2 rest hc ih =>
    intro x hx
    rcases List.mem_append.mp hx with hx | hx
    · exact encByte_safe c x hx
    · exact ih x hx
  | case4 c rest hne ih =>
    intro x hx
    rcases List.mem_append.mp hx with hx | hx
    · exact encByte_safe c x hx
    · exact ih x hx

/-- a string made of literal path bytes and well-formed `%XX` triples only (what `url.validEncoded` accepts, minus '[' and ']') -/
def validEncoded : Bytes → Bool
  | [] => true
  | [c] => pathLiteral c
  | [c, d] => pathLiteral c && pathLiteral d
  | c :: h1 :: h2 :: rest =>
    if c == PERCENT then isHexDigit h1 && isHexDigit h2 && validEncoded rest
    else pathLiteral c && validEncoded (h1 :: h2 :: rest)

theorem validEncoded_literal {c : UInt8} (t : Bytes) (h : pathLiteral c = true) : validEncoded (c :: t) = validEncoded t := by
  have hc := pathLiteral_ne_percent h
  match t with
  | [] => simp [validEncoded, h]
  | [a] => simp [validEncoded, h]
  | a :: b :: r => simp [validEncoded, h, hc]

theorem validEncoded_triple {h1 h2 : UInt8} (rest : Bytes) (e1 : isHexDigit h1 = true) (e2 : isHexDigit h2 = true) :
    validEncoded (PERCENT :: h1 :: h2 :: rest) = validEncoded rest := by
  simp [validEncoded, e1, e2]

theorem validEncoded_encByte (c : UInt8) (t : Bytes) : validEncoded (encByte c ++ t) = validEncoded t := by
  cases h : pathLiteral c with
  | true => rw [encByte_literal h]; exact validEncoded_literal t h
  | false =>
    rw [encByte_other h]
    exact validEncoded_triple t ((byte_facts c).2.2.2.2 h).1 ((byte_facts c).2.2.2.2 h).2

/-- 1(a), the precise form: the image consists of literal path bytes and well-formed `%XX` triples only -/
theorem validEncoded_escapeRawPath (raw : Bytes) : validEncoded (escapeRawPath raw) = true := by
  fun_induction escapeRawPath raw with
  | case1 => rfl
  | case2 c h1 h2 rest hc ih =>
    simp only [Bool.and_eq_true, beq_iff_eq] at hc
    rw [validEncoded_triple _ hc.1.2 hc.2]; exact ih
  | case3 c h1 h2 rest hc ih => rw [validEncoded_encByte]; exact ih
  | case4 c rest hne ih => rw [validEncoded_encByte]; exact ih

/-- … and on such a string `escapeRawPath` is the identity (so it is idempotent) -/
theorem escapeRawPath_of_valid (e : Bytes) (h : validEncoded e = true) : escapeRawPath e = e := by
  fun_induction escapeRawPath e with
  | case1 => rfl
  | case2 c h1 h2 rest hc ih =>
    simp only [Bool.and_eq_true, beq_iff_eq] at hc
    have hc1 : c = PERCENT := hc.1.1
    subst hc1
    rw [validEncoded_triple _ hc.1.2 hc.2] at h
    rw [ih h]
  | case3 c h1 h2 rest hc ih =>
    have hc' : c ≠ PERCENT := by
      intro e; subst e
      simp only [validEncoded, beq_self_eq_true, if_true, Bool.and_eq_true] at h
      simp [h.1.1, h.1.2] at hc
    have hl : pathLiteral c = true := by
      simp only [validEncoded, beq_iff_eq, hc', if_false, Bool.and_eq_true] at h; exact h.1
    rw [validEncoded_literal _ hl] at h
    rw [ih h, encByte_literal hl]; rfl
  | case4 c rest hne ih =>
    have hl : pathLiteral c = true := by
      match rest, hne, h with
      | [], _, h => simpa [validEncoded] using h
      | [d], _, h => simp only [validEncoded, Bool.and_eq_true] at h; exact h.1
      | a :: b :: r, hne, _ => exact absurd rfl (hne a b r)
    rw [validEncoded_literal _ hl] at h
    rw [ih h, encByte_literal hl]; rfl

theorem escapeRawPath_idempotent (raw : Bytes) : escapeRawPath (escapeRawPath raw) = escapeRawPath raw :=
  escapeRawPath_of_valid _ (validEncoded_escapeRawPath raw)

/-! ### 1(b): '/' is kept and no '/' is created -/

theorem isTriple_append_slash_short (c : UInt8) (b : Bytes) : isTriple (c :: SLASH :: b) = false := by
  have : isHexDigit SLASH = false := by decide
  match b with
  | [] => rfl
  | d :: r => simp [isTriple, this]

/-- `escapeRawPath` distributes over a '/': a `%XX` triple never spans one -/
theorem escapeRawPath_append_slash (a b : Bytes) :
    escapeRawPath (a ++ SLASH :: b) = escapeRawPath a ++ SLASH :: escapeRawPath b := by
  have hs : isHexDigit SLASH = false := by decide
  fun_induction escapeRawPath a with
  | case1 => simp [escapeRawPath_literal _ pathLiteral_slash]
  | case2 c h1 h2 rest hc ih =>
    simp only [Bool.and_eq_true, beq_iff_eq] at hc
    have hc1 : c = PERCENT := hc.1.1
    subst hc1
    simp only [List.cons_append]
    rw [escapeRawPath_triple _ hc.1.2 hc.2, ih]
  | case3 c h1 h2 rest hc ih =>
    have ht : isTriple (c :: (h1 :: h2 :: rest ++ SLASH :: b)) = false := by
      simpa [isTriple] using hc
    rw [List.cons_append, escapeRawPath_step ht, ih]; simp
  | case4 c rest hne ih =>
    have ht : isTriple (c :: (rest ++ SLASH :: b)) = false := by
      match rest, hne with
      | [], _ => exact isTriple_append_slash_short c b
      | [d], _ => simp [isTriple, hs]
      | x :: y :: r, hne => exact absurd rfl (hne x y r)
    rw [List.cons_append, escapeRawPath_step ht, ih]; simp

theorem escapeRawPath_cons_slash (b : Bytes) : escapeRawPath (SLASH :: b) = SLASH :: escapeRawPath b :=
  escapeRawPath_literal b pathLiteral_slash

theorem escapeRawPath_concat_slash (a : Bytes) : escapeRawPath (a ++ [SLASH]) = escapeRawPath a ++ [SLASH] := by
  rw [escapeRawPath_append_slash, escapeRawPath_nil]

/-- no '/' is created -/
theorem escapeRawPath_noslash {a : Bytes} (h : SLASH ∉ a) : SLASH ∉ escapeRawPath a := by
  fun_induction escapeRawPath a with
  | case1 => simp
  | case2 c h1 h2 rest hc ih =>
    simp only [Bool.and_eq_true, beq_iff_eq] at hc
    have hr : SLASH ∉ rest := fun hm => h (by simp [hm])
    intro hm
    simp only [List.mem_cons] at hm
    rcases hm with hm | hm | hm | hm
    · exact slash_ne_percent hm
    · exact hex_ne_slash hc.1.2 hm.symm
    · exact hex_ne_slash hc.2 hm.symm
    · exact ih hr hm
  | case3 c h1 h2 rest hc ih =>
    have hcs : c ≠ SLASH := fun e => h (by simp [e])
    have hr : SLASH ∉ h1 :: h2 :: rest := fun hm => h (List.mem_cons_of_mem _ hm)
    intro hm
    rcases List.mem_append.mp hm with hm | hm
    · exact encByte_noslash hcs hm
    · exact ih hr hm
  | case4 c rest hne ih =>
    have hcs : c ≠ SLASH := fun e => h (by simp [e])
    have hr : SLASH ∉ rest := fun hm => h (List.mem_cons_of_mem _ hm)
    intro hm
    rcases List.mem_append.mp hm with hm | hm
    · exact encByte_noslash hcs hm
    · exact ih hr hm

/-- every byte string is slash-free or splits at its first slash -/
theorem first_slash_decomp (p : Bytes) : SLASH ∉ p ∨ ∃ a b, p = a ++ SLASH :: b ∧ SLASH ∉ a := by
  induction p with
  | nil => left; simp
  | cons c t ih =>
    by_cases hc : c = SLASH
    · right; exact ⟨[], t, by simp [hc], by simp⟩
    · rcases ih with h | ⟨a, b, h1, h2⟩
      · left; intro hm
        rcases List.mem_cons.mp hm with hm | hm
        · exact hc hm.symm
        · exact h hm
      · right
        refine ⟨c :: a, b, by simp [h1], ?_⟩
        intro hm
        rcases List.mem_cons.mp hm with hm | hm
        · exact hc hm.symm
        · exact h2 hm

theorem splitSlash_first {a b : Bytes} (ha : SLASH ∉ a) : splitSlash (a ++ SLASH :: b) = a :: splitSlash b := by
  have := splitSlash_prefix (x := SLASH :: b) ha (splitSlash_cons_slash b)
  simpa using this

theorem splitSlash_escapeRawPath_aux : ∀ (n : Nat) (raw : Bytes), raw.length ≤ n →
    splitSlash (escapeRawPath raw) = (splitSlash raw).map escapeRawPath := by
  intro n
  induction n with
  | zero =>
    intro raw h
    have : raw = [] := List.length_eq_zero_iff.mp (by omega)
    subst this; simp [escapeRawPath_nil, splitSlash]
  | succ n ih =>
    intro raw h
    rcases first_slash_decomp raw with hs | ⟨a, b, e, ha⟩
    · rw [splitSlash_noslash hs, splitSlash_noslash (escapeRawPath_noslash hs)]; rfl
    · subst e
      rw [escapeRawPath_append_slash, splitSlash_first ha, splitSlash_first (escapeRawPath_noslash ha)]
      rw [ih b (by simp at h; omega)]; rfl

/-! ### 1(c)–(e): empty, ".", "..", the leading '/' -/

theorem escapeRawPath_eq_nil {s : Bytes} : escapeRawPath s = [] ↔ s = [] := by
  constructor
  · intro h
    cases s with
    | nil => rfl
    | cons c t =>
      rcases escapeRawPath_head c t with ⟨_, e⟩ | ⟨_, a, b, r, e⟩ <;> (rw [e] at h; simp at h)
  · intro h; rw [h, escapeRawPath_nil]

/-- if the image starts with a byte other than '%', the input starts with that byte, and the rest is the image of the rest -/
theorem escapeRawPath_eq_cons {s r : Bytes} {d : UInt8} (hd : d ≠ PERCENT) (h : escapeRawPath s = d :: r) :
    ∃ t, s = d :: t ∧ escapeRawPath t = r := by
  cases s with
  | nil => rw [escapeRawPath_nil] at h; simp at h
  | cons c t =>
    rcases escapeRawPath_head c t with ⟨_, e⟩ | ⟨_, a, b, r', e⟩
    · rw [e] at h
      simp only [List.cons.injEq] at h
      exact ⟨t, by rw [h.1], h.2⟩
    · rw [e] at h
      simp only [List.cons.injEq] at h
      exact absurd h.1.symm hd

theorem escapeRawPath_dot : escapeRawPath [DOT] = [DOT] := by
  rw [escapeRawPath_literal _ pathLiteral_dot, escapeRawPath_nil]

theorem escapeRawPath_dotdot : escapeRawPath [DOT, DOT] = [DOT, DOT] := by
  rw [escapeRawPath_literal _ pathLiteral_dot, escapeRawPath_dot]

theorem escapeRawPath_eq_dot {s : Bytes} : escapeRawPath s = [DOT] ↔ s = [DOT] := by
  constructor
  · intro h
    obtain ⟨t, e, ht⟩ := escapeRawPath_eq_cons dot_ne_percent h
    rw [e, escapeRawPath_eq_nil.mp ht]
  · intro h; rw [h, escapeRawPath_dot]

theorem escapeRawPath_eq_dotdot {s : Bytes} : escapeRawPath s = [DOT, DOT] ↔ s = [DOT, DOT] := by
  constructor
  · intro h
    obtain ⟨t, e, ht⟩ := escapeRawPath_eq_cons dot_ne_percent h
    rw [e, escapeRawPath_eq_dot.mp ht]
  · intro h; rw [h, escapeRawPath_dotdot]

theorem escapeRawPath_head_slash {s : Bytes} : (escapeRawPath s).head? = some SLASH ↔ s.head? = some SLASH := by
  cases s with
  | nil => simp [escapeRawPath_nil]
  | cons c t =>
    rcases escapeRawPath_head c t with ⟨_, e⟩ | ⟨hl, a, b, r, e⟩
    · rw [e]; simp
    · rw [e]
      have hc : c ≠ SLASH := by intro hc; rw [hc, pathLiteral_slash] at hl; cases hl
      simp [hc, Ne.symm slash_ne_percent]

theorem escapeRawPath_eq_root {s : Bytes} : escapeRawPath s = [SLASH] ↔ s = [SLASH] := by
  constructor
  · intro h
    obtain ⟨t, e, ht⟩ := escapeRawPath_eq_cons slash_ne_percent h
    rw [e, escapeRawPath_eq_nil.mp ht]
  · intro h; rw [h, escapeRawPath_cons_slash, escapeRawPath_nil]

/-! ### 1(f): ASCII, no '?', no '#' -/

theorem safe_facts {x : UInt8} (h : safeByte x = true) : x ≠ QMARK ∧ x ≠ HASH ∧ x < 128 := (byte_facts x).2.2.2.1 h

theorem escapeRawPath_isASCII (raw : Bytes) : isASCII (escapeRawPath raw) = true := by
  simp only [isASCII, List.all_eq_true, decide_eq_true_eq]
  intro x hx
  exact (safe_facts (escapeRawPath_safe raw x hx)).2.2

theorem escapeRawPath_noQuery (raw : Bytes) : QMARK ∉ escapeRawPath raw :=
  fun hm => (safe_facts (escapeRawPath_safe raw _ hm)).1 rfl

theorem escapeRawPath_noFragment (raw : Bytes) : HASH ∉ escapeRawPath raw :=
  fun hm => (safe_facts (escapeRawPath_safe raw _ hm)).2.1 rfl

/-! ### proper elements, joins, canonical paths -/

theorem goodElem_escapeRawPath {s : Bytes} (h : GoodElem s) : GoodElem (escapeRawPath s) :=
  ⟨fun e => h.1 (escapeRawPath_eq_nil.mp e), fun e => h.2.1 (escapeRawPath_eq_dot.mp e),
   fun e => h.2.2.1 (escapeRawPath_eq_dotdot.mp e), escapeRawPath_noslash h.2.2.2⟩

theorem escapeRawPath_join (st : List Bytes) : escapeRawPath (join st) = join (st.map escapeRawPath) := by
  induction st with
  | nil => simp [join, escapeRawPath_nil]
  | cons s st ih =>
    rw [List.map_cons, join_cons, join_cons, escapeRawPath_cons_slash]
    cases st with
    | nil => simp [join]
    | cons t st =>
      rw [join_cons] at ih ⊢
      rw [escapeRawPath_append_slash, ← escapeRawPath_cons_slash, ih]

theorem canonical_escapeRawPath {raw : Bytes} (h : Canonical raw) : Canonical (escapeRawPath raw) := by
  rcases h with h | ⟨st, hne, hgood, he⟩
  · left; exact escapeRawPath_eq_root.mpr h
  · right
    refine ⟨st.map escapeRawPath, by simpa using hne, ?_, ?_⟩
    · intro e he'
      obtain ⟨s, hs, rfl⟩ := List.mem_map.mp he'
      exact goodElem_escapeRawPath (hgood s hs)
    · rcases he with he | he
      · left; rw [he, escapeRawPath_join]
      · right; rw [he, escapeRawPath_concat_slash, escapeRawPath_join]

theorem goodElem_of_escapeRawPath {s : Bytes} (hs : SLASH ∉ s) (h : GoodElem (escapeRawPath s)) : GoodElem s :=
  ⟨fun e => h.1 (escapeRawPath_eq_nil.mpr e), fun e => h.2.1 (escapeRawPath_eq_dot.mpr e),
   fun e => h.2.2.1 (escapeRawPath_eq_dotdot.mpr e), hs⟩

/-- the encoding hides nothing: the image is canonical only if the raw path is -/
theorem canonical_of_escapeRawPath {raw : Bytes} (h : Canonical (escapeRawPath raw)) : Canonical raw := by
  rcases h with h | ⟨st', hne, hgood, he⟩
  · left; exact escapeRawPath_eq_root.mp h
  · right
    have hns : ∀ s ∈ st', SLASH ∉ s := fun s hs => (hgood s hs).2.2.2
    have hmap := splitSlash_escapeRawPath_aux raw.length raw (Nat.le_refl _)
    have hj := join_splitSlash raw
    have hback : ∀ st : List Bytes, (∀ s ∈ st, s ∈ splitSlash raw) → st.map escapeRawPath = st' →
        st ≠ [] ∧ ∀ s ∈ st, GoodElem s := by
      intro st hmem hst
      refine ⟨by intro e; subst e; exact hne (by simpa using hst.symm), ?_⟩
      intro s hs
      exact goodElem_of_escapeRawPath (mem_splitSlash_noslash (hmem s hs))
        (hgood _ (by rw [← hst]; exact List.mem_map_of_mem hs))
    rcases he with he | he
    · rw [he, splitSlash_join hns] at hmap
      obtain ⟨l0, st, hL, h0, hst⟩ := List.map_eq_cons_iff.mp hmap.symm
      have h0' := escapeRawPath_eq_nil.mp h0
      subst h0'
      obtain ⟨h1, h2⟩ := hback st (fun s hs => by rw [hL]; simp [hs]) hst
      refine ⟨st, h1, h2, Or.inl ?_⟩
      rw [hL, join_cons] at hj
      simpa using hj.symm
    · rw [he, splitSlash_append_slash, splitSlash_join hns] at hmap
      have hnil : splitSlash ([] : Bytes) = [[]] := rfl
      rw [hnil] at hmap
      obtain ⟨l1, l2, hL, hl1, hl2⟩ := List.map_eq_append_iff.mp hmap.symm
      obtain ⟨l0, st, hL1, h0, hst⟩ := List.map_eq_cons_iff.mp hl1
      obtain ⟨x, xs, hL2, hx, hxs⟩ := List.map_eq_cons_iff.mp hl2
      have h0' := escapeRawPath_eq_nil.mp h0
      have hx' := escapeRawPath_eq_nil.mp hx
      have hxs' : xs = [] := by simpa using hxs
      subst h0' hx' hxs' hL1 hL2
      obtain ⟨h1, h2⟩ := hback st (fun s hs => by rw [hL]; simp [hs]) hst
      refine ⟨st, h1, h2, Or.inr ?_⟩
      rw [hL, join_append, join_cons] at hj
      simpa [join] using hj.symm

/-! ### 4: `FixTrailingSlash` commutes with `escapeRawPath` -/

theorem getLast?_escapeRawPath_slash {raw : Bytes} (h : (escapeRawPath raw).getLast? = some SLASH) :
    raw.getLast? = some SLASH := by
  rcases last_slash_decomp raw with hs | ⟨x, e, hp, he⟩
  · exact absurd (List.mem_of_getLast? h) (escapeRawPath_noslash hs)
  · by_cases hnil : e = []
    · rw [hp, hnil]; simp
    · rw [hp, escapeRawPath_append_slash] at h
      exact absurd h (last_ne_slash (escapeRawPath_noslash he) (fun e0 => hnil (escapeRawPath_eq_nil.mp e0)) _)

theorem eq_dropLast_concat_slash {p : Bytes} (h : p.getLast? = some SLASH) : p = p.dropLast ++ [SLASH] := by
  have hne : p ≠ [] := by intro h0; simp [h0] at h
  have hl : p.getLast hne = SLASH := by
    rw [List.getLast?_eq_some_getLast hne] at h; exact Option.some.inj h
  have := List.dropLast_concat_getLast hne
  rw [hl] at this; exact this.symm

theorem fix_comm (raw : Bytes) : fixTrailingSlash (escapeRawPath raw) = escapeRawPath (fixTrailingSlash raw) := by
  by_cases h : raw.length > 1 ∧ raw.getLast? = some SLASH
  · have hx := eq_dropLast_concat_slash h.2
    have hfix : fixTrailingSlash raw = raw.dropLast := by unfold fixTrailingSlash; rw [if_pos h]
    have hxne : raw.dropLast ≠ [] := by
      intro h0
      have := congrArg List.length h0
      simp only [List.length_dropLast, List.length_nil] at this
      omega
    have hene : escapeRawPath raw.dropLast ≠ [] := fun h0 => hxne (escapeRawPath_eq_nil.mp h0)
    rw [hfix]
    conv => lhs; rw [hx, escapeRawPath_concat_slash]
    unfold fixTrailingSlash
    rw [if_pos ⟨by have := List.length_pos_iff.mpr hene; simp; omega, List.getLast?_concat⟩, List.dropLast_concat]
  · have hfix : fixTrailingSlash raw = raw ++ [SLASH] := by unfold fixTrailingSlash; rw [if_neg h]
    rw [hfix, escapeRawPath_concat_slash]
    unfold fixTrailingSlash
    rw [if_neg]
    intro ⟨hl, hlast⟩
    apply h
    have hr := getLast?_escapeRawPath_slash hlast
    refine ⟨?_, hr⟩
    have hx := eq_dropLast_concat_slash hr
    by_cases h0 : raw.dropLast = []
    · rw [h0] at hx
      rw [hx] at hl
      rw [show escapeRawPath ([] ++ [SLASH]) = [SLASH] from escapeRawPath_eq_root.mpr rfl] at hl
      simp at hl
    · have h1 := List.length_pos_iff.mpr h0
      have h2 := congrArg List.length hx
      simp only [List.length_append, List.length_cons, List.length_nil] at h2
      omega

/-! ### resolution against the raw request path as the base -/

/-- the last element of the path written in its escaped form, everything before it left as it is -/
def escapeLastElem (p : Bytes) : Bytes :=
  if p.getLast? = some SLASH then dropLastSegment p.dropLast ++ escapeRawPath (afterLastSlash p.dropLast) ++ [SLASH]
  else dropLastSegment p ++ escapeRawPath (afterLastSlash p)

theorem lastElem_escapeRawPath {b : Bytes} (h : GoodElem b) : LastElem (escapeRawPath b) :=
  ⟨goodElem_escapeRawPath h, escapeRawPath_noQuery b, escapeRawPath_noFragment b⟩

/-- `resolves_noslash` with a base whose directory is "/" ++ st ++ "/" and a Location computed from any path ending in "/" ++ b' -/
theorem resolves_noslash_base {st : List Bytes} {b' q base : Bytes} (hst : ∀ s ∈ st, GoodElem s) (hb : LastElem b')
    (hq : HASH ∉ q) (hbase : dropLastSegment base = join st ++ [SLASH]) (hbne : base ≠ []) (x : Bytes) (q0 : Option Bytes) :
    resolve base q0 (location (x ++ SLASH :: b') q) =
      { sameOrigin := true, path := join st ++ SLASH :: b' ++ [SLASH],
        query := if q = [] then none else some q, fragment := none } := by
  have hsl := hb.good.2.2.2
  have hne := hb.good.1
  unfold location
  rw [target_noslash hsl hne]
  unfold guardColon
  by_cases hcol : COLON ∈ b'
  · rw [if_pos hcol]
    have hshape : [DOT, SLASH] ++ b' ++ [SLASH] = [DOT] ++ SLASH :: (b' ++ [SLASH]) := by simp
    have hrest : ∀ c ∈ b' ++ [SLASH], notQueryStart c = true := by
      intro c hc
      rcases List.mem_append.mp hc with hc | hc
      · exact hb.notQueryStart c hc
      · simp at hc; subst hc; simp [notQueryStart, SLASH, QMARK, HASH]
    rw [hshape, resolve_rel plain_dot hrest hq hbne, hbase]
    have : join st ++ [SLASH] ++ ([DOT] ++ SLASH :: (b' ++ [SLASH])) = join st ++ (SLASH :: DOT :: SLASH :: (b' ++ [SLASH])) := by
      simp
    rw [this, rds_join hst (segEnd_slash _), rds_step _ (by simp), step_dot, rds_seg hb.good (segEnd_slash _), rds_slash]
    simp
  · rw [if_neg hcol]
    have hshape : b' ++ [SLASH] = b' ++ SLASH :: [] := rfl
    rw [hshape, resolve_rel (hb.plain hcol) (by simp) hq hbne, hbase]
    have : join st ++ [SLASH] ++ (b' ++ [SLASH]) = join st ++ (SLASH :: (b' ++ [SLASH])) := by simp
    rw [this, rds_join hst (segEnd_slash _), rds_seg hb.good (segEnd_slash _), rds_slash]
    simp

/-- `resolves_slash` with the base "/" ++ st ++ "/" ++ b ++ "/" and a Location computed from any path ending in "/" ++ b' ++ "/" -/
theorem resolves_slash_base {st : List Bytes} {b b' q : Bytes} (hst : ∀ s ∈ st, GoodElem s) (hgb : GoodElem b) (hb : LastElem b')
    (hq : HASH ∉ q) (x : Bytes) (q0 : Option Bytes) :
    resolve (join st ++ SLASH :: b ++ [SLASH]) q0 (location (x ++ SLASH :: b' ++ [SLASH]) q) =
      { sameOrigin := true, path := join st ++ SLASH :: b',
        query := if q = [] then none else some q, fragment := none } := by
  have hsl := hb.good.2.2.2
  have hne := hb.good.1
  unfold location
  rw [target_slash hsl hne]
  have hshape : [DOT, DOT, SLASH] ++ b' = [DOT, DOT] ++ SLASH :: b' := rfl
  have hbase : join st ++ SLASH :: b ++ [SLASH] = (join st ++ SLASH :: b) ++ SLASH :: [] := rfl
  rw [hshape, resolve_rel plain_dotdot hb.notQueryStart hq (by simp), hbase, dropLastSegment_append (by simp)]
  have hst' : ∀ s ∈ st ++ [b], GoodElem s := by
    intro s hs
    rcases List.mem_append.mp hs with hs | hs
    · exact hst s hs
    · simp at hs; subst hs; exact hgb
  have : join st ++ SLASH :: b ++ [SLASH] ++ ([DOT, DOT] ++ SLASH :: b') = join (st ++ [b]) ++ (SLASH :: DOT :: DOT :: SLASH :: b') := by
    simp [join]
  rw [this, rds_join hst' (segEnd_slash _), rds_step _ (by simp), step_dotdot]
  have : [] ++ join (st ++ [b]) = join st ++ SLASH :: b := by simp [join]
  rw [this, removeLast_append hgb.2.2.2]
  have h := rds_seg hb.good segEnd_nil (join st)
  simp only [List.append_nil] at h
  simp [h, rds_nil]

theorem escapeLastElem_noslash {b : Bytes} (hb : SLASH ∉ b) (hne : b ≠ []) (x : Bytes) :
    escapeLastElem (x ++ SLASH :: b) = x ++ SLASH :: escapeRawPath b := by
  unfold escapeLastElem
  rw [if_neg (last_ne_slash hb hne x), dropLastSegment_append hb, afterLast_append hb]; simp

theorem escapeLastElem_slash {b : Bytes} (hb : SLASH ∉ b) (x : Bytes) :
    escapeLastElem (x ++ SLASH :: b ++ [SLASH]) = x ++ SLASH :: escapeRawPath b ++ [SLASH] := by
  unfold escapeLastElem
  rw [if_pos List.getLast?_concat, List.dropLast_concat, dropLastSegment_append hb, afterLast_append hb]; simp

/-- escaping the last element first does not change the escaped form -/
theorem escapeRawPath_escapeLastElem (p : Bytes) : escapeRawPath (escapeLastElem p) = escapeRawPath p := by
  have key : ∀ y : Bytes, escapeRawPath (dropLastSegment y ++ escapeRawPath (afterLastSlash y)) = escapeRawPath y := by
    intro y
    rcases last_slash_decomp y with hs | ⟨x, e, hp, he⟩
    · have h1 : dropLastSegment y = [] := by
        unfold dropLastSegment
        rw [dropWhile_all (by intro c hc; simp at hc ⊢; intro h; exact hs (h ▸ hc))]; rfl
      have h2 : afterLastSlash y = y := by
        unfold afterLastSlash
        rw [takeWhile_all (by intro c hc; simp at hc ⊢; intro h; exact hs (h ▸ hc))]; simp
      rw [h1, h2, List.nil_append, escapeRawPath_idempotent]
    · rw [hp, dropLastSegment_append he, afterLast_append he]
      have : x ++ [SLASH] ++ escapeRawPath e = x ++ SLASH :: escapeRawPath e := by simp
      rw [this, escapeRawPath_append_slash, escapeRawPath_append_slash, escapeRawPath_idempotent]
  unfold escapeLastElem
  split
  · rename_i h
    conv => rhs; rw [eq_dropLast_concat_slash h]
    rw [escapeRawPath_concat_slash, escapeRawPath_concat_slash, key]
  · exact key p

/-- when the last element needs no escaping, nothing changes -/
theorem escapeLastElem_of_valid {b : Bytes} (hb : SLASH ∉ b) (hne : b ≠ []) (hv : validEncoded b = true) (x : Bytes) :
    escapeLastElem (x ++ SLASH :: b) = x ++ SLASH :: b ∧
    escapeLastElem (x ++ SLASH :: b ++ [SLASH]) = x ++ SLASH :: b ++ [SLASH] := by
  rw [escapeLastElem_noslash hb hne, escapeLastElem_slash hb, escapeRawPath_of_valid b hv]
  exact ⟨rfl, rfl⟩

end Fox.C08.Raw

/-! ## the theorems -/
namespace Fox.C08
open Fox Fox.Model.Location Fox.RFC3986 Fox.Spec.Clean Fox.C08.Loc Fox.C08.Raw

/-- **1(a)** `escapeRawPath` writes literal path bytes and well-formed `%XX` triples only (`Raw.validEncoded`); in particular
    neither '?' nor '#'. -/
theorem escapeRawPath_validEncoded (raw : Bytes) :
    validEncoded (escapeRawPath raw) = true ∧ QMARK ∉ escapeRawPath raw ∧ HASH ∉ escapeRawPath raw ∧
    ∀ x ∈ escapeRawPath raw, pathLiteral x = true ∨ x = PERCENT := by
  refine ⟨validEncoded_escapeRawPath raw, escapeRawPath_noQuery raw, escapeRawPath_noFragment raw, ?_⟩
  intro x hx
  have := escapeRawPath_safe raw x hx
  simpa [safeByte] using this

/-- **1(b)** the '/'-structure is preserved: the elements of the image are the images of the elements (a `%XX` triple never spans
    a '/', a '/' is copied, and no other byte is written as a '/'). -/
theorem segments_escapeRawPath (raw : Bytes) : segments (escapeRawPath raw) = (segments raw).map escapeRawPath :=
  splitSlash_escapeRawPath_aux raw.length raw (Nat.le_refl _)

/-- **1(c,d)** per element: empty iff empty, "." iff ".", ".." iff ".." ("%2E" stays "%2E", which is not "."). -/
theorem escapeRawPath_elem (s : Bytes) :
    (escapeRawPath s = [] ↔ s = []) ∧ (escapeRawPath s = [DOT] ↔ s = [DOT]) ∧ (escapeRawPath s = [DOT, DOT] ↔ s = [DOT, DOT]) :=
  ⟨escapeRawPath_eq_nil, escapeRawPath_eq_dot, escapeRawPath_eq_dotdot⟩

/-- **1(e)** the image starts with '/' iff the input does, and is "/" iff the input is. -/
theorem escapeRawPath_rooted (raw : Bytes) :
    ((escapeRawPath raw).head? = some SLASH ↔ raw.head? = some SLASH) ∧ (escapeRawPath raw = [SLASH] ↔ raw = [SLASH]) :=
  ⟨escapeRawPath_head_slash, escapeRawPath_eq_root⟩

/-- **1(f)** the image is ASCII, so `hexEscapeNonASCII` leaves it alone. -/
theorem escapeRawPath_ascii (raw : Bytes) :
    isASCII (escapeRawPath raw) = true ∧ hexEscapeNonASCII (escapeRawPath raw) = escapeRawPath raw :=
  ⟨escapeRawPath_isASCII raw, hexEscape_ascii (escapeRawPath_isASCII raw)⟩

/-- **2.** The guard `path == CleanPath(path)` that `ServeHTTP` applies to the matched string (here the raw path; in the form of the
    serving model, `raw = cleanRef raw`) and `raw ≠ "/"` give every hypothesis of `location_resolves` for `escapeRawPath raw`.
    `raw` may contain '#', '?', non-ASCII and other bytes that may not appear in a path: they are encoded. -/
theorem cleanEscaped_escapeRawPath {raw : Bytes} (hguard : raw = Model.cleanRef raw) (hroot : raw ≠ [SLASH]) :
    CleanEscaped (escapeRawPath raw) :=
  (cleanEscaped_iff_canonical _).mpr
    ⟨canonical_escapeRawPath ((cleanRef_fixed_iff raw).mp hguard), fun e => hroot (escapeRawPath_eq_root.mp e),
     escapeRawPath_noQuery raw, escapeRawPath_noFragment raw⟩

/-- the converse: the image is clean only if the raw path passes the guard (nothing is hidden by the encoding) -/
theorem cleanEscaped_escapeRawPath_iff (raw : Bytes) :
    CleanEscaped (escapeRawPath raw) ↔ raw = Model.cleanRef raw ∧ raw ≠ [SLASH] := by
  constructor
  · intro h
    exact ⟨(cleanRef_fixed_iff raw).mpr (canonical_of_escapeRawPath (canonical_of_cleanEscaped h)),
      fun e => h.notRoot (escapeRawPath_eq_root.mpr e)⟩
  · intro h; exact cleanEscaped_escapeRawPath h.1 h.2

/-! ### 3: the handler -/

/-- the raw branch: `raw != "" && raw != p` -/
theorem handlerSource_raw {raw esc : Bytes} (hraw : raw ≠ []) (hne : raw ≠ esc) : handlerSource raw esc = escapeRawPath raw := by
  unfold handlerSource; rw [if_pos ⟨hraw, hne⟩]

/-- the other branch: no RawPath, or RawPath is what `EscapedPath()` returned -/
theorem handlerSource_esc {raw esc : Bytes} (h : raw = [] ∨ raw = esc) : handlerSource raw esc = esc := by
  unfold handlerSource
  rw [if_neg]
  intro ⟨h1, h2⟩
  rcases h with h | h
  · exact h1 h
  · exact h2 h

/-- **4.** `FixTrailingSlash` commutes with `escapeRawPath`, for every string: the adjusted escaped path is the escape of the
    slash-adjusted raw path, i.e. of the string the router matched the route against, up to the encoding of the bytes that may not
    appear in a path. -/
theorem fixTrailingSlash_escapeRawPath (raw : Bytes) :
    fixTrailingSlash (escapeRawPath raw) = escapeRawPath (fixTrailingSlash raw) := fix_comm raw

/-- **3. The Location of the raw branch resolves to the adjusted path.** For a request with a RawPath `raw` that is not what
    `EscapedPath()` returned (`esc`, whatever it is), that passed the guard of `ServeHTTP` on the matched string
    (`raw == CleanPath(raw)`) and is not "/": the reference the handler computes resolves, against the request URL written with
    the escaped raw path, to `FixTrailingSlash(escapeRawPath(raw))` = `escapeRawPath(FixTrailingSlash(raw))` on the same origin,
    with the query kept. No hypothesis on the bytes of `raw` (it may hold '#', '?', non-ASCII bytes, malformed escapes) nor on
    `esc`. -/
theorem redirectLocation_resolves {raw esc q : Bytes} (hraw : raw ≠ []) (hne : raw ≠ esc)
    (hguard : raw = Model.cleanRef raw) (hroot : raw ≠ [SLASH]) (hq : HASH ∉ q) (q0 : Option Bytes) :
    resolve (escapeRawPath raw) q0 (location (handlerSource raw esc) q) =
      { sameOrigin := true, path := escapeRawPath (fixTrailingSlash raw),
        query := if q = [] then none else some q, fragment := none } := by
  rw [handlerSource_raw hraw hne, location_resolves (cleanEscaped_escapeRawPath hguard hroot) hq, fixTrailingSlash_escapeRawPath]

/-- … and so does the header value (`hexEscapeNonASCII` only touches the query: the path part is ASCII). -/
theorem redirectLocation_header_resolves {raw esc q : Bytes} (hraw : raw ≠ []) (hne : raw ≠ esc)
    (hguard : raw = Model.cleanRef raw) (hroot : raw ≠ [SLASH]) (hq : HASH ∉ q) (q0 : Option Bytes) :
    resolve (escapeRawPath raw) q0 (redirectLocation raw esc q) =
      { sameOrigin := true, path := escapeRawPath (fixTrailingSlash raw),
        query := if q = [] then none else some (hexEscapeNonASCII q), fragment := none } := by
  unfold redirectLocation
  rw [handlerSource_raw hraw hne,
    locationHeader_resolves (cleanEscaped_escapeRawPath hguard hroot) (escapeRawPath_isASCII raw) hq,
    fixTrailingSlash_escapeRawPath]

/-- the Location of the raw branch is never an absolute URI nor a network-path reference -/
theorem redirectLocation_never_absolute {raw esc : Bytes} (hraw : raw ≠ []) (hne : raw ≠ esc)
    (hguard : raw = Model.cleanRef raw) (hroot : raw ≠ [SLASH]) (q : Bytes) :
    (parseRef (redirectLocation raw esc q)).scheme = none ∧ (parseRef (redirectLocation raw esc q)).authority = none ∧
    looseSchemeOf (redirectLocation raw esc q) = none := by
  unfold redirectLocation
  rw [handlerSource_raw hraw hne]
  exact locationHeader_never_absolute (cleanEscaped_escapeRawPath hguard hroot) (escapeRawPath_isASCII raw) q

/-- **Both branches.** Whatever the request: the header value resolves, against the request URL written with the string the handler
    started from (`handlerSource raw esc`), to that string with the trailing slash adjusted.
    * Raw branch (`raw ≠ ""` and `raw ≠ esc`): the hypothesis is the guard of `ServeHTTP` on the matched string `raw`; nothing is
      assumed about `esc`.
    * Other branch (`raw = ""` or `raw = esc`): the hypothesis is `CleanEscaped esc ∧ isASCII esc`. Here `esc` is the output of the
      standard library's `URL.EscapedPath()`, an input of the model: it is ASCII and free of '?' and '#' by construction of
      `net/url`; when `raw = esc ≠ ""` the guard was applied to `esc` itself, and when `raw = ""` it was applied to `URL.Path`, of
      which `esc` is the byte-wise escape (which keeps '/', '.', and emptiness: the same argument as for `escapeRawPath`). -/
theorem redirectLocation_resolves_any {raw esc q : Bytes}
    (hrawBranch : raw ≠ [] → raw ≠ esc → raw = Model.cleanRef raw ∧ raw ≠ [SLASH])
    (hescBranch : (raw = [] ∨ raw = esc) → CleanEscaped esc ∧ isASCII esc = true)
    (hq : HASH ∉ q) (q0 : Option Bytes) :
    resolve (handlerSource raw esc) q0 (redirectLocation raw esc q) =
      { sameOrigin := true, path := fixTrailingSlash (handlerSource raw esc),
        query := if q = [] then none else some (hexEscapeNonASCII q), fragment := none } := by
  by_cases h : raw = [] ∨ raw = esc
  · obtain ⟨h1, h2⟩ := hescBranch h
    unfold redirectLocation
    rw [handlerSource_esc h, locationHeader_resolves h1 h2 hq]
  · have hraw : raw ≠ [] := fun e => h (Or.inl e)
    have hne : raw ≠ esc := fun e => h (Or.inr e)
    obtain ⟨h1, h2⟩ := hrawBranch hraw hne
    rw [handlerSource_raw hraw hne, redirectLocation_header_resolves hraw hne h1 h2 hq, fixTrailingSlash_escapeRawPath]

/-- In the raw branch the handler's string is a fixed point of `escapeRawPath`: a client that follows the redirect sends a path
    on which the handler (and `url.setPath`) has nothing left to encode. -/
theorem handlerSource_stable {raw esc : Bytes} (hraw : raw ≠ []) (hne : raw ≠ esc) :
    escapeRawPath (fixTrailingSlash (handlerSource raw esc)) = fixTrailingSlash (handlerSource raw esc) := by
  rw [handlerSource_raw hraw hne, fixTrailingSlash_escapeRawPath, escapeRawPath_idempotent]

/-- **The same against the raw request path as the base.** A client that sent the bytes `raw` unescaped (the only way a `RawPath`
    that is not a valid encoding reaches the server) resolves the Location against the URL it used, whose path is `raw`, not
    `escapeRawPath raw`. A relative reference only replaces the last element, so the target is `FixTrailingSlash(raw)` with its
    last element escaped and everything before it as the client wrote it (`Raw.escapeLastElem`); its escaped form is again
    `escapeRawPath (FixTrailingSlash raw)`, and it is `FixTrailingSlash(raw)` itself when the last element needs no escaping. -/
theorem redirectLocation_resolves_rawBase {raw esc q : Bytes} (hraw : raw ≠ []) (hne : raw ≠ esc)
    (hguard : raw = Model.cleanRef raw) (hroot : raw ≠ [SLASH]) (hq : HASH ∉ q) (q0 : Option Bytes) :
    resolve raw q0 (location (handlerSource raw esc) q) =
      { sameOrigin := true, path := escapeLastElem (fixTrailingSlash raw),
        query := if q = [] then none else some q, fragment := none } ∧
    escapeRawPath (escapeLastElem (fixTrailingSlash raw)) = escapeRawPath (fixTrailingSlash raw) := by
  refine ⟨?_, escapeRawPath_escapeLastElem _⟩
  rw [handlerSource_raw hraw hne]
  obtain ⟨st, b, hst, hb, hshape⟩ := shape_of_canonical ((cleanRef_fixed_iff raw).mp hguard) hroot
  have hlast := lastElem_escapeRawPath hb
  rcases hshape with h | h
  · have hE : escapeRawPath raw = escapeRawPath (join st) ++ SLASH :: escapeRawPath b := by
      rw [h, escapeRawPath_append_slash]
    rw [hE]
    rw [h, resolves_noslash_base hst hlast hq (dropLastSegment_append hb.2.2.2 _) (by simp), fix_noslash hb.2.2.2 hb.1,
      escapeLastElem_slash hb.2.2.2]
  · have hE : escapeRawPath raw = escapeRawPath (join st) ++ SLASH :: escapeRawPath b ++ [SLASH] := by
      rw [h, escapeRawPath_concat_slash, escapeRawPath_append_slash]
    rw [hE]
    rw [h, resolves_slash_base hst hb hlast hq, fix_slash, escapeLastElem_noslash hb.2.2.2 hb.1]

end Fox.C08

/-! ## non-vacuity, the repaired defect, and the corner cases -/
namespace Fox.C08.RawEx
open Fox Fox.Model.Location Fox.RFC3986 Fox.C08.Raw
open Fox.C08.LocEx (s tgt)

/-- the guard of `ServeHTTP` on the matched string, and "not the root" -/
def passes (raw : Bytes) : Bool := raw = Model.cleanRef raw ∧ raw ≠ [SLASH]

/- `escapeRawPath` -/
#guard escapeRawPath (s "/é/%2E%2E") = s "/%C3%A9/%2E%2E"
#guard escapeRawPath (s "/x/a#b?c") = s "/x/a%23b%3Fc"
#guard escapeRawPath (s "/a<b/%2e%2E/") = s "/a%3Cb/%2e%2E/"
#guard escapeRawPath (s "/a;x=1/b:c@d/~-._!$&'()*+,") = s "/a;x=1/b:c@d/~-._!$&'()*+,"
#guard escapeRawPath (s "/a b/\"[]^`{|}\\") = s "/a%20b/%22%5B%5D%5E%60%7B%7C%7D%5C"
-- malformed escapes (`url.ParseRequestURI` rejects them, so `net/http` never delivers these): the '%' is encoded, never dropped,
-- and a '%' before a '/' does not swallow it
#guard escapeRawPath (s "/a/%") = s "/a/%25" ∧ escapeRawPath (s "/a/%2") = s "/a/%252" ∧ escapeRawPath (s "/a/%zz") = s "/a/%25zz"
#guard escapeRawPath (s "/a%/x") = s "/a%25/x" ∧ escapeRawPath (s "/a%2/x") = s "/a%252/x" ∧ escapeRawPath (s "/%%41") = s "/%25%41"
-- elements made of dots
#guard escapeRawPath (s "/.../....") = s "/.../...." ∧ passes (s "/.../....") ∧ ¬ passes (s "/a/..") ∧ ¬ passes (s "/a/.")
#guard segments (escapeRawPath (s "/é//a#/%/")) = (segments (s "/é//a#/%/")).map escapeRawPath
#guard validEncoded (escapeRawPath (s "/é/%/%zz/a#b")) ∧ ¬ validEncoded (s "/é") ∧ ¬ validEncoded (s "/%zz") ∧ ¬ validEncoded (s "/a#b")

/- 5. the repaired defect: GET /é/%2E%2E with a raw 'é' (route `/{a}/{b}/`) -/
#guard passes (s "/é/%2E%2E")
#guard handlerSource (s "/é/%2E%2E") (s "/%C3%A9/..") = s "/%C3%A9/%2E%2E"
#guard redirectLocation (s "/é/%2E%2E") (s "/%C3%A9/..") [] = s "%2E%2E/"
#guard resolve (s "/%C3%A9/%2E%2E") none (redirectLocation (s "/é/%2E%2E") (s "/%C3%A9/..") []) = tgt "/%C3%A9/%2E%2E/"
#guard resolve (s "/é/%2E%2E") none (redirectLocation (s "/é/%2E%2E") (s "/%C3%A9/..") []) = tgt "/é/%2E%2E/"
-- the old behaviour (`FixTrailingSlash(req.URL.EscapedPath())`): "../", which leads to "/"
#guard ¬ CleanEscaped (s "/%C3%A9/..")
#guard location (s "/%C3%A9/..") [] = s "../"
#guard resolve (s "/%C3%A9/..") none (location (s "/%C3%A9/..") []) = tgt "/"
#guard resolve (s "/é/%2E%2E") none (location (s "/%C3%A9/..") []) = tgt "/"
-- GET /é/a%2Fb: old "b/" (leads to ".../a%2Fb/b/"), now "a%2Fb/"
#guard location (s "/%C3%A9/a/b") [] = s "b/"
#guard redirectLocation (s "/é/a%2Fb") (s "/%C3%A9/a/b") [] = s "a%2Fb/"
#guard resolve (s "/é/a%2Fb") none (redirectLocation (s "/é/a%2Fb") (s "/%C3%A9/a/b") []) = tgt "/é/a%2Fb/"

/- a raw '#' (`url.ParseRequestURI` does not split fragments) -/
#guard passes (s "/x/a#b")
#guard handlerSource (s "/x/a#b") (s "/x/a%23b") = s "/x/a%23b"
#guard redirectLocation (s "/x/a#b") (s "/x/a%23b") (s "k=v") = s "a%23b/?k=v"
#guard resolve (s "/x/a%23b") none (redirectLocation (s "/x/a#b") (s "/x/a%23b") (s "k=v")) = tgt "/x/a%23b/" (query := "k=v")

/- remove-slash, an invalid byte in an inner element, mixed-case escapes kept as written -/
#guard passes (s "/a<b/%2e%2E/")
#guard handlerSource (s "/a<b/%2e%2E/") (s "/a%3Cb/../") = s "/a%3Cb/%2e%2E/"
#guard redirectLocation (s "/a<b/%2e%2E/") (s "/a%3Cb/../") [] = s "../%2e%2E"
#guard resolve (s "/a%3Cb/%2e%2E/") none (redirectLocation (s "/a<b/%2e%2E/") (s "/a%3Cb/../") []) = tgt "/a%3Cb/%2e%2E"
#guard resolve (s "/a<b/%2e%2E/") none (redirectLocation (s "/a<b/%2e%2E/") (s "/a%3Cb/../") []) = tgt "/a<b/%2e%2E"
-- old: "../.." which leads to "/"
#guard resolve (s "/a<b/%2e%2E/") none (location (s "/a%3Cb/../") []) = tgt "/"

/- a colon in the last element of the raw path: the "./" of F08 is still there -/
#guard redirectLocation (s "/é/http:x") (s "/%C3%A9/http:x") [] = s "./http:x/"

/- the other branch: no RawPath, or a valid one -/
#guard handlerSource [] (s "/a/b") = s "/a/b" ∧ handlerSource (s "/a/%2E%2E") (s "/a/%2E%2E") = s "/a/%2E%2E"

/- 4. `FixTrailingSlash` commutes with `escapeRawPath` on every string, the degenerate ones included -/
#guard fixTrailingSlash (escapeRawPath []) = escapeRawPath (fixTrailingSlash []) ∧
  fixTrailingSlash (escapeRawPath (s "/")) = escapeRawPath (fixTrailingSlash (s "/")) ∧
  fixTrailingSlash (escapeRawPath (s "é//")) = escapeRawPath (fixTrailingSlash (s "é//")) ∧
  fixTrailingSlash (escapeRawPath (s "/%")) = escapeRawPath (fixTrailingSlash (s "/%"))

/- against the raw base only the last element is written escaped -/
#guard escapeLastElem (s "/é/a<b/") = s "/é/a%3Cb/" ∧ escapeLastElem (s "/é/a<b") = s "/é/a%3Cb" ∧ escapeLastElem (s "/é/ab") = s "/é/ab"
#guard resolve (s "/é/a<b") none (redirectLocation (s "/é/a<b") (s "/%C3%A9/a%3Cb") []) = tgt "/é/a%3Cb/"

/- Residual observation (outside the statement, not a failure of it): the target is the matched path only *up to the encoding of
   the bytes `escapeRawPath` had to encode in the last element*. The follow-up request for "/é/a%3Cb/" carries no RawPath (it is
   the default encoding of its decoded path), so the router matches the decoded "/é/a<b/", the same string as before plus '/'.
   But when the last element holds both an invalid byte and an encoded reserved byte ("/x/a<b%2Fc"), the follow-up request
   "/x/a%3Cb%2Fc/" keeps a RawPath and the router matches that string: a parameter route captures "a%3Cb%2Fc" where the first
   request captured "a<b%2Fc", and a static route registered as "/x/a<b%2Fc/" is not matched. A Location header cannot carry the
   raw byte, so this is inherent. -/
#guard escapeLastElem (s "/x/a<b%2Fc/") = s "/x/a%3Cb%2Fc/"

/- the guard is needed in the raw branch too: a real ".." in the raw path -/
#guard ¬ passes (s "/é/..")
#guard resolve (s "/%C3%A9/..") none (redirectLocation (s "/é/..") (s "/%C3%A9/../x") []) = tgt "/"

/-- an instance of the theorem: raw = "/é/%2E", esc = "/%C3%A9/." -/
example : resolve (escapeRawPath [47, 195, 169, 47, 37, 50, 69]) none
      (location (handlerSource [47, 195, 169, 47, 37, 50, 69] [47, 37, 67, 51, 37, 65, 57, 47, 46]) []) =
    { sameOrigin := true, path := escapeRawPath (fixTrailingSlash [47, 195, 169, 47, 37, 50, 69]), query := none, fragment := none } :=
  C08.redirectLocation_resolves (by decide) (by decide) (by decide) (by decide) (by decide) none

end Fox.C08.RawEx
