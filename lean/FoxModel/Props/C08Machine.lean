import FoxModel.Lemmas.MachineServe
import FoxModel.Props.C08Serve
/-
  Properties C08 and C11 for ServeHTTP *over the matcher as the Go code runs it*: `Machine.serve` looks the request up
  with the recording state machine and walks the Allow-header loops with lazy lookups, as fox.go does. It is equal to
  `Model.serve` on every well-formed forest, so every theorem of Props/C08Serve, C08, C11 about `modelOutcome` is a
  theorem about it.
-/
namespace Fox.C08
open Fox Fox.Model Fox.Spec Fox.C02 Fox.C01 Fox.ServeSpec

/-- ServeHTTP's decision over the state machines = the serving model, on every well-formed forest -/
theorem machine_serve_eq_model {rs : Roots} (hw : wfRoots rs = true) (cfg : Cfg) (m hostPort path urlPath : Bytes) :
    Machine.serve cfg rs m hostPort path urlPath = Model.serve cfg rs m hostPort path urlPath :=
  machine_serve_eq hw cfg m hostPort path urlPath

/-- the same in every state reachable by a history of valid operations: it is the `modelOutcome` of Props/C08Serve -/
theorem machine_serve_reachable (ops : List Op) (hv : ∀ op ∈ ops, op.valid = true) (cfg : Cfg)
    (m hostPort path urlPath : Bytes) :
    Machine.serve cfg (runModel newTree ops).1.roots m hostPort path urlPath = modelOutcome ops cfg m hostPort path urlPath :=
  machine_serve_eq (C02_reachable_wf ops hv).1 cfg m hostPort path urlPath

/-- **C08 / C11 end to end for the machine**: after any history, the answer of ServeHTTP computed with the state machines
    (recording lookup for the request, lazy lookups for the Allow loops) has the route, the parameters and the redirect
    code of the specification `Spec.serve` on the sequential map, and - unless the recorded finding F17 is involved (tag
    "allow-connect-tsr") - the same kind of handler and the same set of methods in `Allow`. -/
theorem machine_serve_refines_spec (ops : List Op) (hv : ∀ op ∈ ops, op.valid = true)
    (hu : ∀ op ∈ ops, updSplitOk op = true) (cfg : Cfg) (m hostPort path urlPath : Bytes)
    (hn : noDbl path = true) (hs : SLASH ∉ stripHostPort hostPort) (hroot : urlPath = [SLASH] → path = [SLASH]) :
    let o := Machine.serve cfg (runModel newTree ops).1.roots m hostPort path urlPath
    o.route = (specAnswer ops cfg m hostPort path urlPath).route ∧
    o.params = (specAnswer ops cfg m hostPort path urlPath).params ∧
    o.code = (specAnswer ops cfg m hostPort path urlPath).code ∧
    ("allow-connect-tsr" ∉ o.tags →
      o.kind = (specAnswer ops cfg m hostPort path urlPath).kind ∧
      ∀ x, x ∈ o.allow ↔ x ∈ (specAnswer ops cfg m hostPort path urlPath).allow) := by
  simp only [machine_serve_reachable ops hv]
  exact serve_refines_spec ops hv hu cfg m hostPort path urlPath hn hs hroot

end Fox.C08
