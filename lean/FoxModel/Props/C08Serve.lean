import FoxModel.Lemmas.ServeSpec
import FoxModel.Lemmas.SpecAlg
import FoxModel.Props.C01Map
import FoxModel.Props.C08
import FoxModel.Props.C11
set_option linter.unusedSimpArgs false
set_option linter.unusedVariables false
/-
  Properties C08 and C11 end to end, on the *sequential map*: on every reachable state the model of `ServeHTTP`
  (`Model.serve`, fox.go) takes the decision that the specification `Spec.serve` takes on the routes held by the
  sequential map `Spec.Store` of property C02.

  Composition of
    * `Fox.C01.lookup_eq_route_of_sim`  (the matcher on the radix tree = `Spec.route` on the map's routes, per method),
    * `Fox.C02.C02_refines` / `C02_methods` (the tree refines the map; a root has children iff its method has routes),
    * `Fox.ServeSpec.Rel.serve`         (the dispatch and the Allow loops of `Model.serve` against `Spec.serve`).

  Two things make the statement weaker than "model = specification", and both are stated exactly:

    * finding F17 (tag "allow-connect-tsr"): the Allow loops accept a trailing-slash match on an ignore-trailing-slash
      route also for the probe method CONNECT, which dispatch never serves. With the tag the code lists *more* methods
      (`serve_allow_superset`), and may answer OPTIONS / 405 where the specification says 404 (`serve_kind_f17`,
      example `Ex.onlyConn` below). Without the tag: same kind, same set of allowed methods. `f17_tag_iff` says exactly
      when the tag appears, in terms of `Spec.route` on the map's CONNECT routes.
    * the hypothesis `hroot : urlPath = "/" → path = "/"`. `path` is the string handed to the matcher (RawPath if set),
      `urlPath` is URL.Path; the dispatch guard `r.URL.Path != "/"` of ServeHTTP is on `urlPath` but the Allow loops do
      not repeat it, so for a (hand-made) request with URL.Path = "/" and RawPath = "/foo" the loops list the methods
      with an ignore-trailing-slash route `/foo/` although dispatch refuses them - the second leg of F17, which the model
      does *not* tag. For a request line in origin form parsed by net/http, URL.Path = "/" means the target was "/" and
      RawPath is empty, so the hypothesis holds (it can only fail for a hand-built `*http.Request`); the driver stream
      uses `path = urlPath`. Example `Ex.onlyGet` shows it cannot be dropped. It is needed for the Allow /
      kind part only: `C08_on_the_sequential_map`, `C08_acts_iff_dispatched` and `f17_tag_iff` do not assume it.
-/
namespace Fox.C08
open Fox Fox.Model Fox.Spec Fox.C02 Fox.C01 Fox.ServeSpec

/-! ### the methods of the sequential map -/

/-- the methods that have at least one entry in the sequential map, in order of first registration (this is the list the
    driver hands to `Spec.serve`) -/
def storeMethods (s : Store) : List Bytes := (s.map (·.1)).eraseDups

theorem mem_storeMethods (s : Store) (x : Bytes) : x ∈ storeMethods s ↔ s.routesOf x ≠ [] := by
  unfold storeMethods Store.routesOf
  rw [List.mem_eraseDups, List.mem_map]
  constructor
  · rintro ⟨e, he, rfl⟩ h
    have : e.2 ∈ (s.filter fun e' => e'.1 == e.1).map (·.2) :=
      List.mem_map_of_mem (List.mem_filter.2 ⟨he, by simp⟩)
    rw [h] at this; cases this
  · intro h
    cases hf : s.filter (fun e => e.1 == x) with
    | nil => rw [hf] at h; exact absurd rfl h
    | cons e es =>
      have : e ∈ s.filter (fun e => e.1 == x) := by rw [hf]; exact List.mem_cons_self ..
      rw [List.mem_filter] at this
      exact ⟨e, this.1, by simpa using this.2⟩

/-- `Tree.methods` (the roots with children, in root order) has the same members -/
theorem mem_treeMethods {t : Tree} {s : Store} (h : Sim t s) (x : Bytes) : x ∈ t.methods ↔ x ∈ storeMethods s := by
  rw [C02_methods h, mem_storeMethods]

theorem mem_treeMethods_iff (t : Tree) (x : Bytes) :
    x ∈ t.methods ↔ ∃ n, (x, n) ∈ t.roots ∧ n.children.isEmpty = false := by
  simp only [Tree.methods, List.mem_map, List.mem_filter, Bool.not_eq_true']
  constructor
  · rintro ⟨a, ⟨ha, hc⟩, rfl⟩; exact ⟨a.2, ha, hc⟩
  · rintro ⟨n, hn, hc⟩; exact ⟨(x, n), ⟨hn, hc⟩, rfl⟩

/-! ### from the simulation to the abstract hypotheses -/

/-- a tree and a map related by the C02 simulation (map with the two routing invariants) satisfy the hypotheses of the
    serving refinement, for every list `methods` that has as members exactly the methods with routes -/
theorem rel_of_sim {t : Tree} {s : Store} (h : Sim t s) (hc : NoConflict s) (hsp : SplitOk s)
    {methods : List Bytes} (hM : ∀ x, x ∈ methods ↔ s.routesOf x ≠ [])
    (hostPort path : Bytes) (hn : noDbl path = true) (hs : SLASH ∉ stripHostPort hostPort) :
    Rel t.roots methods (fun x => s.routesOf x) hostPort path where
  look := fun x => lookup_eq_route_of_sim h hc hsp x hostPort path hn hs
  meth := fun x => by rw [hM, ← C02_methods h, mem_treeMethods_iff]

/-- **`Model.serve` agrees with `Spec.serve`** (in the sense of `ServeSpec.Agree`) for every tree/map pair related by the
    C02 simulation -/
theorem serve_agrees_of_sim {t : Tree} {s : Store} (h : Sim t s) (hc : NoConflict s) (hsp : SplitOk s)
    {methods : List Bytes} (hM : ∀ x, x ∈ methods ↔ s.routesOf x ≠ [])
    (cfg : Cfg) (m hostPort path urlPath : Bytes) (hn : noDbl path = true) (hs : SLASH ∉ stripHostPort hostPort)
    (hroot : urlPath = [SLASH] → path = [SLASH]) :
    Agree (Model.serve cfg t.roots m hostPort path urlPath)
      (Spec.serve cfg methods (fun x => s.routesOf x) m hostPort path urlPath) :=
  (rel_of_sim h hc hsp hM hostPort path hn hs).serve hroot cfg m

theorem sim_of_history (ops : List Op) (hv : ∀ op ∈ ops, op.valid = true) (hu : ∀ op ∈ ops, updSplitOk op = true) :
    Sim (runModel newTree ops).1 (runSpec [] ops).1 ∧ NoConflict (runSpec [] ops).1 ∧ SplitOk (runSpec [] ops).1 :=
  ⟨(C02_refines ops hv).1, store_noConflict ops (fun op hop => opSplitOk_of (hv op hop) (hu op hop))⟩

/-! ### end to end -/

section
variable (ops : List Op) (hv : ∀ op ∈ ops, op.valid = true) (hu : ∀ op ∈ ops, updSplitOk op = true)
variable (cfg : Cfg) (m hostPort path urlPath : Bytes)
variable (hn : noDbl path = true) (hs : SLASH ∉ stripHostPort hostPort)

/-- the outcome of the model of ServeHTTP on the tree reached by the history -/
abbrev modelOutcome : Model.Outcome := Model.serve cfg (runModel newTree ops).1.roots m hostPort path urlPath

/-- the answer of the specification on the sequential map reached by the history; `methods` = `storeMethods`, the
    methods with at least one entry in the map in order of first registration -/
abbrev specAnswer : Served :=
  Spec.serve cfg (storeMethods (runSpec [] ops).1) (fun x => (runSpec [] ops).1.routesOf x) m hostPort path urlPath

include hv hu hn hs

/-- **C08 / C11 end to end, on the sequential map.** After *any* history of Handle / Update / Delete / Truncate (same
    hypotheses as `routing_correct_on_the_sequential_map`), for every router configuration, method, Host without '/',
    matcher path without empty segment, and `urlPath` (URL.Path) that is "/" only if the matcher path is "/":

    the model of `ServeHTTP` on the radix tree and the specification `Spec.serve` on the sequential map - with `methods`
    the methods that have at least one entry in the map (`storeMethods`: `(s.map (·.1)).eraseDups`; `Tree.methods`, the
    roots with children in root order, has the same members by `C02_methods`, see `serve_refines_spec_treeMethods`) -
    give the same serving route, the same parameters and the same redirect code; and if the outcome does not carry the
    F17 tag "allow-connect-tsr", the same kind of answer and the same *set* of methods in `Allow`
    (the code writes them in root order, the specification's list is `eraseDups` of the map order). -/
theorem serve_refines_spec (hroot : urlPath = [SLASH] → path = [SLASH]) :
    (modelOutcome ops cfg m hostPort path urlPath).route = (specAnswer ops cfg m hostPort path urlPath).route ∧
    (modelOutcome ops cfg m hostPort path urlPath).params = (specAnswer ops cfg m hostPort path urlPath).params ∧
    (modelOutcome ops cfg m hostPort path urlPath).code = (specAnswer ops cfg m hostPort path urlPath).code ∧
    ("allow-connect-tsr" ∉ (modelOutcome ops cfg m hostPort path urlPath).tags →
      (modelOutcome ops cfg m hostPort path urlPath).kind = (specAnswer ops cfg m hostPort path urlPath).kind ∧
      ∀ x, x ∈ (modelOutcome ops cfg m hostPort path urlPath).allow ↔
           x ∈ (specAnswer ops cfg m hostPort path urlPath).allow) := by
  obtain ⟨h, hc, hsp⟩ := sim_of_history ops hv hu
  have := serve_agrees_of_sim h hc hsp (mem_storeMethods _) cfg m hostPort path urlPath hn hs hroot
  exact ⟨this.route, this.params, this.code, this.exact⟩

/-- the same with `methods := Tree.methods` of the reached tree (the roots that have children, in root order - the order
    in which the code writes the Allow header) -/
theorem serve_refines_spec_treeMethods (hroot : urlPath = [SLASH] → path = [SLASH]) :
    let o := modelOutcome ops cfg m hostPort path urlPath
    let sp := Spec.serve cfg (runModel newTree ops).1.methods (fun x => (runSpec [] ops).1.routesOf x) m hostPort path urlPath
    o.route = sp.route ∧ o.params = sp.params ∧ o.code = sp.code ∧
    ("allow-connect-tsr" ∉ o.tags → o.kind = sp.kind ∧ ∀ x, x ∈ o.allow ↔ x ∈ sp.allow) := by
  obtain ⟨h, hc, hsp⟩ := sim_of_history ops hv hu
  have := serve_agrees_of_sim h hc hsp (C02_methods h) cfg m hostPort path urlPath hn hs hroot
  exact ⟨this.route, this.params, this.code, this.exact⟩

/-- **The code may only list more methods.** In every case (F17 or not) each method the specification allows is in the
    `Allow` list the code writes. -/
theorem serve_allow_superset (hroot : urlPath = [SLASH] → path = [SLASH]) :
    ∀ x, x ∈ (specAnswer ops cfg m hostPort path urlPath).allow →
         x ∈ (modelOutcome ops cfg m hostPort path urlPath).allow := by
  obtain ⟨h, hc, hsp⟩ := sim_of_history ops hv hu
  exact (serve_agrees_of_sim h hc hsp (mem_storeMethods _) cfg m hostPort path urlPath hn hs hroot).sub

/-- **The kind of answer, F17 included.** The kinds agree, except that when the only methods the Allow loops find are
    F17 hits (CONNECT with a trailing-slash match on an ignore-trailing-slash route) the code answers with the OPTIONS /
    405 handler where the specification says 404 - and then the tag is present. -/
theorem serve_kind_f17 (hroot : urlPath = [SLASH] → path = [SLASH]) :
    (modelOutcome ops cfg m hostPort path urlPath).kind = (specAnswer ops cfg m hostPort path urlPath).kind ∨
    ((specAnswer ops cfg m hostPort path urlPath).kind = .noRoute ∧
     ((modelOutcome ops cfg m hostPort path urlPath).kind = .options ∨
      (modelOutcome ops cfg m hostPort path urlPath).kind = .noMethod) ∧
     "allow-connect-tsr" ∈ (modelOutcome ops cfg m hostPort path urlPath).tags) := by
  obtain ⟨h, hc, hsp⟩ := sim_of_history ops hv hu
  exact (serve_agrees_of_sim h hc hsp (mem_storeMethods _) cfg m hostPort path urlPath hn hs hroot).kind

/-- hence serving by a route and redirecting are decided exactly as specified, tag or not -/
theorem serve_dispatch_kind (hroot : urlPath = [SLASH] → path = [SLASH]) :
    ((modelOutcome ops cfg m hostPort path urlPath).kind = .route ↔
      (specAnswer ops cfg m hostPort path urlPath).kind = .route) ∧
    ((modelOutcome ops cfg m hostPort path urlPath).kind = .redirect ↔
      (specAnswer ops cfg m hostPort path urlPath).kind = .redirect) ∧
    (modelOutcome ops cfg m hostPort path urlPath).kind ≠ .bad := by
  have hk := serve_kind_f17 ops hv hu cfg m hostPort path urlPath hn hs hroot
  have hbad : (specAnswer ops cfg m hostPort path urlPath).kind ≠ .bad := spec_serve_kind_ne_bad _ _ _ _ _ _ _
  rcases hk with hk | ⟨h1, h2, _⟩
  · rw [hk]; exact ⟨Iff.rfl, Iff.rfl, hbad⟩
  · rw [h1]
    rcases h2 with h2 | h2 <;> rw [h2] <;> simp

end

section
variable (ops : List Op) (hv : ∀ op ∈ ops, op.valid = true) (hu : ∀ op ∈ ops, updSplitOk op = true)
variable (cfg : Cfg) (m hostPort path urlPath : Bytes)
variable (hn : noDbl path = true) (hs : SLASH ∉ stripHostPort hostPort)
include hv hu hn hs

/-- **Exactly when F17 shows** (the complement of `C11.loose_vs_strict`, on the sequential map): the outcome carries the
    tag "allow-connect-tsr" iff the request is unmatched (the specification's dispatch does not act for the request's
    method), `Spec.route` on the routes the map holds for CONNECT matches the host and path only by adjusting a trailing
    slash, on a route that ignores trailing slashes, and an Allow loop that probes CONNECT runs: the OPTIONS loop for a
    target other than "*", or the 405 loop of a request whose method is not CONNECT. -/
theorem f17_tag_iff :
    "allow-connect-tsr" ∈ (modelOutcome ops cfg m hostPort path urlPath).tags ↔
      dispatched ((runSpec [] ops).1.routesOf m) m hostPort path urlPath = false ∧
      (∃ r ps, Spec.route ((runSpec [] ops).1.routesOf CONNECT) hostPort path = some ⟨r, ps, true⟩ ∧ r.ignoreTS = true) ∧
      (if m = OPTIONS ∧ cfg.autoOptions = true then path ≠ [STAR] else cfg.noMethod = true ∧ m ≠ CONNECT) := by
  obtain ⟨h, hc, hsp⟩ := sim_of_history ops hv hu
  exact (rel_of_sim h hc hsp (mem_storeMethods _) hostPort path hn hs).serve_tag cfg m

end

/-! ### property C08 in terms of `Spec.route` on the sequential map -/

/-- "unmatched": no route handler runs and no redirect is sent - the request goes to the automatic OPTIONS, the 405 or
    the 404 handler, which see neither a route nor parameters -/
def Unmatched (o : Model.Outcome) : Prop :=
  (o.kind = .options ∨ o.kind = .noMethod ∨ o.kind = .noRoute) ∧ o.route = none ∧ o.params = []

theorem special_unmatched (cfg : Cfg) (rs : Roots) (m host path : Bytes) : Unmatched (special cfg rs m host path) := by
  refine ⟨special_kind cfg rs m host path, ?_⟩
  unfold special optionsOutcome noMethodOutcome
  split
  · split <;> simp
  · split
    · split <;> simp
    · simp

/-- the dispatch of `Model.serve`, read off the specification's answer for the request's method -/
theorem dispatch_of_route {rs : Roots} {m host path : Bytes} {ro : Option Found}
    (hl : lookup rs m host path = toResult ro) (cfg : Cfg) (urlPath : Bytes) :
    match (motive := Option Found → Prop) ro with
    | some ⟨r, ps, false⟩ =>
      (Model.serve cfg rs m host path urlPath).kind = .route ∧ (Model.serve cfg rs m host path urlPath).route = some r ∧
        (Model.serve cfg rs m host path urlPath).params = ps
    | some ⟨r, ps, true⟩ =>
      if m ≠ CONNECT ∧ urlPath ≠ [SLASH] then
        if r.ignoreTS = true then
          (Model.serve cfg rs m host path urlPath).kind = .route ∧
            (Model.serve cfg rs m host path urlPath).route = some r ∧ (Model.serve cfg rs m host path urlPath).params = ps
        else if r.redirectTS = true ∧ path = cleanRef path then
          (Model.serve cfg rs m host path urlPath).kind = .redirect ∧
            (Model.serve cfg rs m host path urlPath).route = some r ∧
            (Model.serve cfg rs m host path urlPath).code = (if m = GET then 301 else 308)
        else Unmatched (Model.serve cfg rs m host path urlPath)
      else Unmatched (Model.serve cfg rs m host path urlPath)
    | none => Unmatched (Model.serve cfg rs m host path urlPath) := by
  have hsp := special_unmatched cfg rs m host path
  unfold Model.serve
  rw [hl]
  cases ro with
  | none => simpa only [toResult] using hsp
  | some f =>
    obtain ⟨r, ps, tsr⟩ := f
    cases tsr with
    | false => simp [toResult]
    | true =>
      simp only [toResult]
      unfold onTsr
      have unm : ∀ t, Unmatched { special cfg rs m host path with tags := (special cfg rs m host path).tags ++ [t] } :=
        fun t => hsp
      by_cases hc : m ≠ CONNECT ∧ urlPath ≠ [SLASH]
      · have hc' : (m != CONNECT && urlPath != [SLASH]) = true := by simpa using hc
        rw [if_pos hc]
        simp only [hc', if_true]
        by_cases hi : r.ignoreTS = true
        · rw [if_pos hi]
          simp [hi]
        · rw [if_neg hi]
          simp only [hi, Bool.false_eq_true, if_false]
          by_cases hr : r.redirectTS = true ∧ path = cleanRef path
          · have hr' : (r.redirectTS && path == cleanRef path) = true := by
              simp only [Bool.and_eq_true, beq_iff_eq]; exact hr
            rw [if_pos hr]
            simp only [hr', if_true]
            refine ⟨trivial, trivial, ?_⟩
            by_cases hg : m = GET
            · simp [hg]
            · have : (m == GET) = false := by simpa using hg
              simp [hg, this]
          · have hr' : (r.redirectTS && path == cleanRef path) = false := by
              cases h : (r.redirectTS && path == cleanRef path) with
              | false => rfl
              | true => simp only [Bool.and_eq_true, beq_iff_eq] at h; exact absurd h hr
            rw [if_neg hr]
            simp only [hr', Bool.false_eq_true, if_false]
            exact unm _
      · have hc' : (m != CONNECT && urlPath != [SLASH]) = false := by
          cases h : (m != CONNECT && urlPath != [SLASH]) with
          | false => rfl
          | true => simp only [Bool.and_eq_true, bne_iff_ne, ne_eq] at h; exact absurd h hc
        rw [if_neg hc]
        simp only [hc', Bool.false_eq_true, if_false]
        exact unm _

section
variable (ops : List Op) (hv : ∀ op ∈ ops, op.valid = true) (hu : ∀ op ∈ ops, updSplitOk op = true)
variable (cfg : Cfg) (m hostPort path urlPath : Bytes)
variable (hn : noDbl path = true) (hs : SLASH ∉ stripHostPort hostPort)
include hv hu hn hs

/-- **C08 on the sequential map.** After any history, let `Spec.route` on the routes the sequential map holds for the
    request's method answer the request. A direct match is served by that route with its parameters. A match obtained
    by adding or removing a trailing slash (`tsr`): if the request is not CONNECT and URL.Path is not "/", then - if that
    route ignores trailing slashes the request is served by it (with the parameters of the adjusted match); else if it
    redirects trailing slashes and the path is already clean, the answer is a redirect, 301 for GET and 308 otherwise;
    otherwise, and always for CONNECT and for "/", the request is unmatched. No match: unmatched.
    (No hypothesis relating `urlPath` and `path` is needed here.) -/
theorem C08_on_the_sequential_map :
    match Spec.route ((runSpec [] ops).1.routesOf m) hostPort path with
    | some ⟨r, ps, false⟩ =>
      (modelOutcome ops cfg m hostPort path urlPath).kind = .route ∧
        (modelOutcome ops cfg m hostPort path urlPath).route = some r ∧
        (modelOutcome ops cfg m hostPort path urlPath).params = ps
    | some ⟨r, ps, true⟩ =>
      if m ≠ CONNECT ∧ urlPath ≠ [SLASH] then
        if r.ignoreTS = true then
          (modelOutcome ops cfg m hostPort path urlPath).kind = .route ∧
            (modelOutcome ops cfg m hostPort path urlPath).route = some r ∧
            (modelOutcome ops cfg m hostPort path urlPath).params = ps
        else if r.redirectTS = true ∧ path = cleanRef path then
          (modelOutcome ops cfg m hostPort path urlPath).kind = .redirect ∧
            (modelOutcome ops cfg m hostPort path urlPath).route = some r ∧
            (modelOutcome ops cfg m hostPort path urlPath).code = (if m = GET then 301 else 308)
        else Unmatched (modelOutcome ops cfg m hostPort path urlPath)
      else Unmatched (modelOutcome ops cfg m hostPort path urlPath)
    | none => Unmatched (modelOutcome ops cfg m hostPort path urlPath) :=
  dispatch_of_route (routing_correct_on_the_sequential_map ops hv hu m hostPort path hn hs) cfg urlPath

/-- C08, the converse reading: a route handler runs or a redirect is sent only in the cases above, i.e. exactly when the
    specification's dispatch acts (`ServeSpec.dispatched` on the map's routes for the method) -/
theorem C08_acts_iff_dispatched :
    ((modelOutcome ops cfg m hostPort path urlPath).kind = .route ∨
     (modelOutcome ops cfg m hostPort path urlPath).kind = .redirect) ↔
    dispatched ((runSpec [] ops).1.routesOf m) m hostPort path urlPath = true := by
  have h := C08_on_the_sequential_map ops hv hu cfg m hostPort path urlPath hn hs
  unfold dispatched
  have hun : ∀ o : Model.Outcome, Unmatched o → ¬(o.kind = .route ∨ o.kind = .redirect) := by
    rintro o ⟨hk, _⟩ (h | h) <;> rw [h] at hk <;> simp at hk
  cases ho : Spec.route ((runSpec [] ops).1.routesOf m) hostPort path with
  | none =>
    simp only [ho] at h ⊢
    exact ⟨fun h' => absurd h' (hun _ h), fun h' => by cases h'⟩
  | some f =>
    obtain ⟨r, ps, tsr⟩ := f
    cases tsr with
    | false => simp only [ho] at h ⊢; simp [h.1]
    | true =>
      simp only [ho] at h ⊢
      by_cases hc : m ≠ CONNECT ∧ urlPath ≠ [SLASH]
      · rw [if_pos hc] at h
        have hc' : (m != CONNECT && urlPath != [SLASH]) = true := by simpa using hc
        simp only [hc', Bool.true_and]
        by_cases hi : r.ignoreTS = true
        · rw [if_pos hi] at h; simp [h.1, hi]
        · rw [if_neg hi] at h
          by_cases hr : r.redirectTS = true ∧ path = cleanRef path
          · rw [if_pos hr] at h; simp [h.1, hr.1, ← hr.2]
          · rw [if_neg hr] at h
            constructor
            · intro h'; exact absurd h' (hun _ h)
            · intro h'
              simp only [Bool.or_eq_true, Bool.and_eq_true, beq_iff_eq] at h'
              rcases h' with h' | h'
              · exact absurd h' hi
              · exact absurd h' hr
      · rw [if_neg hc] at h
        have hc' : (m != CONNECT && urlPath != [SLASH]) = false := by
          cases h : (m != CONNECT && urlPath != [SLASH]) with
          | false => rfl
          | true => simp only [Bool.and_eq_true, bne_iff_ne, ne_eq] at h; exact absurd h hc
        simp only [hc', Bool.false_and]
        exact ⟨fun h' => absurd h' (hun _ h), fun h' => by cases h'⟩

end

/-! ### property C11 in terms of `Spec.route` on the sequential map -/

/-- method `x` has a route in the map that serves (host, path): `Spec.route` on the routes the map holds for `x` matches
    directly, or by adjusting a trailing slash on a route that ignores it (never for CONNECT, never for the root path) -/
abbrev servesOn (s : Store) (x hostPort path urlPath : Bytes) : Prop :=
  Spec.serves (s.routesOf x) x hostPort path urlPath = true

section
variable (ops : List Op) (hv : ∀ op ∈ ops, op.valid = true) (hu : ∀ op ∈ ops, updSplitOk op = true)
variable (cfg : Cfg) (m hostPort path urlPath : Bytes)
variable (hn : noDbl path = true) (hs : SLASH ∉ stripHostPort hostPort)
include hv hu hn hs

omit hv hu hn hs in
/-- when the specification's dispatch does not act the specification's answer is its special part -/
theorem specAnswer_unmatched (hd : dispatched ((runSpec [] ops).1.routesOf m) m hostPort path urlPath = false) :
    specAnswer ops cfg m hostPort path urlPath =
      specSpecial cfg (storeMethods (runSpec [] ops).1) (fun x => (runSpec [] ops).1.routesOf x) m hostPort path urlPath :=
  spec_serve_undispatched (store := fun x => (runSpec [] ops).1.routesOf x) hd

/-- **C11 on the sequential map: the automatic OPTIONS answer.** If the request ends in the OPTIONS handler (and no F17
    hit is recorded), it is an OPTIONS request with automatic replies on, and `Allow` lists exactly: OPTIONS, and - for the
    target "*" - every other method that has at least one route in the map; for any other target every method that has
    a route in the map serving that host and path, directly or by ignoring a trailing slash. -/
theorem C11_options_on_the_sequential_map (hroot : urlPath = [SLASH] → path = [SLASH])
    (hF : "allow-connect-tsr" ∉ (modelOutcome ops cfg m hostPort path urlPath).tags)
    (hk : (modelOutcome ops cfg m hostPort path urlPath).kind = .options) :
    m = OPTIONS ∧ cfg.autoOptions = true ∧
    ∀ x, x ∈ (modelOutcome ops cfg m hostPort path urlPath).allow ↔
      x = OPTIONS ∨ (if path = [STAR] then x ≠ OPTIONS ∧ (runSpec [] ops).1.routesOf x ≠ []
                     else servesOn (runSpec [] ops).1 x hostPort path urlPath) := by
  obtain ⟨_, _, _, hex⟩ := serve_refines_spec ops hv hu cfg m hostPort path urlPath hn hs hroot
  obtain ⟨hkind, hallow⟩ := hex hF
  have hd : dispatched ((runSpec [] ops).1.routesOf m) m hostPort path urlPath = false := by
    cases hd : dispatched ((runSpec [] ops).1.routesOf m) m hostPort path urlPath with
    | false => rfl
    | true =>
      have := (spec_serve_dispatched (cfg := cfg) (methods := storeMethods (runSpec [] ops).1)
        (store := fun x => (runSpec [] ops).1.routesOf x) hd).1
      rw [← hkind, hk] at this; simp at this
  have hsp := specAnswer_unmatched ops cfg m hostPort path urlPath hd
  rw [hsp] at hkind hallow
  rw [hk] at hkind
  have hM := mem_storeMethods (runSpec [] ops).1
  have h0 := (specSpecial_options_iff (store := fun x => (runSpec [] ops).1.routesOf x) hM).1 hkind.symm
  refine ⟨h0.1, h0.2.1, fun x => ?_⟩
  rw [hallow, specSpecial_options_allow (store := fun x => (runSpec [] ops).1.routesOf x) hM hkind.symm]
  rfl

/-- **C11 on the sequential map: the 405 answer.** If the request ends in the no-method handler (and no F17 hit is
    recorded), method-not-allowed is on, the request is not an automatic-OPTIONS one, and `Allow` lists exactly the
    *other* methods that have a route in the map serving that host and path (directly or by ignoring a trailing slash),
    plus OPTIONS when automatic replies are on. -/
theorem C11_noMethod_on_the_sequential_map (hroot : urlPath = [SLASH] → path = [SLASH])
    (hF : "allow-connect-tsr" ∉ (modelOutcome ops cfg m hostPort path urlPath).tags)
    (hk : (modelOutcome ops cfg m hostPort path urlPath).kind = .noMethod) :
    ¬(m = OPTIONS ∧ cfg.autoOptions = true) ∧ cfg.noMethod = true ∧
    ∀ x, x ∈ (modelOutcome ops cfg m hostPort path urlPath).allow ↔
      (x ≠ m ∧ servesOn (runSpec [] ops).1 x hostPort path urlPath) ∨ (cfg.autoOptions = true ∧ x = OPTIONS) := by
  obtain ⟨_, _, _, hex⟩ := serve_refines_spec ops hv hu cfg m hostPort path urlPath hn hs hroot
  obtain ⟨hkind, hallow⟩ := hex hF
  have hd : dispatched ((runSpec [] ops).1.routesOf m) m hostPort path urlPath = false := by
    cases hd : dispatched ((runSpec [] ops).1.routesOf m) m hostPort path urlPath with
    | false => rfl
    | true =>
      have := (spec_serve_dispatched (cfg := cfg) (methods := storeMethods (runSpec [] ops).1)
        (store := fun x => (runSpec [] ops).1.routesOf x) hd).1
      rw [← hkind, hk] at this; simp at this
  have hsp := specAnswer_unmatched ops cfg m hostPort path urlPath hd
  rw [hsp] at hkind hallow
  rw [hk] at hkind
  have hM := mem_storeMethods (runSpec [] ops).1
  have h0 := (specSpecial_noMethod_iff (store := fun x => (runSpec [] ops).1.routesOf x) hM).1 hkind.symm
  refine ⟨h0.1, h0.2.1, fun x => ?_⟩
  rw [hallow, specSpecial_noMethod_allow (store := fun x => (runSpec [] ops).1.routesOf x) hM hkind.symm]

/-- **C11 on the sequential map: which handler answers an unmatched request** (no F17 hit recorded). The OPTIONS
    handler exactly for OPTIONS requests with automatic replies on when some method is listed; the no-method handler
    exactly when method-not-allowed is on, the request is not an automatic-OPTIONS one and some other method serves the
    host and path; in every other case the no-route handler. -/
theorem C11_handler_on_the_sequential_map (hroot : urlPath = [SLASH] → path = [SLASH])
    (hF : "allow-connect-tsr" ∉ (modelOutcome ops cfg m hostPort path urlPath).tags)
    (hd : dispatched ((runSpec [] ops).1.routesOf m) m hostPort path urlPath = false) :
    ((modelOutcome ops cfg m hostPort path urlPath).kind = .options ↔
      m = OPTIONS ∧ cfg.autoOptions = true ∧
        ∃ x, if path = [STAR] then x ≠ OPTIONS ∧ (runSpec [] ops).1.routesOf x ≠ []
             else servesOn (runSpec [] ops).1 x hostPort path urlPath) ∧
    ((modelOutcome ops cfg m hostPort path urlPath).kind = .noMethod ↔
      ¬(m = OPTIONS ∧ cfg.autoOptions = true) ∧ cfg.noMethod = true ∧
        ∃ x, x ≠ m ∧ servesOn (runSpec [] ops).1 x hostPort path urlPath) ∧
    ((modelOutcome ops cfg m hostPort path urlPath).kind = .options ∨
     (modelOutcome ops cfg m hostPort path urlPath).kind = .noMethod ∨
     (modelOutcome ops cfg m hostPort path urlPath).kind = .noRoute) := by
  obtain ⟨_, _, _, hex⟩ := serve_refines_spec ops hv hu cfg m hostPort path urlPath hn hs hroot
  obtain ⟨hkind, _⟩ := hex hF
  have hsp := specAnswer_unmatched ops cfg m hostPort path urlPath hd
  rw [hsp] at hkind
  have hM := mem_storeMethods (runSpec [] ops).1
  rw [hkind]
  exact ⟨specSpecial_options_iff (store := fun x => (runSpec [] ops).1.routesOf x) hM,
    specSpecial_noMethod_iff (store := fun x => (runSpec [] ops).1.routesOf x) hM,
    specSpecial_kind _ _ _ _ _ _ _⟩

end

/-! ### non-vacuity: both sides evaluated on a concrete history -/

namespace Ex

def foo : Bytes := [47, 102, 111, 111]            -- "/foo"
def fooS : Bytes := [47, 102, 111, 111, 47]       -- "/foo/"
def host : Bytes := [104]                         -- "h"
def PUTm : Bytes := PUT

def pFoo : List Tok := [.lit 47, .lit 102, .lit 111, .lit 111]
def pFooS : List Tok := pFoo ++ [.lit 47]

def rGet : Route := { hid := 1, pattern := pFooS, ignoreTS := true }     -- GET  /foo/  ignoring trailing slashes
def rPost : Route := { hid := 2, pattern := pFoo }                        -- POST /foo
def rConn : Route := { hid := 3, pattern := pFooS, ignoreTS := true }    -- CONNECT /foo/ ignoring trailing slashes

def hist : List Op := [.handle GET rGet, .handle POST rPost, .handle CONNECT rConn]
def both : Cfg := { noMethod := true, autoOptions := true }

/-- the hypotheses of the theorems hold for the history and the requests below -/
example : (∀ op ∈ hist, op.valid = true) ∧ (∀ op ∈ hist, updSplitOk op = true) := by decide
example : noDbl foo = true ∧ noDbl fooS = true ∧ noDbl [STAR] = true ∧ SLASH ∉ stripHostPort host := by decide

def M (cfg : Cfg) (ops : List Op) (m path urlPath : Bytes) : Model.Outcome := modelOutcome ops cfg m host path urlPath
def S (cfg : Cfg) (ops : List Op) (m path urlPath : Bytes) : Served := specAnswer ops cfg m host path urlPath

-- the map holds the three methods, in registration order; the tree lists them in root order
#guard storeMethods (runSpec [] hist).1 == [GET, POST, CONNECT]
#guard (runModel newTree hist).1.methods == [GET, POST, CONNECT]

-- GET /foo : served by GET /foo/ through its ignored trailing slash, on both sides
#guard (M both hist GET foo foo).kind == .route && (M both hist GET foo foo).route == some rGet
#guard (S both hist GET foo foo).kind == .route && (S both hist GET foo foo).route == some rGet

-- POST /foo/ : POST /foo neither ignores nor redirects: unmatched, 405 listing GET and CONNECT (direct matches)
#guard (M both hist POST fooS fooS).kind == .noMethod && (M both hist POST fooS fooS).allow == [GET, CONNECT, OPTIONS]
#guard (M both hist POST fooS fooS).tags == ["tsr-unserved"]
#guard (S both hist POST fooS fooS).kind == .noMethod && (S both hist POST fooS fooS).allow == [GET, CONNECT, OPTIONS]

-- PUT /foo/ (no PUT route): 405 with the same Allow on both sides, no F17 hit
#guard (M both hist PUTm fooS fooS).kind == .noMethod && (M both hist PUTm fooS fooS).allow == [GET, CONNECT, OPTIONS]
#guard (S both hist PUTm fooS fooS).kind == .noMethod && (S both hist PUTm fooS fooS).allow == [GET, CONNECT, OPTIONS]

-- OPTIONS * : every method with routes
#guard (M both hist OPTIONS [STAR] [STAR]).allow == [GET, POST, CONNECT, OPTIONS]
#guard (S both hist OPTIONS [STAR] [STAR]).allow == [GET, POST, CONNECT, OPTIONS]

-- **F17**: OPTIONS /foo. The Allow loop accepts CONNECT (trailing-slash match on an ignoring route), dispatch would not
-- serve CONNECT /foo: the tag is present and the lists differ by exactly CONNECT
#guard (M both hist OPTIONS foo foo).kind == .options && (M both hist OPTIONS foo foo).allow == [GET, POST, CONNECT, OPTIONS]
#guard (M both hist OPTIONS foo foo).tags == ["allow-connect-tsr"]
#guard (S both hist OPTIONS foo foo).kind == .options && (S both hist OPTIONS foo foo).allow == [GET, POST, OPTIONS]
-- and indeed CONNECT /foo is unmatched (405 listing GET and POST)
#guard (M both hist CONNECT foo foo).kind == .noMethod && (M both hist CONNECT foo foo).allow == [GET, POST, OPTIONS]
#guard (M both hist CONNECT foo foo).tags == ["tsr-guarded"]
#guard (S both hist CONNECT foo foo).kind == .noMethod && (S both hist CONNECT foo foo).allow == [GET, POST, OPTIONS]

/-- **F17 can change the kind of answer** (`f17_kind`): with CONNECT /foo/ (ignoring trailing slashes) as the only route,
    OPTIONS /foo is answered by the OPTIONS handler with "Allow: CONNECT, OPTIONS" where the specification says 404 -
    which is why `serve_refines_spec` states the equality of kinds under the no-tag hypothesis and `serve_kind_f17`
    states the general case. -/
def onlyConn : List Op := [.handle CONNECT rConn]
#guard (M both onlyConn OPTIONS foo foo).kind == .options && (M both onlyConn OPTIONS foo foo).allow == [CONNECT, OPTIONS]
#guard (M both onlyConn OPTIONS foo foo).tags == ["allow-connect-tsr"]
#guard (S both onlyConn OPTIONS foo foo).kind == .noRoute

/-- **the hypothesis `urlPath = "/" → path = "/"` cannot be dropped** (`hroot_needed`): with GET /foo/ (ignoring
    trailing slashes) as the only route, a request whose matcher path (RawPath) is "/foo" but whose URL.Path is "/" is
    not served by dispatch (guard `URL.Path != "/"`), yet the Allow loop of OPTIONS lists GET - and the model records no
    F17 tag for it (the tag only marks the CONNECT leg). -/
def onlyGet : List Op := [.handle GET rGet]
#guard (M both onlyGet OPTIONS foo [SLASH]).kind == .options && (M both onlyGet OPTIONS foo [SLASH]).allow == [GET, OPTIONS]
#guard (M both onlyGet OPTIONS foo [SLASH]).tags == []
#guard (S both onlyGet OPTIONS foo [SLASH]).kind == .noRoute
#guard (M both onlyGet GET foo [SLASH]).kind == .noRoute && (M both onlyGet GET foo [SLASH]).tags == ["tsr-guarded"]

end Ex

end Fox.C08
