namespace Fox.C09
end Fox.C09
