import FoxModel.Props.C01
/-
  Property C09 — hostname routes match the whole host, path-only routes are the fallback.
  (The declarative meaning of `specHost` — label-for-label equality, never a prefix/suffix/substring match — is proved
  in Props/C01Spec; here: the model of `roots.lookup` / `lookupByDomain` versus `specHost` and the staging.)
-/
namespace Fox.C09
open Fox Fox.Model Fox.Spec

/-- **whole host**: the hostname stage returns a direct match exactly as `specHost` enumerates it: the host is consumed
    label by label (static text before `{param}`, a param standing for one non-empty dot-free label part) and the path is
    entered only when the whole host has been consumed at the end of a node key -/
theorem host_stage_eq_spec {root : Node} (hw : wfKids root.children = true) (hd : nodupB (kindsOf root.children) = true)
    (hh : hostOkKids root.children = true) (host path : Bytes) (hs : SLASH ∉ host) :
    pick (hostWalk root [] host path []) = (match specHost (sufsKids root.children) host path [] with
      | (r, ps) :: _ => Result.found r ps false
      | [] => firstTsr (hostWalk root [] host path [])) :=
  hostLookup_refines hw hd hh host path hs

/-- a method whose routes have no hostname ignores the Host altogether -/
theorem pathonly_ignores_host (rs : Roots) (m h₁ h₂ path : Bytes) (root c : Node)
    (hm : methodRoot rs m = some root) (hc : root.children = [c]) (hs : startsWithSlash c.key = true) :
    lookup rs m h₁ path = lookup rs m h₂ path := by
  unfold lookup
  simp [hm, hc, hs]

/-- an empty Host (after stripping port and trailing dot) goes straight to the path-only routes -/
theorem empty_host_is_pathonly (rs : Roots) (m hostPort path : Bytes) (root : Node)
    (hm : methodRoot rs m = some root) (he : stripHostPort hostPort = []) :
    lookup rs m hostPort path =
      (match root.children.find? (fun c => startsWithSlash c.key) with
       | some c => pick (pathEvents c path [])
       | none => .none) := by
  unfold lookup
  simp only [hm, he]
  cases hcs : root.children with
  | nil => rfl
  | cons c0 cs0 =>
    simp only
    split
    · rfl
    · simp
      rfl

/-- **fallback**: path-only routes are consulted exactly when the hostname stage yields neither a direct match nor a
    trailing-slash candidate; whenever the hostname stage yields something, that answer is final -/
theorem host_answer_is_final (rs : Roots) (m hostPort path : Bytes) (root : Node) (r : Route) (ps : Binds) (tsr : Bool)
    (hm : methodRoot rs m = some root)
    (hmixed : ¬ (root.children.length == 1 && (root.children.find? (fun c => startsWithSlash c.key)).isSome) = true)
    (hne : stripHostPort hostPort ≠ [])
    (hhost : pick (hostWalk root [] (stripHostPort hostPort) path []) = .found r ps tsr) :
    lookup rs m hostPort path = .found r ps tsr := by
  unfold lookup
  simp only [hm]
  cases hcs : root.children with
  | nil =>
    exfalso
    cases hh : stripHostPort hostPort with
    | nil => exact hne hh
    | cons b rest =>
      rw [hh] at hhost
      unfold hostWalk at hhost
      rw [hcs] at hhost
      unfold hostKids at hhost
      simp [pick, firstTsr] at hhost
  | cons c0 cs0 =>
    rw [hcs] at hmixed
    have hne' : (stripHostPort hostPort == []) = false := by simpa using hne
    simp only [hmixed, hne', hhost]
    simp

end Fox.C09
