import FoxModel.Model.Parse
import FoxModel.Spec.Grammar
import FoxModel.Lemmas.Parse
/-
  Property C10 — patterns are accepted exactly per the grammar (and every accepted one is routable).

  What is proved here is about `Fox.Model.parseRoute` / `Fox.Model.parseWildcard`, the transition-by-transition
  models of `(*Router).parseRoute` (fox.go) and `parseWildcard` (node.go); the models are tied to the Go code by
  the `parse` stream (exhaustive over an 8-letter alphabet up to length 6 / 7, plus structured random strings).
  The second half of the property (an accepted pattern, registered alone, serves its own instances) is carried by
  the `routable` stream through the routing model of C01; it is not a theorem here.
  Helper lemmas: FoxModel/Lemmas/Parse.lean.
-/
namespace Fox.C10
open Fox Fox.Model Fox.Spec

/-- **Registration never panics in the validator**: for every byte string and every pair of limits, none of the
    index expressions of `parseRoute` (`url[i]`, `url[i+1]`, `url[i-1]`, `url[endHost-1]`, `url[len(url)-1]`) is
    evaluated out of range. -/
theorem parse_total (maxParams maxKeyBytes : Nat) (s : Bytes) :
    parseRoute maxParams maxKeyBytes s ≠ .panic :=
  parseRoute_ne_panic maxParams maxKeyBytes s

/-- **`tokenize` is lossless** (every string that reads as tokens is the rendering of these tokens): the token view
    used by all routing theorems describes the registered pattern string exactly. -/
theorem tokenize_render (s : Bytes) (toks : List Tok) (h : tokenize s = some toks) : render toks = s :=
  render_tokenize s.length s toks rfl h

/-- **What an accepted pattern reports**: when `parseRoute` accepts, the string reads as tokens, the returned
    parameter count (`Route.ParamsLen`) is the number of wildcard tokens, and the returned `endHost`
    (`len(Route.Hostname())`) is the index of the first '/'. -/
theorem parse_counts (mp mk : Nat) (s : Bytes) (n e : Nat) (h : parseRoute mp mk s = .ok n e) :
    ∃ toks, tokenize s = some toks ∧ n = (toks.filter isWild).length ∧
      ∃ pre suf, s = pre ++ SLASH :: suf ∧ pre.length = e ∧ SLASH ∉ pre := by
  obtain ⟨he, _, _, toks, ht, ha⟩ := (parseRoute_ok_iff mp mk s n e).mp h
  refine ⟨toks, ht, ?_, indexByte_spec he⟩
  rw [tokAccept_eq] at ha
  split at ha
  · injection ha with ha; exact ha.symm
  · cases ha

/-- **Round trip on accepted patterns**: an accepted pattern tokenizes, renders back to itself, and the rendering
    tokenizes to the same tokens. -/
theorem tokenize_render_accepted (mp mk : Nat) (s : Bytes) (n e : Nat) (h : parseRoute mp mk s = .ok n e) :
    ∃ toks, tokenize s = some toks ∧ render toks = s ∧ tokenize (render toks) = some toks := by
  obtain ⟨toks, ht, _⟩ := parse_counts mp mk s n e h
  have hr := tokenize_render s toks ht
  exact ⟨toks, ht, hr, by rw [hr]; exact ht⟩

/-- name and kind of the wildcards of a token list, in order -/
def wildcardsOf (toks : List Tok) : List (Bytes × Bool) :=
  toks.filterMap fun | .param n => some (n, false) | .catchAll n => some (n, true) | .lit _ => none

theorem wildPositions_keys (off : Nat) (toks : List Tok) :
    (wildPositions off toks).map (fun p => (p.key, p.catchAll)) = wildcardsOf toks := by
  induction toks generalizing off with
  | nil => rfl
  | cons t ts ih => cases t <;> simp [wildPositions, wildcardsOf, ih] <;> exact ih _

/-- **`parseWildcard` (used when nodes are built) agrees with the token view**: on every string that reads as
    tokens it does not panic (its slice expressions are in range) and returns exactly the wildcards of the token
    list, in order, with the byte offset after each closing brace (`-1` for a wildcard that ends the string). -/
theorem parseWildcard_agrees (s : Bytes) (toks : List Tok) (h : tokenize s = some toks) :
    parseWildcard s = some (wildPositions 0 toks) ∧
      ∃ ps, parseWildcard s = some ps ∧ ps.map (fun p => (p.key, p.catchAll)) = wildcardsOf toks := by
  obtain ⟨st', h1, h2⟩ := wLoop_tokens (s := s) s.length s [] {} toks rfl rfl rfl rfl h
  have hp : parseWildcard s = some (wildPositions 0 toks) := by
    simp only [parseWildcard, h1, Option.map_some]
    rw [h2]; simp
  exact ⟨hp, _, hp, wildPositions_keys 0 toks⟩

theorem wildcardsOf_length (toks : List Tok) : (wildcardsOf toks).length = (toks.filter isWild).length := by
  induction toks with
  | nil => rfl
  | cons t ts ih => cases t <;> simp [wildcardsOf, isWild, List.filter_cons] at ih ⊢ <;> exact ih

/-- the same for accepted patterns, stated on `parseRoute` -/
theorem parseWildcard_agrees_accepted (mp mk : Nat) (s : Bytes) (n e : Nat) (h : parseRoute mp mk s = .ok n e) :
    ∃ toks ps, tokenize s = some toks ∧ parseWildcard s = some ps ∧
      ps.map (fun p => (p.key, p.catchAll)) = wildcardsOf toks ∧ ps.length = n := by
  obtain ⟨toks, ht, hn, _⟩ := parse_counts mp mk s n e h
  obtain ⟨_, ps, hp, hk⟩ := parseWildcard_agrees s toks ht
  refine ⟨toks, ps, ht, hp, hk, ?_⟩
  have : ps.length = (wildcardsOf toks).length := by rw [← hk]; simp
  rw [this, hn, wildcardsOf_length]

/-- **The validator accepts exactly the documented grammar**: for every byte string and all limits,
    `parseRoute` (hence `Router.NewRoute`, `Handle`, `Update`, `Delete`, which all call it) accepts the pattern
    iff `Spec.valid` holds: a leading slash or a valid LDH hostname followed by a slash; `{name}` / `*{name}`
    with non-empty delimiter-free names, at most one per segment / label and only at its end; no catch-all in the
    hostname; no two catch-alls separated by at most one byte; the limits on count and name length. -/
theorem parse_iff (lim : Limits) (s : Bytes) :
    (∃ n e, parseRoute lim.maxParams lim.maxKeyBytes s = .ok n e) ↔ valid lim s = true := by
  constructor
  · rintro ⟨n, e, h⟩
    obtain ⟨_, _, _, toks, ht, ha⟩ := (parseRoute_ok_iff _ _ s n e).mp h
    simp only [valid, ht]
    have := tokAccept_eq (lim := lim) toks
    rw [this] at ha
    split at ha
    · assumption
    · cases ha
  · intro h
    simp only [valid] at h
    cases ht : tokenize s with
    | none => rw [ht] at h; cases h
    | some toks =>
      rw [ht] at h; simp only at h
      have ha : tokAccept lim toks = some (wilds toks) := by rw [tokAccept_eq, if_pos h]
      obtain ⟨e, he⟩ := slash_of_valid ht h
      obtain ⟨h1, h2⟩ := head_ok_of_accept ht ha
      exact ⟨wilds toks, e, (parseRoute_ok_iff _ _ s _ e).mpr ⟨he, h1, h2, toks, ht, ha⟩⟩

/-- what an accepted pattern returns, in one statement: the number of wildcards of its token list -/
theorem parse_ok_count (lim : Limits) (s : Bytes) (toks : List Tok) (ht : tokenize s = some toks)
    (hv : validToks lim toks = true) :
    ∃ e, parseRoute lim.maxParams lim.maxKeyBytes s = .ok (toks.filter isWild).length e := by
  have ha : tokAccept lim toks = some (wilds toks) := by rw [tokAccept_eq, if_pos hv]
  obtain ⟨e, he⟩ := slash_of_valid ht hv
  obtain ⟨h1, h2⟩ := head_ok_of_accept ht ha
  exact ⟨e, (parseRoute_ok_iff _ _ s _ e).mpr ⟨he, h1, h2, toks, ht, ha⟩⟩

/-- token lists that are the reading of some string: literals are not '{' / '*', names contain no '}' -/
def wfToks (toks : List Tok) : Bool :=
  toks.all fun
    | .lit b => b != LBR && b != STAR
    | .param n => n.all (· != RBR)
    | .catchAll n => n.all (· != RBR)

theorem takeName_append (n r : Bytes) (h : n.all (· != RBR) = true) : takeName (n ++ RBR :: r) = some (n, r) := by
  induction n with
  | nil => simp [takeName]
  | cons b n ih =>
    simp only [List.all_cons, Bool.and_eq_true, bne_iff_ne, ne_eq] at h
    simp [takeName, h.1, ih h.2]

/-- **the other half of the round trip**: a well-formed token list is the reading of its rendering -/
theorem render_tokenize_wf (toks : List Tok) (h : wfToks toks = true) : tokenize (render toks) = some toks := by
  induction toks with
  | nil => exact tokenize_nil
  | cons t ts ih =>
    simp only [wfToks, List.all_cons, Bool.and_eq_true] at h
    have ih' := ih (by simpa [wfToks] using h.2)
    cases t with
    | lit b =>
      have hb := h.1
      simp only [Bool.and_eq_true, bne_iff_ne, ne_eq] at hb
      have : render (.lit b :: ts) = b :: render ts := by simp [render, Tok.render]
      rw [this, tokenize_lit b _ hb.1 hb.2, ih']; rfl
    | param n =>
      have : render (.param n :: ts) = LBR :: (n ++ RBR :: render ts) := by simp [render, Tok.render]
      rw [this, tokenize_lbr, takeName_append n _ h.1]
      simp [ih']
    | catchAll n =>
      have : render (.catchAll n :: ts) = STAR :: LBR :: (n ++ RBR :: render ts) := by simp [render, Tok.render]
      rw [this, tokenize_star_lbr, takeName_append n _ h.1]
      simp [ih']

/-! ### non-vacuity -/

/-- `a.{b}.c/x/{y}/*{z}` -/
def ex1 : List Tok :=
  [.lit 97, .lit 46, .param [98], .lit 46, .lit 99, .lit 47, .lit 120, .lit 47, .param [121], .lit 47, .catchAll [122]]

theorem ex1_tokenize : tokenize (render ex1) = some ex1 := render_tokenize_wf ex1 (by decide)

/-- a pattern with a hostname, a hostname parameter, a path parameter and a catch-all is accepted, with 3 wildcards
    and the hostname `a.{b}.c` (7 bytes) -/
example : ∃ e, parseRoute 65535 65535 (render ex1) = .ok 3 e :=
  parse_ok_count ⟨65535, 65535⟩ (render ex1) ex1 ex1_tokenize (by decide)

example : valid ⟨65535, 65535⟩ (render ex1) = true := by
  simp only [valid, ex1_tokenize]; decide

/-- `/*{a}/*{b}` (consecutive catch-alls) is rejected -/
example : ¬ ∃ n e, parseRoute 65535 65535
    (render [.lit 47, .catchAll [97], .lit 47, .catchAll [98]]) = .ok n e := by
  rw [parse_iff ⟨65535, 65535⟩]
  have : tokenize (render [.lit 47, .catchAll [97], .lit 47, .catchAll [98]]) =
      some [.lit 47, .catchAll [97], .lit 47, .catchAll [98]] := render_tokenize_wf _ (by decide)
  simp only [valid, this]; decide

/-- with `WithMaxRouteParams(2)` the first example is rejected (3 wildcards) -/
example : ¬ ∃ n e, parseRoute 2 65535 (render ex1) = .ok n e := by
  rw [parse_iff ⟨2, 65535⟩]
  simp only [valid, ex1_tokenize]; decide

end Fox.C10
