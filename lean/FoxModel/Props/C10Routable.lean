import FoxModel.Lemmas.Routable
set_option linter.unusedSimpArgs false
set_option linter.unusedVariables false
/-
  Property C10, second half — **every accepted pattern is routable**:

    "when it is the only route, a request formed by substituting non-empty values for its wildcards is routed to it,
     the values it reports reproduce the request when substituted back, and they are exactly the substituted values
     whenever no catch-all is followed by further pattern text (where several splits may be valid)."

  Vocabulary (definitions in `FoxModel/Lemmas/Routable.lean`):
   * `Accepted lim s r`   : `parseRoute` accepts the pattern text `s`, `r.pattern` is its token reading and
                            `r.hostToks` is the index of its first literal '/' (what `NewRoute` records);
   * `instantiate toks vals` : the i-th value substituted for the i-th wildcard;
   * `valsOk toks vals`   : exactly one value per wildcard; a `{param}` value is non-empty and contains no '/'
                            (no '.' either in the hostname part); the value of a catch-all that ends the pattern is
                            non-empty; the value of a catch-all that is followed by more pattern text is non-empty,
                            does not start with '/', does not end with '/' and contains no "//" (`InfixCap`, the values
                            the router can capture at such a position - see the `#guard`s at the end: each of the three
                            restrictions is necessary);
   * `reqHost x` / `reqPath x` : the instantiated text split at its first '/' (Host, request path);
   * `noInfix toks`       : no catch-all is followed by further pattern text.

  The theorems on the radix tree need two more hypotheses, inherited from `routing_correct_on_the_sequential_map`:
  the instantiated path contains no empty segment (`noDbl`; a valid pattern may itself contain a literal "//", and a
  final catch-all value may contain one) and the stripped Host contains no '/'.
-/
namespace Fox.C10
open Fox Fox.Model Fox.Spec Fox.C02

/-- `r` is the route built for the accepted pattern text `s`: the validator `parseRoute` accepts `s` under the limits
    `lim`, `r.pattern` is the token reading of `s` and `r.hostToks` is the index of its first literal '/'. -/
structure Accepted (lim : Limits) (s : Bytes) (r : Route) : Prop where
  ok : ∃ n e, parseRoute lim.maxParams lim.maxKeyBytes s = .ok n e
  toks : tokenize s = some r.pattern
  split : r.hostToks = r.pattern.findIdx (· == .lit SLASH)

theorem Accepted.validToks {lim : Limits} {s : Bytes} {r : Route} (h : Accepted lim s r) :
    validToks lim r.pattern = true := by
  have := (parse_iff lim s).1 h.ok
  simpa [valid, h.toks] using this

theorem Accepted.mem_slash {lim : Limits} {s : Bytes} {r : Route} (h : Accepted lim s r) :
    Tok.lit SLASH ∈ r.pattern := by
  obtain ⟨⟨p', hp⟩, _⟩ := shape_of_valid h.validToks
  have : r.pattern = r.pattern.takeWhile (!isSlash ·) ++ r.pattern.dropWhile (!isSlash ·) :=
    (List.takeWhile_append_dropWhile).symm
  rw [this, hp]; simp

theorem Accepted.splitOk {lim : Limits} {s : Bytes} {r : Route} (h : Accepted lim s r) : splitOk r = true := by
  obtain ⟨h1, h2⟩ := findIdx_slash_spec r.pattern h.mem_slash
  simp only [Spec.splitOk, Bool.and_eq_true, h.split]
  exact ⟨h1, h2⟩

/-- an accepted pattern satisfies the hypothesis `Op.valid` of the history theorems (C02, C01) -/
theorem Accepted.validPattern {lim : Limits} {s : Bytes} {r : Route} (h : Accepted lim s r) :
    validPattern r = true := by
  have hso := h.splitOk
  obtain ⟨q', s1, s2, s3, s4, _⟩ := splitOk_split hso
  obtain ⟨_, hwP, hnc, _⟩ := shape_of_valid h.validToks
  rw [s3] at hnc; rw [s4] at hwP
  have hl := tokenize_litsOk s.length s r.pattern rfl h.toks
  rw [s1, litsOk_append, Bool.and_eq_true] at hl
  unfold Spec.splitOk at hso
  simp only [Bool.and_eq_true] at hso
  rw [validPattern_iff]
  refine ⟨?_, hso.1, hso.2, endsWithCatchAll_of_noCatch hnc⟩
  rw [s1]
  exact keyOk_append _ _ hnc hl.1 (keyOk_path _ hl.2 hwP)

/-! ## on the specification -/

/-- common core: the only route answers directly, with captures that match -/
theorem routable_core {lim : Limits} {s : Bytes} {r : Route} (ha : Accepted lim s r)
    {vals : List Bytes} (hvals : valsOk r.pattern vals = true) (hostPort : Bytes)
    (hhost : r.hostToks ≠ 0 → stripHostPort hostPort = reqHost (instantiate r.pattern vals)) :
    ∃ ps, Spec.route [r] hostPort (reqPath (instantiate r.pattern vals)) = some ⟨r, ps, false⟩ ∧
      ((isHostRoute r = true ∧ MatchHP r.pattern (reqHost (instantiate r.pattern vals))
          (reqPath (instantiate r.pattern vals)) ps) ∨
       (isHostRoute r = false ∧ reqHost (instantiate r.pattern vals) = [] ∧
          Match SLASH r.pattern (reqPath (instantiate r.pattern vals)) ps)) := by
  obtain ⟨h1, h2, h3⟩ := instance_matches ha.validToks ha.splitOk hvals
  have hm : (isHostRoute r = true ∧ stripHostPort hostPort ≠ [] ∧
        MatchHP r.pattern (stripHostPort hostPort) (reqPath (instantiate r.pattern vals)) (bindsOf r.pattern vals)) ∨
      (isHostRoute r = false ∧ Match SLASH r.pattern (reqPath (instantiate r.pattern vals)) (bindsOf r.pattern vals)) := by
    cases h0 : isHostRoute r with
    | true =>
      have e := hhost ((isHostRoute_true_iff r).1 h0)
      rw [e]; exact Or.inl ⟨rfl, (h3 h0).1, (h3 h0).2⟩
    | false => exact Or.inr ⟨rfl, (h2 h0).2⟩
  obtain ⟨f, e, hf, hcase⟩ := route_of_match (List.mem_singleton.2 rfl) hm
  have hfr : f.route = r := List.mem_singleton.1 hf
  rcases hcase with ⟨ht, hc⟩ | ⟨_, hr0, hr1, _⟩
  · obtain ⟨fr, fp, ft⟩ := f
    simp only at hfr ht hc; subst hfr; subst ht
    refine ⟨fp, e, ?_⟩
    rcases hc with ⟨c1, c2⟩ | ⟨c1, c2⟩
    · rw [hhost ((isHostRoute_true_iff _).1 c1)] at c2
      exact Or.inl ⟨c1, c2⟩
    · exact Or.inr ⟨c1, (h2 c1).1, c2⟩
  · rw [hfr, hr0] at hr1; cases hr1

/-- **C10, routable, on the routing specification.** Let `r` be the route of an accepted pattern, registered alone,
    and `vals` a well-formed substitution for its wildcards. The request (Host, path) obtained by splitting the
    instantiated pattern at its first '/' is routed to `r` *directly* (no trailing-slash adjustment), the reported
    parameters carry the pattern's wildcard names in order, and substituting them back into the pattern reproduces the
    instantiated text. (For a hostname route the Host header may carry a port / a trailing dot: only its stripped form
    must be the instantiated hostname; for a path-only route the Host header is arbitrary.) -/
theorem routable_spec {lim : Limits} {s : Bytes} {r : Route} (ha : Accepted lim s r)
    {vals : List Bytes} (hvals : valsOk r.pattern vals = true) (hostPort : Bytes)
    (hhost : r.hostToks ≠ 0 → stripHostPort hostPort = reqHost (instantiate r.pattern vals)) :
    ∃ ps, Spec.route [r] hostPort (reqPath (instantiate r.pattern vals)) = some ⟨r, ps, false⟩ ∧
      subst r.pattern ps = some (instantiate r.pattern vals) ∧
      ps.map Prod.fst = wildNames r.pattern := by
  obtain ⟨ps, e, hc⟩ := routable_core ha hvals hostPort hhost
  refine ⟨ps, e, ?_⟩
  rcases hc with ⟨_, hM⟩ | ⟨_, h0, hM⟩
  · refine ⟨?_, C01Spec.matchHP_names hM⟩
    rw [C01Spec.matchHP_subst hM, reqHost_append_reqPath]
  · refine ⟨?_, C01Spec.names_of_match hM⟩
    rw [C01Spec.subst_of_match hM]
    have := reqHost_append_reqPath (instantiate r.pattern vals)
    rw [h0] at this; simpa using congrArg some this

/-- **C10, routable, exact values.** If moreover no catch-all of the pattern is followed by further pattern text, the
    reported parameters are exactly the substituted values, paired with the wildcard names in pattern order. -/
theorem routable_exact {lim : Limits} {s : Bytes} {r : Route} (ha : Accepted lim s r)
    {vals : List Bytes} (hvals : valsOk r.pattern vals = true) (hni : noInfix r.pattern = true) (hostPort : Bytes)
    (hhost : r.hostToks ≠ 0 → stripHostPort hostPort = reqHost (instantiate r.pattern vals)) :
    Spec.route [r] hostPort (reqPath (instantiate r.pattern vals)) =
      some ⟨r, (wildNames r.pattern).zip vals, false⟩ := by
  obtain ⟨ps, e, hc⟩ := routable_core ha hvals hostPort hhost
  obtain ⟨u1, u2⟩ := instance_unique (ps := ps) ha.validToks ha.splitOk hvals hni
  have : ps = bindsOf r.pattern vals := by
    rcases hc with ⟨h0, hM⟩ | ⟨h0, _, hM⟩
    · exact u2 h0 hM
    · exact u1 h0 hM
  rw [e, this, bindsOf_eq_zip]

/-- **"No registered pattern is dead against its own instances", on the specification.** In *any* list of routes
    that contains the route `r` of an accepted pattern, a well-formed instance of `r`'s pattern is answered: by a
    registered route `r'` (possibly another one, of higher priority) that matches the request directly, whose
    parameters reproduce the request when substituted back - the only exception being a path-only `r` while the
    method also has hostname routes and the Host is non-empty: then a slash-adjusted match of a *hostname* route is
    preferred (hostname routes are staged before path-only ones, C09). -/
theorem routable_spec_among {lim : Limits} {s : Bytes} {r : Route} (ha : Accepted lim s r) {rs : List Route}
    (hr : r ∈ rs) {vals : List Bytes} (hvals : valsOk r.pattern vals = true) (hostPort : Bytes)
    (hhost : r.hostToks ≠ 0 → stripHostPort hostPort = reqHost (instantiate r.pattern vals)) :
    ∃ r' ps' tsr, Spec.route rs hostPort (reqPath (instantiate r.pattern vals)) = some ⟨r', ps', tsr⟩ ∧ r' ∈ rs ∧
      ((tsr = false ∧ subst r'.pattern ps' =
          some (if r'.hostToks = 0 then reqPath (instantiate r.pattern vals)
                else stripHostPort hostPort ++ reqPath (instantiate r.pattern vals))) ∨
       (tsr = true ∧ r.hostToks = 0 ∧ r'.hostToks ≠ 0 ∧ C01Spec.HostMode rs hostPort)) := by
  obtain ⟨h1, h2, h3⟩ := instance_matches ha.validToks ha.splitOk hvals
  have hm : (isHostRoute r = true ∧ stripHostPort hostPort ≠ [] ∧
        MatchHP r.pattern (stripHostPort hostPort) (reqPath (instantiate r.pattern vals)) (bindsOf r.pattern vals)) ∨
      (isHostRoute r = false ∧ Match SLASH r.pattern (reqPath (instantiate r.pattern vals)) (bindsOf r.pattern vals)) := by
    cases h0 : isHostRoute r with
    | true =>
      have e := hhost ((isHostRoute_true_iff r).1 h0)
      rw [e]; exact Or.inl ⟨rfl, (h3 h0).1, (h3 h0).2⟩
    | false => exact Or.inr ⟨rfl, (h2 h0).2⟩
  obtain ⟨f, e, hf, hcase⟩ := route_of_match hr hm
  obtain ⟨fr, fp, ft⟩ := f
  refine ⟨fr, fp, ft, e, hf, ?_⟩
  simp only at hcase
  rcases hcase with ⟨ht, hc⟩ | ⟨ht, hr0, hr1, hmode⟩
  · refine Or.inl ⟨ht, ?_⟩
    rcases hc with ⟨c1, c2⟩ | ⟨c1, c2⟩
    · rw [if_neg ((isHostRoute_true_iff _).1 c1)]; exact C01Spec.matchHP_subst c2
    · rw [if_pos ((isHostRoute_false_iff _).1 c1)]; exact C01Spec.subst_of_match c2
  · exact Or.inr ⟨ht, (isHostRoute_false_iff _).1 hr0, (isHostRoute_true_iff _).1 hr1, hmode⟩

/-- in particular: a hostname route, or any route when the Host is empty or the method has no hostname route, is
    answered directly (never "not found", never only through a trailing-slash adjustment) -/
theorem routable_spec_among_direct {lim : Limits} {s : Bytes} {r : Route} (ha : Accepted lim s r) {rs : List Route}
    (hr : r ∈ rs) {vals : List Bytes} (hvals : valsOk r.pattern vals = true) (hostPort : Bytes)
    (hhost : r.hostToks ≠ 0 → stripHostPort hostPort = reqHost (instantiate r.pattern vals))
    (hpo : r.hostToks = 0 → ¬ C01Spec.HostMode rs hostPort) :
    ∃ r' ps', Spec.route rs hostPort (reqPath (instantiate r.pattern vals)) = some ⟨r', ps', false⟩ ∧ r' ∈ rs ∧
      subst r'.pattern ps' =
          some (if r'.hostToks = 0 then reqPath (instantiate r.pattern vals)
                else stripHostPort hostPort ++ reqPath (instantiate r.pattern vals)) := by
  obtain ⟨r', ps', tsr, e, hm, hc⟩ := routable_spec_among ha hr hvals hostPort hhost
  rcases hc with ⟨rfl, hs⟩ | ⟨_, h0, _, hmode⟩
  · exact ⟨r', ps', e, hm, hs⟩
  · exact absurd hmode (hpo h0)

/-! ## on the radix tree -/

theorem runSpec_single (m : Bytes) (r : Route) : (runSpec [] [Op.handle m r]).1.routesOf m = [r] := by
  simp [runSpec, stepSpec, Store.handle, Store.get, Store.conflicts, Store.routesOf]

theorem noSlash_strip {lim : Limits} {s : Bytes} {r : Route} (ha : Accepted lim s r)
    {vals : List Bytes} (hvals : valsOk r.pattern vals = true) {hostPort : Bytes}
    (hhost : r.hostToks ≠ 0 → stripHostPort hostPort = reqHost (instantiate r.pattern vals))
    (hslash : r.hostToks = 0 → SLASH ∉ stripHostPort hostPort) : SLASH ∉ stripHostPort hostPort := by
  by_cases h0 : r.hostToks = 0
  · exact hslash h0
  · rw [hhost h0]; exact (instance_matches ha.validToks ha.splitOk hvals).1

/-- **C10, routable, on the radix tree.** Register the route `r` of an accepted pattern alone (history
    `[Handle m r]` from the empty router). For every well-formed substitution whose instantiated path has no empty
    segment, the model of `roots.lookup` finds `r` directly, with parameters that reproduce the instantiated text when
    substituted back, and that are exactly the substituted values if no catch-all is followed by further pattern text.
    (Host header: for a hostname route anything whose stripped form is the instantiated hostname; for a path-only route
    anything without '/' after stripping.) -/
theorem routable {lim : Limits} {s : Bytes} {r : Route} (ha : Accepted lim s r)
    {vals : List Bytes} (hvals : valsOk r.pattern vals = true) (m hostPort : Bytes)
    (hhost : r.hostToks ≠ 0 → stripHostPort hostPort = reqHost (instantiate r.pattern vals))
    (hslash : r.hostToks = 0 → SLASH ∉ stripHostPort hostPort)
    (hn : noDbl (reqPath (instantiate r.pattern vals)) = true) :
    ∃ ps, lookup (runModel newTree [Op.handle m r]).1.roots m hostPort (reqPath (instantiate r.pattern vals)) =
        .found r ps false ∧
      subst r.pattern ps = some (instantiate r.pattern vals) ∧
      ps.map Prod.fst = wildNames r.pattern ∧
      (noInfix r.pattern = true → ps = (wildNames r.pattern).zip vals) := by
  have hv : ∀ op ∈ [Op.handle m r], op.valid = true := by
    intro op hop; rw [List.mem_singleton.1 hop]; exact ha.validPattern
  have hu : ∀ op ∈ [Op.handle m r], C01.updSplitOk op = true := by
    intro op hop; rw [List.mem_singleton.1 hop]; rfl
  have hl := C01.routing_correct_on_the_sequential_map [Op.handle m r] hv hu m hostPort _ hn
    (noSlash_strip ha hvals hhost hslash)
  rw [runSpec_single] at hl
  obtain ⟨ps, e, h1, h2⟩ := routable_spec ha hvals hostPort hhost
  refine ⟨ps, by rw [hl, e]; rfl, h1, h2, fun hni => ?_⟩
  have := routable_exact ha hvals hni hostPort hhost
  rw [e] at this
  injection this with this
  injection this

/-- **"No registered pattern is dead against its own instances", on the radix tree, in every reachable state.**
    After any history of Handle / Update / Delete / Truncate (hypotheses of `routing_correct_on_the_sequential_map`),
    if the route `r` of an accepted pattern is registered for method `m`, then every well-formed instance of its
    pattern (without empty path segment) is found by `roots.lookup`: the answer is a registered route `r'` with
    parameters `ps'`; it is a direct match (`tsr = false`) whose parameters reproduce the request when substituted
    into `r'`'s pattern - except that for a path-only `r`, when the method also has hostname routes and the Host is
    non-empty, a slash-adjusted match of a hostname route `r'` is preferred (C09 staging). -/
theorem routable_in_any_state (ops : List Op) (hv : ∀ op ∈ ops, op.valid = true)
    (hu : ∀ op ∈ ops, C01.updSplitOk op = true)
    {lim : Limits} {s : Bytes} {r : Route} (ha : Accepted lim s r) (m : Bytes)
    (hreg : r ∈ (runSpec [] ops).1.routesOf m)
    {vals : List Bytes} (hvals : valsOk r.pattern vals = true) (hostPort : Bytes)
    (hhost : r.hostToks ≠ 0 → stripHostPort hostPort = reqHost (instantiate r.pattern vals))
    (hslash : r.hostToks = 0 → SLASH ∉ stripHostPort hostPort)
    (hn : noDbl (reqPath (instantiate r.pattern vals)) = true) :
    ∃ r' ps' tsr,
      lookup (runModel newTree ops).1.roots m hostPort (reqPath (instantiate r.pattern vals)) = .found r' ps' tsr ∧
      r' ∈ (runSpec [] ops).1.routesOf m ∧
      ((tsr = false ∧ subst r'.pattern ps' =
          some (if r'.hostToks = 0 then reqPath (instantiate r.pattern vals)
                else stripHostPort hostPort ++ reqPath (instantiate r.pattern vals))) ∨
       (tsr = true ∧ r.hostToks = 0 ∧ r'.hostToks ≠ 0 ∧
          C01Spec.HostMode ((runSpec [] ops).1.routesOf m) hostPort)) := by
  have hl := C01.routing_correct_on_the_sequential_map ops hv hu m hostPort _ hn
    (noSlash_strip ha hvals hhost hslash)
  obtain ⟨r', ps', tsr, e, hm, hc⟩ := routable_spec_among ha hreg hvals hostPort hhost
  exact ⟨r', ps', tsr, by rw [hl, e]; rfl, hm, hc⟩

/-- in particular a registered hostname pattern - and a registered path-only pattern when the Host is empty or the
    method has no hostname route - is never dead and never reached only through a trailing-slash adjustment -/
theorem routable_in_any_state_direct (ops : List Op) (hv : ∀ op ∈ ops, op.valid = true)
    (hu : ∀ op ∈ ops, C01.updSplitOk op = true)
    {lim : Limits} {s : Bytes} {r : Route} (ha : Accepted lim s r) (m : Bytes)
    (hreg : r ∈ (runSpec [] ops).1.routesOf m)
    {vals : List Bytes} (hvals : valsOk r.pattern vals = true) (hostPort : Bytes)
    (hhost : r.hostToks ≠ 0 → stripHostPort hostPort = reqHost (instantiate r.pattern vals))
    (hslash : r.hostToks = 0 → SLASH ∉ stripHostPort hostPort)
    (hpo : r.hostToks = 0 → ¬ C01Spec.HostMode ((runSpec [] ops).1.routesOf m) hostPort)
    (hn : noDbl (reqPath (instantiate r.pattern vals)) = true) :
    ∃ r' ps',
      lookup (runModel newTree ops).1.roots m hostPort (reqPath (instantiate r.pattern vals)) = .found r' ps' false ∧
      r' ∈ (runSpec [] ops).1.routesOf m ∧
      subst r'.pattern ps' =
          some (if r'.hostToks = 0 then reqPath (instantiate r.pattern vals)
                else stripHostPort hostPort ++ reqPath (instantiate r.pattern vals)) := by
  obtain ⟨r', ps', tsr, e, hm, hc⟩ := routable_in_any_state ops hv hu ha m hreg hvals hostPort hhost hslash hn
  rcases hc with ⟨rfl, hs⟩ | ⟨_, h0, _, hmode⟩
  · exact ⟨r', ps', e, hm, hs⟩
  · exact absurd hmode (hpo h0)

/-! ## the Host header is the instantiated hostname itself -/

/-- The instantiated hostname of an accepted pattern never ends with '.', so - if the substituted hostname values
    contain no ':' - the plain Host header `reqHost …` (no port) is its own stripped form. -/
theorem strip_instantiated_host {lim : Limits} {s : Bytes} {r : Route} (ha : Accepted lim s r)
    {vals : List Bytes} (hvals : valsOk r.pattern vals = true)
    (hc : COLON ∉ reqHost (instantiate r.pattern vals)) :
    stripHostPort (reqHost (instantiate r.pattern vals)) = reqHost (instantiate r.pattern vals) :=
  strip_reqHost ha.validToks hvals hc

/-- **C10, routable, on the radix tree, with the request read off the instantiated pattern**: Host header = the text
    before the first '/', path = the rest. -/
theorem routable_self {lim : Limits} {s : Bytes} {r : Route} (ha : Accepted lim s r)
    {vals : List Bytes} (hvals : valsOk r.pattern vals = true) (m : Bytes)
    (hc : COLON ∉ reqHost (instantiate r.pattern vals))
    (hn : noDbl (reqPath (instantiate r.pattern vals)) = true) :
    ∃ ps, lookup (runModel newTree [Op.handle m r]).1.roots m (reqHost (instantiate r.pattern vals))
          (reqPath (instantiate r.pattern vals)) = .found r ps false ∧
      subst r.pattern ps = some (instantiate r.pattern vals) ∧
      ps.map Prod.fst = wildNames r.pattern ∧
      (noInfix r.pattern = true → ps = (wildNames r.pattern).zip vals) := by
  have hst := strip_instantiated_host ha hvals hc
  refine routable ha hvals m _ (fun _ => hst) (fun _ => ?_) hn
  rw [hst]; exact (instance_matches ha.validToks ha.splitOk hvals).1

/-! ## non-vacuity and illustrations -/
namespace Ex

/-- `{sub}.example.com/a/{id}/f*{mid}/z/*{rest}`: hostname with a parameter, a path parameter, an infix catch-all
    (with a literal prefix in its segment) and a suffix catch-all -/
def toks : List Tok :=
  [.param [115, 117, 98], .lit 46, .lit 101, .lit 120, .lit 97, .lit 109, .lit 112, .lit 108, .lit 101, .lit 46,
   .lit 99, .lit 111, .lit 109, .lit 47, .lit 97, .lit 47, .param [105, 100], .lit 47, .lit 102,
   .catchAll [109, 105, 100], .lit 47, .lit 122, .lit 47, .catchAll [114, 101, 115, 116]]

def r : Route := { hid := 1, pattern := toks, hostToks := 13 }

def lim : Limits := ⟨65535, 65535⟩

theorem toks_tokenize : tokenize (render toks) = some toks := render_tokenize_wf toks (by decide)

/-- the hypotheses on the pattern are satisfiable: `parseRoute` accepts the example -/
theorem accepted : Accepted lim (render toks) r where
  ok := by
    obtain ⟨e, he⟩ := parse_ok_count lim (render toks) toks toks_tokenize (by decide)
    exact ⟨_, e, he⟩
  toks := toks_tokenize
  split := by decide

/-- sub = "api", id = "42", mid = "x/y/z/q", rest = "r/s" -/
def vals : List Bytes := [[97, 112, 105], [52, 50], [120, 47, 121, 47, 122, 47, 113], [114, 47, 115]]

/-- the hypothesis on the values is satisfiable -/
theorem vals_ok : valsOk r.pattern vals = true := by decide

/-- "api.example.com" -/
def host : Bytes := [97, 112, 105, 46, 101, 120, 97, 109, 112, 108, 101, 46, 99, 111, 109]
/-- "/a/42/fx/y/z/q/z/r/s" -/
def path : Bytes := [47, 97, 47, 52, 50, 47, 102, 120, 47, 121, 47, 122, 47, 113, 47, 122, 47, 114, 47, 115]

theorem req_host : reqHost (instantiate r.pattern vals) = host := by decide
theorem req_path : reqPath (instantiate r.pattern vals) = path := by decide

/-- all hypotheses of `routable_self` hold for the example, hence its conclusion -/
example : ∃ ps, lookup (runModel newTree [Op.handle [71, 69, 84] r]).1.roots [71, 69, 84] host path = .found r ps false ∧
    subst r.pattern ps = some (host ++ path) := by
  obtain ⟨ps, h1, h2, _⟩ := routable_self accepted vals_ok [71, 69, 84] (by decide) (by decide)
  rw [req_host, req_path] at h1
  exact ⟨ps, h1, by rw [h2]; decide⟩

/-- **why exactness is restricted to patterns without infix catch-all**: the example has one (`f*{mid}/z/…`), and
    the substituted split mid = "x/y/z/q", rest = "r/s" is not the one the router reports: the shorter capture
    mid = "x/y" (then rest = "q/z/r/s") has priority. Both reproduce the same request. -/
example : noInfix r.pattern = false := by decide

#guard Spec.route [r] host path ==
  some ⟨r, [([115, 117, 98], [97, 112, 105]), ([105, 100], [52, 50]), ([109, 105, 100], [120, 47, 121]),
            ([114, 101, 115, 116], [113, 47, 122, 47, 114, 47, 115])], false⟩

#guard Spec.route [r] host path != some ⟨r, (wildNames r.pattern).zip vals, false⟩

#guard subst r.pattern ((wildNames r.pattern).zip vals) == some (host ++ path)
#guard subst r.pattern [([115, 117, 98], [97, 112, 105]), ([105, 100], [52, 50]), ([109, 105, 100], [120, 47, 121]),
    ([114, 101, 115, 116], [113, 47, 122, 47, 114, 47, 115])] == some (host ++ path)

/-- `{sub}.example.com/a/{id}/*{rest}`: no infix catch-all, `routable_exact` applies -/
def toks2 : List Tok :=
  [.param [115, 117, 98], .lit 46, .lit 101, .lit 120, .lit 97, .lit 109, .lit 112, .lit 108, .lit 101, .lit 46,
   .lit 99, .lit 111, .lit 109, .lit 47, .lit 97, .lit 47, .param [105, 100], .lit 47, .catchAll [114, 101, 115, 116]]
def r2 : Route := { hid := 2, pattern := toks2, hostToks := 13 }
theorem toks2_tokenize : tokenize (render toks2) = some toks2 := render_tokenize_wf toks2 (by decide)
theorem accepted2 : Accepted lim (render toks2) r2 where
  ok := by
    obtain ⟨e, he⟩ := parse_ok_count lim (render toks2) toks2 toks2_tokenize (by decide)
    exact ⟨_, e, he⟩
  toks := toks2_tokenize
  split := by decide
/-- sub = "api", id = "42", rest = "x//y/" (a final catch-all value may contain anything) -/
def vals2 : List Bytes := [[97, 112, 105], [52, 50], [120, 47, 47, 121, 47]]
example : valsOk r2.pattern vals2 = true ∧ noInfix r2.pattern = true := by decide
#guard Spec.route [r2] host (reqPath (instantiate r2.pattern vals2)) == some ⟨r2, (wildNames r2.pattern).zip vals2, false⟩

/-- `/*{c}/x`: the restrictions on the value of an infix catch-all are necessary (each violation puts an empty
    segment into the request path, across which the router does not capture) -/
def rInf : Route := { hid := 3, pattern := [.lit 47, .catchAll [99], .lit 47, .lit 120] }
example : validToks lim rInf.pattern = true := by decide
-- c = "a/b" is fine
#guard valsOk rInf.pattern [[97, 47, 98]]
#guard (Spec.route [rInf] [] (instantiate rInf.pattern [[97, 47, 98]])).isSome
-- c = "a//b" (contains "//"), c = "/a" (leading '/'), c = "a/" (trailing '/'): not well-formed, and indeed not routed
#guard !valsOk rInf.pattern [[97, 47, 47, 98]] && (Spec.route [rInf] [] (instantiate rInf.pattern [[97, 47, 47, 98]])).isNone
#guard !valsOk rInf.pattern [[47, 97]] && (Spec.route [rInf] [] (instantiate rInf.pattern [[47, 97]])).isNone
#guard !valsOk rInf.pattern [[97, 47]] && (Spec.route [rInf] [] (instantiate rInf.pattern [[97, 47]])).isNone

/-- the exception in `routable_in_any_state`: the path-only pattern `/p` matches the request "/p" directly, but with
    the hostname pattern `h.io/p/` registered for the same method and the Host "h.io" the slash-adjusted hostname
    match is preferred (hostname routes are staged first) -/
def rP : Route := { hid := 4, pattern := [.lit 47, .lit 112] }
def rHP : Route := { hid := 5, pattern := [.lit 104, .lit 46, .lit 105, .lit 111, .lit 47, .lit 112, .lit 47], hostToks := 4 }
#guard Spec.route [rP, rHP] [104, 46, 105, 111] [47, 112] == some ⟨rHP, [], true⟩
#guard Spec.route [rP, rHP] [] [47, 112] == some ⟨rP, [], false⟩

end Ex

end Fox.C10
