import FoxModel.Model.Serve
/-
  Property C11 — unserved requests get the right 404 / 405 / OPTIONS answer and Allow header.
  Theorems over `Fox.Model.special` (the part of ServeHTTP after the route dispatch, fox.go) — the model is tied to the Go
  code by the `serve` stream, which also checks (model-free) that the context is scrubbed in every special handler.
-/
namespace Fox.C11
open Fox Fox.Model

/-- what the Allow loops of ServeHTTP accept for a method: a direct match, or a trailing-slash match on a route that
    ignores trailing slashes -/
def looseServes : Result → Bool
  | .found r _ tsr => !tsr || r.ignoreTS
  | _ => false

/-- what dispatch really serves for method `x` (property C08): additionally never a trailing-slash match for CONNECT
    or for the root path -/
def strictServes (res : Result) (x urlPath : Bytes) : Bool :=
  match res with
  | .found r _ tsr => !tsr || (r.ignoreTS && x != CONNECT && urlPath != [SLASH])
  | _ => false

theorem allows_fst (rs : Roots) (x host path : Bytes) : (allows rs x host path).1 = looseServes (lookup rs x host path) := by
  unfold allows looseServes
  cases lookup rs x host path <;> rfl

theorem filterMap_fst {α β} (l : List α) (p : α → Bool) (f : α → β) (g : α → Bool) :
    (l.filterMap fun x => if p x then some (f x, g x) else none).map (·.1) = (l.filter p).map f := by
  induction l with
  | nil => rfl
  | cons a l ih =>
    simp only [List.filterMap_cons, List.filter_cons]
    by_cases h : p a = true
    · simp [h, ih]
    · simp [h, ih]

/-- the methods listed by the OPTIONS branch for an ordinary target: exactly the methods (in root order) for which the
    matcher finds a route that serves the host and path loosely -/
theorem optionsHits_methods (rs : Roots) (host path : Bytes) (hp : path ≠ [STAR]) :
    (optionsHits rs host path).map (·.1) =
      ((rs.filter fun x => looseServes (lookup rs x.1 host path)).map (·.1)) := by
  unfold optionsHits
  have : (path == [STAR]) = false := by simpa using hp
  simp only [this, Bool.false_eq_true, if_false]
  have := filterMap_fst rs (fun x => (allows rs x.1 host path).1) (·.1) (fun x => (allows rs x.1 host path).2)
  simp only [allows_fst] at this ⊢
  exact this

/-- for the target "*": every method other than OPTIONS that has routes -/
theorem optionsHits_star (rs : Roots) (host : Bytes) :
    (optionsHits rs host [STAR]).map (·.1) =
      ((rs.filter fun x => x.1 != OPTIONS && !x.2.children.isEmpty).map (·.1)) := by
  unfold optionsHits
  simp [Function.comp_def]

/-- the methods listed by the 405 branch: the *other* methods that serve loosely -/
theorem noMethodHits_methods (rs : Roots) (m host path : Bytes) :
    (noMethodHits rs m host path).map (·.1) =
      ((rs.filter fun x => !(x.1 == m) && looseServes (lookup rs x.1 host path)).map (·.1)) := by
  unfold noMethodHits
  have h1 : ∀ x : Bytes × Node,
      (if (x.1 == m) = true then none
       else (let a := allows rs x.1 host path; if a.1 = true then some (x.1, a.2) else none)) =
      (if (!(x.1 == m) && looseServes (lookup rs x.1 host path)) = true then some (x.1, (allows rs x.1 host path).2) else none) := by
    intro x
    rw [← allows_fst]
    by_cases hx : (x.1 == m) = true
    · simp [hx]
    · simp [hx]
  simp only [h1]
  exact filterMap_fst rs _ (·.1) (fun x => (allows rs x.1 host path).2)

/-- **the answer depends only on the router options** (and on which methods serve): OPTIONS with automatic replies ⇒
    options handler with Allow = listed methods + OPTIONS, or no-route if none; otherwise with method-not-allowed ⇒
    no-method handler with Allow = the other listed methods (+ OPTIONS when automatic replies are on and it is not
    listed), or no-route if none; otherwise no-route -/
theorem special_decision (cfg : Cfg) (rs : Roots) (m host path : Bytes) :
    special cfg rs m host path =
      if m == OPTIONS && cfg.autoOptions then
        (if (optionsHits rs host path).isEmpty then { kind := .noRoute }
         else { kind := .options, allow := (optionsHits rs host path).map (·.1) ++ [OPTIONS],
                tags := if (optionsHits rs host path).any (·.2) then ["allow-connect-tsr"] else [] })
      else if cfg.noMethod then
        (if (noMethodHits rs m host path).isEmpty then { kind := .noRoute }
         else { kind := .noMethod,
                allow := (noMethodHits rs m host path).map (·.1) ++
                  (if cfg.autoOptions && !((noMethodHits rs m host path).any (·.1 == OPTIONS)) then [OPTIONS] else []),
                tags := if (noMethodHits rs m host path).any (·.2) then ["allow-connect-tsr"] else [] })
      else { kind := .noRoute } := by
  unfold special optionsOutcome noMethodOutcome
  rfl

/-- with both options off every unserved request goes to the no-route handler -/
theorem special_plain (cfg : Cfg) (rs : Roots) (m host path : Bytes) (h1 : cfg.autoOptions = false) (h2 : cfg.noMethod = false) :
    (special cfg rs m host path).kind = .noRoute ∧ (special cfg rs m host path).allow = [] := by
  unfold special
  simp [h1, h2]

/-- Allow never lists the request's own method in a 405 answer -/
theorem noMethod_excludes_own (rs : Roots) (m host path : Bytes) : m ∉ (noMethodHits rs m host path).map (·.1) := by
  rw [noMethodHits_methods]
  intro h
  simp only [List.mem_map, List.mem_filter, Bool.and_eq_true, Bool.not_eq_true'] at h
  obtain ⟨x, ⟨_, hx, _⟩, rfl⟩ := h
  simp at hx

/-- **the only way Allow can list a method that does not serve the request** (recorded finding F17): the loose test of
    the Allow loops differs from what dispatch serves exactly for a trailing-slash match on an ignore-trailing-slash
    route when the method is CONNECT or the path is "/" -/
theorem loose_vs_strict (res : Result) (x urlPath : Bytes) :
    looseServes res ≠ strictServes res x urlPath ↔
      ∃ r ps, res = .found r ps true ∧ r.ignoreTS = true ∧ (x = CONNECT ∨ urlPath = [SLASH]) := by
  cases res with
  | none => simp [looseServes, strictServes]
  | bad => simp [looseServes, strictServes]
  | found r ps tsr =>
    cases tsr with
    | false => simp [looseServes, strictServes]
    | true =>
      have hx : (x != CONNECT) = !(x == CONNECT) := rfl
      have hu' : (urlPath != [SLASH]) = !(urlPath == [SLASH]) := rfl
      simp only [looseServes, strictServes, Bool.not_true, Bool.false_or, ne_eq, hx, hu']
      constructor
      · intro h
        refine ⟨r, ps, rfl, ?_, ?_⟩
        · cases hi : r.ignoreTS with
          | true => rfl
          | false => exfalso; apply h; rw [hi]; rfl
        · by_cases hc : x = CONNECT
          · exact Or.inl hc
          · by_cases hu : urlPath = [SLASH]
            · exact Or.inr hu
            · exfalso; apply h
              have e1 : (x == CONNECT) = false := by simpa using hc
              have e2 : (urlPath == [SLASH]) = false := by simpa using hu
              rw [e1, e2]; simp
      · rintro ⟨r', ps', heq, hi, hg⟩
        injection heq with h1 h2 _
        subst h1
        rw [hi]
        rcases hg with hg | hg
        · subst hg; simp
        · subst hg; simp

end Fox.C11
