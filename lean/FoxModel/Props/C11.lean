import FoxModel.Model.Serve
namespace Fox.C11
end Fox.C11
