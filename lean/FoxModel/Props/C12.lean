import FoxModel.Generated.CtxFields
import FoxModel.Generated.Consts
import FoxModel.Spec.Context
/-
  Property C12 — a Context only ever shows the current request.
  Non-interference: whatever the recycled context and its buffers held, the handler sees the same thing.
-/
namespace Fox.C12
open Fox Fox.Model.Ctx Fox.Spec.Ctx

/-- the two buffers of a pooled context are distinct allocations (tree.go allocateContext) -/
def WF (c : Ctx) : Prop := c.params ≠ c.tsrParams

theorem allocate_wf (p t : BufId) (h : p ≠ t) : WF (allocate p t) := h

/-- the branch taken by ServeHTTP agrees with what the lookup returned: the ignored-trailing-slash branch is only taken
    with `tsr = true` (fox.go: `if … && tsr { if n.route.ignoreTrailingSlash {` ) -/
def Consistent (b : Branch) (o : LookupOut) : Prop := b = .ignoredSlash → o.tsr = true

@[simp] theorem get_set_self (H : Heap) (i : BufId) (v : Binds) : (H.set i v).get i = v := by simp [Heap.set]
theorem get_set_ne (H : Heap) (i j : BufId) (v : Binds) (h : j ≠ i) : (H.set i v).get j = H.get j := by simp [Heap.set, h]

/-- lazy lookups on a context whose params buffer is empty and whose tsr flag is false leave both as they are, and touch
    nothing else a getter reads -/
theorem lookupLazies_inv (lz : List LookupOut) (H : Heap) (c : Ctx) (hp : H.get c.params = []) (ht : c.tsr = false) :
    let r := lookupLazies lz H c
    r.1.get r.2.params = [] ∧ r.2.tsr = false ∧ r.2.params = c.params ∧ r.2.tsrParams = c.tsrParams ∧ r.2.w = c.w ∧ r.2.req = c.req ∧
    r.2.route = c.route ∧ r.2.cachedQuery = c.cachedQuery ∧ r.2.rcd = c.rcd ∧ r.2.scope = c.scope := by
  induction lz generalizing H c with
  | nil => simp [lookupLazies, hp, ht]
  | cons o os ih =>
    simp only [lookupLazies, lookupLazy]
    have := ih (if o.viaHost then H else H.set c.params []) { c with skipNds := o.skip, tsr := if o.viaHost then c.tsr else false }
      (by cases o.viaHost <;> simp [hp]) (by cases o.viaHost <;> simp [ht])
    simpa using this

theorem recView_fresh (w : Nat) :
    recView { under := .http w, status := 200, size := notWritten, hijacked := false } false = freshWriter w := by
  simp [recView, freshWriter, notWritten]

/-- the three branches that run the Allow loops: params empty, no route, own scope; everything else as it was -/
theorem view_branch_special (env : Env) (b : Branch) (hb : b = .options ∨ b = .noMethod ∨ b = .noRoute)
    (o : LookupOut) (lz : List LookupOut) (H : Heap) (c : Ctx) :
    view env (branchAssign b o lz H c).1 (branchAssign b o lz H c).2 =
      { req := c.req, w := wview env c, params := [], route := none,
        query := (match c.cachedQuery with | some q => some q | none => c.req), scope := scopeFor b } := by
  obtain ⟨a1, a2, a3, a4, a5, a6, a7, a8, a9, a10⟩ :=
    lookupLazies_inv lz (H.set c.params []) { c with route := none, tsr := false } (by simp) rfl
  dsimp only at a1 a3 a4 a5 a6 a7 a8 a9 a10
  rw [a3] at a1
  rcases hb with rfl | rfl | rfl <;>
  · simp only [branchAssign, view, wview, scopeFor]
    simp only [a1, a2, a3, a5, a6, a7, a8, a9, Bool.false_eq_true, if_false]
    rfl

/-- after `reset` and the lookup: request, writer, recorder, query cache and scope are the fresh ones; the params buffer
    holds what the lookup recorded, and the tsr buffer too when a recommendation was made -/
theorem reset_lookup (w r : Nat) (o : LookupOut) (H : Heap) (c : Ctx) (hw : WF c) :
    let p := lookup o (reset w r H c).1 (reset w r H c).2
    p.2.req = some r ∧ p.2.w = .own ∧ p.2.rcd = { under := .http w, status := 200, size := notWritten, hijacked := false } ∧
    p.2.cachedQuery = none ∧ p.2.scope = RouteHandler ∧ p.2.params = c.params ∧ p.2.tsrParams = c.tsrParams ∧
    p.1.get c.params = o.params ∧ (o.tsr = true → p.1.get c.tsrParams = o.params ++ o.tsrParams) := by
  have hne : c.tsrParams ≠ c.params := fun e => hw e.symm
  refine ⟨rfl, rfl, rfl, rfl, rfl, rfl, rfl, ?_, ?_⟩
  · simp only [reset, lookup, get_set_self, List.nil_append, ite_self]
    cases o.tsr <;> simp [get_set_ne _ _ _ _ hw]
  · intro ht
    simp only [reset, lookup, get_set_self, List.nil_append, ite_self, ht, if_true]

/-- the handler of branch `b` sees exactly the fresh view of the current request -/
theorem serve_view (env : Env) (b : Branch) (w r : Nat) (o : LookupOut) (lz : List LookupOut) (H : Heap) (c : Ctx)
    (hw : WF c) (hb : Consistent b o) :
    view env (serve b w r o lz H c).1 (serve b w r o lz H c).2 = serveView b w r o := by
  obtain ⟨r1, r2, r3, r4, r5, r6, r7, r8, r9⟩ := reset_lookup w r o H c hw
  simp only [serve]
  cases b with
  | direct => simp [branchAssign, view, wview, serveView, paramsFor, routeFor, scopeFor, r1, r2, r3, r4, r5, r6, r8, recView_fresh]
  | ignoredSlash =>
    have ht : o.tsr = true := hb rfl
    simp [branchAssign, view, wview, serveView, paramsFor, routeFor, scopeFor, r1, r2, r3, r4, r5, r7, r9 ht, recView_fresh]
  | redirect => simp [branchAssign, view, wview, serveView, paramsFor, routeFor, scopeFor, r1, r2, r3, r4, r6, recView_fresh]
  | options =>
    rw [view_branch_special env _ (Or.inl rfl)]
    simp [wview, serveView, paramsFor, routeFor, r1, r2, r3, r4, recView_fresh]
  | noMethod =>
    rw [view_branch_special env _ (Or.inr (Or.inl rfl))]
    simp [wview, serveView, paramsFor, routeFor, r1, r2, r3, r4, recView_fresh]
  | noRoute =>
    rw [view_branch_special env _ (Or.inr (Or.inr rfl))]
    simp [wview, serveView, paramsFor, routeFor, r1, r2, r3, r4, recView_fresh]

/-- **Non-interference, ServeHTTP.** For every branch (direct, ignored trailing slash, redirect, OPTIONS, 405, 404), any
    writer, request, lookup result and Allow-loop lookups: whatever two recycled contexts (and buffer heaps) held, the
    handler of the branch is called with contexts whose getters return the same values. -/
theorem noninterference_serve (env : Env) (b : Branch) (w r : Nat) (o : LookupOut) (lz : List LookupOut)
    (H₁ H₂ : Heap) (c₁ c₂ : Ctx) (h₁ : WF c₁) (h₂ : WF c₂) (hb : Consistent b o) :
    view env (serve b w r o lz H₁ c₁).1 (serve b w r o lz H₁ c₁).2 =
    view env (serve b w r o lz H₂ c₂).1 (serve b w r o lz H₂ c₂).2 := by
  rw [serve_view env b w r o lz H₁ c₁ h₁ hb, serve_view env b w r o lz H₂ c₂ h₂ hb]

/-- the context returned by `Lookup` shows exactly the lookup of the current request -/
theorem lookupEntry_view (env : Env) (w r : Nat) (o : LookupOut) (H : Heap) (c : Ctx) (hw : WF c) :
    view env (lookupEntry w r o H c).1 (lookupEntry w r o H c).2 = lookupView env w r o := by
  have hne : c.tsrParams ≠ c.params := fun e => hw e.symm
  simp only [lookupEntry, resetWithWriter, lookup, view, wview, lookupView, extWriter, get_set_self, List.nil_append, ite_self]
  cases ht : o.tsr <;> simp [get_set_ne _ _ _ _ hw]

/-- **Non-interference, Lookup** (Router.Lookup and Txn.Lookup run the same statements): whatever the recycled context
    held, the returned ContextCloser shows the given writer, the given request and the parameters of this lookup. -/
theorem noninterference_lookup (env : Env) (w r : Nat) (o : LookupOut) (H₁ H₂ : Heap) (c₁ c₂ : Ctx) (h₁ : WF c₁) (h₂ : WF c₂) :
    view env (lookupEntry w r o H₁ c₁).1 (lookupEntry w r o H₁ c₁).2 =
    view env (lookupEntry w r o H₂ c₂).1 (lookupEntry w r o H₂ c₂).2 := by
  rw [lookupEntry_view env w r o H₁ c₁ h₁, lookupEntry_view env w r o H₂ c₂ h₂]

theorem cloneWith_view (env : Env) (w r : Nat) (c : Ctx) (H : Heap) (cp : Ctx) :
    view env (cloneWith w r c H cp).1 (cloneWith w r c H cp).2 = cloneWithView env w r (view env H c) := by
  unfold cloneWith
  cases ht : c.tsr <;> simp [view, wview, cloneWithView, extWriter, ht]

/-- **Non-interference, CloneWith.** The copy shows the given writer and request and the route, scope and parameters
    of the source, whatever the pooled context used for the copy held; nothing of the source's query cache survives. -/
theorem noninterference_clonewith (env : Env) (w r : Nat) (c : Ctx) (H₁ H₂ : Heap) (cp₁ cp₂ : Ctx)
    (hH : view env H₁ c = view env H₂ c) :
    view env (cloneWith w r c H₁ cp₁).1 (cloneWith w r c H₁ cp₁).2 =
    view env (cloneWith w r c H₂ cp₂).1 (cloneWith w r c H₂ cp₂).2 := by
  rw [cloneWith_view, cloneWith_view, hH]

/-- **Clone copies.** The clone shows the request, route, scope and parameters of the source, no query cache, and a
    discarding writer holding a copy of the current writer's headers and its status / size / written state — the state of
    `c.w`, which for contexts from Lookup or CloneWith is not the embedded recorder; the recycled recorder contributes
    nothing (in particular not its hijacked flag). -/
theorem clone_copies (env : Env) (fresh nilBuf : BufId) (c : Ctx) (H : Heap) :
    view env (clone env fresh nilBuf c H).1 (clone env fresh nilBuf c H).2 = cloneView (view env H c) := by
  have hh : hdrOf c = (wview env c).hdr := by
    unfold hdrOf wview; cases c.w <;> simp [recView]
  unfold clone
  cases ht : c.tsr <;>
  · simp only [hh, view, cloneView, ht, Bool.not_false, Bool.not_true, if_true, Bool.false_eq_true, if_false, get_set_self]
    generalize wview env c = wv
    obtain ⟨p, d, hd, st, sz, wr, hj⟩ := wv
    cases wr <;> simp [wview, recView, notWritten] <;> omega

/-- the buffers a step on a context can write are the context's own two -/
theorem serve_frame (b : Branch) (w r : Nat) (o : LookupOut) (lz : List LookupOut) (H : Heap) (c : Ctx) (j : BufId)
    (hp : j ≠ c.params) (ht : j ≠ c.tsrParams) : (serve b w r o lz H c).1.get j = H.get j := by
  have lazies : ∀ (lz : List LookupOut) (H : Heap) (c' : Ctx), c'.params = c.params →
      (lookupLazies lz H c').1.get j = H.get j := by
    intro lz
    induction lz with
    | nil => intro H c' _; rfl
    | cons o' os ih =>
      intro H c' hc'
      simp only [lookupLazies, lookupLazy]
      rw [ih _ _ (by simpa using hc')]
      cases o'.viaHost <;> simp [get_set_ne, hc', hp]
  simp only [serve, reset, lookup]
  cases b <;> cases o.tsr <;> simp [branchAssign, get_set_ne, hp, ht, lazies]

theorem lookupEntry_frame (w r : Nat) (o : LookupOut) (H : Heap) (c : Ctx) (j : BufId)
    (hp : j ≠ c.params) (ht : j ≠ c.tsrParams) : (lookupEntry w r o H c).1.get j = H.get j := by
  simp only [lookupEntry, resetWithWriter, lookup]
  cases o.tsr <;> simp [get_set_ne, hp, ht]

/-- **Clone buffers are fresh.** The clone reads its parameters from the newly allocated buffer only; hence when the
    original goes back to the pool and serves any later request (any branch) or Lookup, the clone's view is unchanged. -/
theorem clone_stable (env : Env) (fresh nilBuf : BufId) (c : Ctx) (H : Heap)
    (hp : fresh ≠ c.params) (ht : fresh ≠ c.tsrParams) :
    let cl := clone env fresh nilBuf c H
    (if c.tsr then cl.2.tsrParams else cl.2.params) = fresh ∧
    (∀ H' : Heap, H'.get fresh = cl.1.get fresh → view env H' cl.2 = view env cl.1 cl.2) ∧
    (∀ b w r o lz, view env (serve b w r o lz cl.1 c).1 cl.2 = view env cl.1 cl.2) ∧
    (∀ w r o, view env (lookupEntry w r o cl.1 c).1 cl.2 = view env cl.1 cl.2) := by
  have hsel : (if c.tsr then (clone env fresh nilBuf c H).2.tsrParams else (clone env fresh nilBuf c H).2.params) = fresh := by
    unfold clone; cases c.tsr <;> simp
  have htsr : (clone env fresh nilBuf c H).2.tsr = c.tsr := by
    unfold clone; cases c.tsr <;> simp
  have key : ∀ H' : Heap, H'.get fresh = (clone env fresh nilBuf c H).1.get fresh →
      view env H' (clone env fresh nilBuf c H).2 = view env (clone env fresh nilBuf c H).1 (clone env fresh nilBuf c H).2 := by
    intro H' h
    simp only [view, htsr, hsel, h]
  refine ⟨hsel, key, ?_, ?_⟩
  · intro b w r o lz; exact key _ (serve_frame b w r o lz _ c fresh hp ht)
  · intro w r o; exact key _ (lookupEntry_frame w r o _ c fresh hp ht)

/-- Clone of a context obtained from Lookup: nothing of the recycled context shows -/
theorem noninterference_clone_of_lookup (env : Env) (fresh nilBuf w r : Nat) (o : LookupOut) (H₁ H₂ : Heap) (c₁ c₂ : Ctx)
    (h₁ : WF c₁) (h₂ : WF c₂) :
    let a := lookupEntry w r o H₁ c₁
    let b := lookupEntry w r o H₂ c₂
    view env (clone env fresh nilBuf a.2 a.1).1 (clone env fresh nilBuf a.2 a.1).2 =
    view env (clone env fresh nilBuf b.2 b.1).1 (clone env fresh nilBuf b.2 b.1).2 := by
  simp only [clone_copies, lookupEntry_view env w r o H₁ c₁ h₁, lookupEntry_view env w r o H₂ c₂ h₂]

/-! ### the field table (regenerated from context.go / fox.go / txn.go on every run) -/

def subset (a b : List String) : Bool := a.all b.contains

/-- fields that are never reassigned after allocation, and the two parameter buffers, whose contents are covered by the
    non-interference theorems above (a getter reads `tsrParams` only when `tsr` is set, and then the lookup wrote it) -/
def exempt : List String := ["tree", "fox", "params", "tsrParams"]

def covered (assigned : List String) : Bool :=
  Generated.getterReads.all fun g => g.2.all fun f => assigned.contains f || exempt.contains f

/-- **Every field a getter reads is assigned on every acquisition path before a handler can call the getter**: on each
    of the six ServeHTTP branches, in Router.Lookup and Txn.Lookup, in CloneWith and in Clone (`rec` only matters where
    the writer is the embedded recorder, i.e. on the ServeHTTP paths and in Clone, and is assigned there). -/
theorem fields_reset :
    Generated.serveBranches.map (·.1) = ["direct", "ignoredSlash", "redirect", "options", "noMethod", "noRoute"] ∧
    (Generated.serveBranches.all fun b => covered b.2 && b.2.contains "rec") = true ∧
    covered Generated.assigned_lookupRouter = true ∧ covered Generated.assigned_lookupTxn = true ∧
    covered Generated.assigned_CloneWith = true ∧ covered Generated.assigned_Clone = true ∧
    Generated.assigned_Clone.contains "rec" = true := by
  decide

/-- the source shapes the model was written against: what each reset variant assigns, what each branch of ServeHTTP has
    assigned when it calls its handler, Lookup, CloneWith (including which buffer it copies under which condition), and
    Clone: nothing taken from the recycled recorder, response state read through the current writer `c.w`, buffers
    filled by make + copy -/
theorem ctx_tie :
    Generated.ctxFields = ["cachedQuery", "fox", "params", "rec", "req", "route", "scope", "skipNds", "tree", "tsr", "tsrParams", "w"] ∧
    Generated.assigned_reset = ["cachedQuery", "params", "rec", "req", "scope", "w"] ∧
    Generated.assigned_resetNil = ["cachedQuery", "params", "req", "route", "w"] ∧
    Generated.assigned_resetWithWriter = ["cachedQuery", "params", "req", "route", "scope", "tsr", "w"] ∧
    (Generated.serveBranches.all fun b => b.2 == ["cachedQuery", "params", "rec", "req", "route", "scope", "skipNds", "tsr", "w"]) = true ∧
    Generated.assigned_lookupRouter = ["cachedQuery", "params", "req", "route", "scope", "skipNds", "tsr", "w"] ∧
    Generated.assigned_lookupTxn = Generated.assigned_lookupRouter ∧
    Generated.assigned_CloneWith = ["cachedQuery", "req", "route", "scope", "tsr", "w"] ∧
    Generated.cond_CloneWith = ["tsr=false: copyWithResize(cp.params, c.params)", "tsr=true: copyWithResize(cp.tsrParams, c.tsrParams)"] ∧
    Generated.cloneLiteral = [("fox", "c.fox"), ("req", "c.req.Clone(c.req.Context())"), ("route", "c.route"), ("scope", "c.scope"),
      ("tree", "c.tree"), ("tsr", "c.tsr")] ∧
    Generated.cloneWriterReads = ["c.w.Header", "c.w.Size", "c.w.Status", "c.w.Written"] ∧
    Generated.cloneBufferForms = ["params <- make+copy of c.params", "tsrParams <- make+copy of c.tsrParams"] ∧
    Generated.cloneCond = ["tsr=false: params", "tsr=true: tsrParams"] ∧
    Generated.c_notWritten = notWritten ∧
    Generated.c_RouteHandler = RouteHandler ∧ Generated.c_NoRouteHandler = NoRouteHandler ∧ Generated.c_NoMethodHandler = NoMethodHandler ∧
    Generated.c_RedirectHandler = RedirectHandler ∧ Generated.c_OptionsHandler = OptionsHandler := by
  decide

/-- **The recorder handed to the next request keeps nothing of the previous one**: the reset method of the recorder embedded
    in the pooled context (the one `cTx.reset` calls) assigns every field the recorder has - the underlying writer, the
    status, the size and the hijacked flag today; a field added later and forgotten in reset breaks this. That the values
    assigned are those of a fresh writer is `recView_fresh` above together with the `ctx` / `rw` streams (second user of a
    pooled context). Regenerated fact (extract/facts_ctx.go `ctxRecorderReset`). -/
theorem recorder_reset_total :
    Generated.recorderFields.length ≥ 4 ∧ Generated.recorderResetAssigned = Generated.recorderFields := by
  decide

/-- non-vacuity / sensitivity: without the `cachedQuery = nil` of reset a stale query cache would show -/
example :
    let H : Heap := ⟨fun _ => []⟩
    let stale : Ctx := { (allocate 1 2) with cachedQuery := some 41 }
    let broken (c : Ctx) : Ctx := { c with rcd := c.rcd.reset 7, req := some 42, w := .own, scope := RouteHandler }
    (view ⟨fun _ => 0, fun _ => 0, fun _ => false⟩ H (broken stale)).query = some 41 ∧
    (view ⟨fun _ => 0, fun _ => 0, fun _ => false⟩ (reset 7 42 H stale).1 (reset 7 42 H stale).2).query = some 42 := by
  decide

end Fox.C12
