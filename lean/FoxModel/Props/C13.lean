import FoxModel.Generated.Consts
import FoxModel.Generated.Options
import FoxModel.Lemmas.Middleware
/-
  Property C13 — middleware is applied exactly per scope and in registration order.
  Middleware `i` is the wrapper `wrap` (log `enter i`, call next, log `exit i`); handlers are the traces they log.
-/
namespace Fox.C13
open Fox.Model.MW Fox.Spec.MW Fox.Lemmas.MW

/-- the scope constants of fox.go and the source shapes the model was written against (regenerated on every run):
    bit values, `AllHandlers`, `mws: slices.Clone(fox.mws)` in NewRoute, DefaultOptions prepending Recovery(RouteHandler)
    then Logger(AllHandlers), and both chain builders walking the list from the last entry to the first -/
theorem consts_tie :
    Generated.c_RouteHandler = cRouteHandler ∧ Generated.c_NoRouteHandler = cNoRouteHandler ∧
    Generated.c_NoMethodHandler = cNoMethodHandler ∧ Generated.c_RedirectHandler = cRedirectHandler ∧
    Generated.c_OptionsHandler = cOptionsHandler ∧ Generated.c_AllHandlers = cAllHandlers ∧
    Generated.newRouteMwsCopied = true ∧
    Generated.defaultOptionsForm = "prepend" ∧
    Generated.defaultOptionsEntries = [("Recovery", "RouteHandler", "true"), ("Logger", "AllHandlers", "true")] ∧
    Generated.loop_applyMiddleware = "backward over mws" ∧
    Generated.conds_applyMiddleware = ["$.scope&scope != 0"] ∧
    Generated.loop_applyRouteMiddleware = "backward over mws" ∧
    Generated.conds_applyRouteMiddleware = ["$.scope&RouteHandler != 0", "!$.g"] := by
  decide

/-- every kind's constant is a single bit and `AllHandlers` is their union -/
theorem scope_bits : (∀ k : Kind, k.bit = 2 ^ k.idx) ∧
    cAllHandlers = Kind.route.bit ||| Kind.noRoute.bit ||| Kind.noMethod.bit ||| Kind.redirect.bit ||| Kind.options.bit := by
  constructor
  · intro k; cases k <;> rfl
  · decide

/-- **Special handlers.** The chain `New` composes for the no-route / no-method / redirect / OPTIONS handler (and, the
    statement being uniform in `k`, also the full route chain) logs: `enter` of exactly the middleware whose scope mask
    has the bit of that kind, in registration order, then the handler, then their `exit`s in reverse order. -/
theorem special_chain (k : Kind) (mws : List Mw) (h : Trace) :
    applyMiddleware wrap k.bit mws h = Spec.MW.trace k mws h := by
  rw [applyMiddleware_eq_foldr]
  simp only [hits_eq]
  induction mws with
  | nil => simp [Spec.MW.trace, selected, chain_nil]
  | cons m ms ih =>
    simp only [List.foldr_cons, ih]
    unfold Spec.MW.trace selected
    cases hm : inScope k m
    · simp [List.filter_cons, hm]
    · simp [List.filter_cons, hm, chain_cons, wrap]

/-- ids of the route-specific entries (`g = false`) that apply to route handlers -/
def selfSelected (mws : List Mw) : List Nat := (mws.filter fun m => inScope .route m && !m.g).map (·.id)

/-- `applyRouteMiddleware` on any list: `all` wraps the handler with every entry having the RouteHandler bit, `rte` with
    those of them that are route-specific, both in registration order -/
theorem route_chain_raw (mws : List Mw) (h : Trace) :
    applyRouteMiddleware wrap mws h = (chain (selfSelected mws) h, chain (selected .route mws) h) := by
  rw [applyRouteMiddleware_eq_foldr]
  induction mws with
  | nil => simp [selfSelected, selected, chain_nil]
  | cons m ms ih =>
    simp only [List.foldr_cons, ih]
    have hb : m.hits cRouteHandler = inScope .route m := hits_eq .route m
    rw [hb]
    unfold selfSelected selected
    cases hm : inScope .route m <;> cases hg : m.g <;> simp [List.filter_cons, hm, hg, chain_cons, wrap]

theorem selected_append (k : Kind) (a b : List Mw) : selected k (a ++ b) = selected k a ++ selected k b := by
  simp [selected]

theorem selected_own (own : List Nat) : selected .route (own.map fun i => (⟨i, cRouteHandler, false⟩ : Mw)) = own := by
  induction own with
  | nil => rfl
  | cons i own ih =>
    have : inScope .route ⟨i, cRouteHandler, false⟩ = true := by show Nat.testBit 128 7 = true; decide
    simp only [selected, List.map_cons, List.filter_cons, this, if_true] at ih ⊢
    rw [ih]

theorem selfSelected_routeMws (globals : List Mw) (own : List Nat) (hg : ∀ m ∈ globals, m.g = true) :
    selfSelected (routeMws globals own) = own := by
  unfold selfSelected routeMws
  rw [List.filter_append, List.map_append]
  have h1 : globals.filter (fun m => inScope .route m && !m.g) = [] := by
    rw [List.filter_eq_nil_iff]; intro m hm; simp [hg m hm]
  rw [h1]
  simp only [List.map_nil, List.nil_append]
  induction own with
  | nil => rfl
  | cons i own ih =>
    have : inScope .route ⟨i, cRouteHandler, false⟩ = true := by show Nat.testBit 128 7 = true; decide
    simp only [List.map_cons, List.filter_cons, this, Bool.not_false, Bool.and_self, if_true] at ih ⊢
    rw [ih]

/-- every entry registered by a global option is marked global -/
theorem newRouter_global (c c' : MwCfg) (opts : List GOpt) (h : newRouter c opts = some c')
    (hc : ∀ m ∈ c.mws, m.g = true) : ∀ m ∈ c'.mws, m.g = true := by
  induction opts generalizing c with
  | nil => simp [newRouter] at h; subst h; exact hc
  | cons o os ih =>
    simp only [newRouter] at h
    cases ho : applyG c o with
    | none => simp [ho] at h
    | some c1 =>
      simp only [ho] at h
      apply ih c1 h
      cases o with
      | middleware ms =>
        simp only [applyG, Option.map_eq_some_iff] at ho
        obtain ⟨r, hr, rfl⟩ := ho
        obtain ⟨hr1, _⟩ := appendMws_some _ _ _ _ _ hr
        intro m hm; simp only [hr1, List.mem_append, List.mem_filterMap] at hm
        rcases hm with hm | ⟨o, _, ho⟩
        · exact hc m hm
        · cases o <;> simp at ho; subst ho; rfl
      | middlewareFor s ms =>
        simp only [applyG, Option.map_eq_some_iff] at ho
        obtain ⟨r, hr, rfl⟩ := ho
        obtain ⟨hr1, _⟩ := appendMws_some _ _ _ _ _ hr
        intro m hm; simp only [hr1, List.mem_append, List.mem_filterMap] at hm
        rcases hm with hm | ⟨o, _, ho⟩
        · exact hc m hm
        · cases o <;> simp at ho; subst ho; rfl
      | defaults =>
        simp only [applyG, Option.some.injEq] at ho; subst ho
        intro m hm; simp only [List.mem_cons] at hm
        rcases hm with rfl | rfl | hm
        · rfl
        · rfl
        · exact hc m hm
      | autoOptions b => simp only [applyG, Option.some.injEq] at ho; subst ho; exact hc
      | noMethod b => simp only [applyG, Option.some.injEq] at ho; subst ho; exact hc

/-- **Routes.** For a route created on a router whose list is `globals` (all marked global, which `New` guarantees) with
    its own middleware `own`: `Route.Handle` runs the bare handler; `Route.HandleMiddleware` the handler wrapped by the
    route's own middleware only; the chain used by ServeHTTP has the global middleware with the RouteHandler bit outside
    (registration order), then the route's own, then the handler, and unwinds in reverse. -/
theorem route_chain (globals : List Mw) (own : List Nat) (h : Trace) (hg : ∀ m ∈ globals, m.g = true) :
    let r := newRouteChains wrap globals own h
    r.hbase = h ∧ r.hself = chain own h ∧
    r.hall = chain (selected .route globals) (chain own h) := by
  simp only [newRouteChains, route_chain_raw, selfSelected_routeMws globals own hg]
  refine ⟨trivial, trivial, ?_⟩
  rw [routeMws, selected_append, selected_own, chain_append]

/-- **Exactly once.** In every chain, middleware `i` is entered (and left) as many times as it was selected — once per
    registration — on top of what the handler itself logs. -/
theorem exactly_once (k : Kind) (mws : List Mw) (h : Trace) (i : Nat) :
    (applyMiddleware wrap k.bit mws h).count (.enter i) = (selected k mws).count i + h.count (.enter i) ∧
    (applyMiddleware wrap k.bit mws h).count (.exit i) = (selected k mws).count i + h.count (.exit i) := by
  rw [special_chain]
  exact ⟨count_enter_chain _ _ _, count_exit_chain _ _ _⟩

/-- **Global options.** `New` fails (ErrInvalidConfig) exactly when some middleware argument is nil; otherwise the
    router's list is what the options say in order, DefaultOptions putting Recovery (route handlers only) and Logger (all
    handlers) in front of everything registered before it. -/
theorem newRouter_mws (c : MwCfg) (opts : List GOpt) :
    (∀ c', newRouter c opts = some c' → c'.mws = globalMws c.mws opts) ∧
    (newRouter c opts = none ↔ ∃ o ∈ opts, (∃ ms, o = .middleware ms ∧ none ∈ ms) ∨ (∃ s ms, o = .middlewareFor s ms ∧ none ∈ ms)) := by
  induction opts generalizing c with
  | nil => simp [newRouter, globalMws]
  | cons o os ih =>
    simp only [newRouter]
    cases o with
    | middleware ms =>
      cases hr : appendMws cAllHandlers true c.mws ms with
      | none =>
        have := (appendMws_none _ _ _ _).1 hr
        simp [applyG, hr, this]
      | some r =>
        obtain ⟨h1, h2⟩ := appendMws_some _ _ _ _ _ hr
        obtain ⟨i1, i2⟩ := ih { c with mws := r }
        simp only [applyG, hr, Option.map_some]
        refine ⟨fun c' hc' => ?_, ?_⟩
        · rw [i1 c' hc', globalMws]; simp [h1]
        · rw [i2]; simp [h2]
    | middlewareFor s ms =>
      cases hr : appendMws s true c.mws ms with
      | none =>
        have := (appendMws_none _ _ _ _).1 hr
        simp only [applyG, hr, Option.map_none]
        refine ⟨fun c' hc' => (by cases hc'), fun _ => ?_, fun _ => trivial⟩
        exact ⟨_, List.mem_cons_self, Or.inr ⟨s, ms, rfl, this⟩⟩
      | some r =>
        obtain ⟨h1, h2⟩ := appendMws_some _ _ _ _ _ hr
        obtain ⟨i1, i2⟩ := ih { c with mws := r }
        simp only [applyG, hr, Option.map_some]
        refine ⟨fun c' hc' => ?_, ?_⟩
        · rw [i1 c' hc', globalMws]; simp [h1]
        · rw [i2]; simp [h2]
    | defaults =>
      obtain ⟨i1, i2⟩ := ih { c with mws := ⟨recoveryId, cRouteHandler, true⟩ :: ⟨loggerId, cAllHandlers, true⟩ :: c.mws, handleOptions := true }
      simp only [applyG]
      refine ⟨fun c' hc' => ?_, ?_⟩
      · rw [i1 c' hc', globalMws]
      · rw [i2]; simp
    | autoOptions b =>
      obtain ⟨i1, i2⟩ := ih { c with handleOptions := b }
      simp only [applyG]
      refine ⟨fun c' hc' => ?_, ?_⟩
      · rw [i1 c' hc', globalMws]
      · rw [i2]; simp
    | noMethod b =>
      obtain ⟨i1, i2⟩ := ih { c with handleNoMethod := b }
      simp only [applyG]
      refine ⟨fun c' hc' => ?_, ?_⟩
      · rw [i1 c' hc', globalMws]
      · rw [i2]; simp

theorem globalMws_append (acc : List Mw) (a b : List GOpt) : globalMws acc (a ++ b) = globalMws (globalMws acc a) b := by
  induction a generalizing acc with
  | nil => rfl
  | cons o os ih => cases o <;> simp [globalMws, ih]

/-- **DefaultOptions.** Wherever it stands among the options, DefaultOptions puts Recovery (scope RouteHandler) first and
    Logger (scope AllHandlers) second in front of whatever was registered before it, later options append behind, and it
    switches automatic OPTIONS on. Hence route handlers run inside `Recovery, Logger, …` and special handlers inside
    `Logger, …` (Recovery's scope excludes them). -/
theorem default_opts (acc : List Mw) (pre post : List GOpt) (c : MwCfg) :
    globalMws acc (pre ++ .defaults :: post) =
      globalMws (⟨recoveryId, cRouteHandler, true⟩ :: ⟨loggerId, cAllHandlers, true⟩ :: globalMws acc pre) post ∧
    applyG c .defaults = some { c with mws := ⟨recoveryId, cRouteHandler, true⟩ :: ⟨loggerId, cAllHandlers, true⟩ :: c.mws,
                                       handleOptions := true } ∧
    (∀ k : Kind, selected k (⟨recoveryId, cRouteHandler, true⟩ :: ⟨loggerId, cAllHandlers, true⟩ :: acc) =
      (if k = .route then [recoveryId, loggerId] else [loggerId]) ++ selected k acc) := by
  refine ⟨?_, rfl, ?_⟩
  · rw [globalMws_append]; rfl
  · intro k
    have hr : inScope k ⟨recoveryId, cRouteHandler, true⟩ = decide (k = .route) := by cases k <;> rfl
    have hl : inScope k ⟨loggerId, cAllHandlers, true⟩ = true := by cases k <;> rfl
    by_cases hk : k = .route
    · subst hk; simp [selected, hr, hl]
    · simp [selected, hr, hl, hk]

/-- **Update.** An updated route is a new route: its chains are those of `NewRoute` on the router's list and the new
    options, so a middleware of the replaced route that is not passed again is never entered. -/
theorem update_replaces (globals : List Mw) (own' : List Nat) (h : Trace) (hg : ∀ m ∈ globals, m.g = true) (i : Nat) :
    let r := newRouteChains wrap globals own' h
    (Ev.enter i ∈ r.hall → i ∈ selected .route globals ∨ i ∈ own' ∨ Ev.enter i ∈ h) ∧
    (Ev.enter i ∈ r.hself → i ∈ own' ∨ Ev.enter i ∈ h) := by
  obtain ⟨_, h2, h3⟩ := route_chain globals own' h hg
  simp only at h2 h3 ⊢
  rw [h2, h3]
  simp only [mem_enter_chain]
  exact ⟨fun h => h, fun h => h⟩

/-- **Route independence (slice model).** With `mws: slices.Clone(fox.mws)`, creating a route — cloning the router's slice
    and appending the route's own middleware, whatever the allocator's rounding `grow` and the spare capacity of the
    router's backing array — writes no cell of any backing array that existed before: every slice another route (or the
    router) holds still denotes the same elements. The new route's slice is valid, fresh, and denotes the router's list
    followed by its own middleware (the list-level model `routeMws`). -/
theorem route_independent (grow : Nat → Nat) (H : Heap) (router : Slice) (own : List Nat) (hv : Valid H router) :
    let r := newRouteS .copied grow H router own
    (∀ a, a < H.arrs.length → r.1.cells a = H.cells a) ∧
    (∀ s : Slice, s.arr < H.arrs.length → r.1.read s = H.read s) ∧
    H.arrs.length ≤ r.2.arr ∧ Valid r.1 r.2 ∧
    r.1.read r.2 = routeMws (H.read router) own := by
  obtain ⟨c1, c2, c3, c4, c5⟩ := clone_inv grow H router hv
  obtain ⟨a1, a2, a3, a4, a5⟩ := appendAll_inv grow H.arrs.length (own.map fun i => (⟨i, cRouteHandler, false⟩ : Mw))
    (H.clone grow router).1 (H.clone grow router).2 (by omega) c2
  have hcells : ∀ a, a < H.arrs.length →
      (newRouteS .copied grow H router own).1.cells a = H.cells a := by
    intro a ha
    simp only [newRouteS]
    rw [a4 a ha, c4 a ha]
  refine ⟨hcells, ?_, a1, a2, ?_⟩
  · intro s hs; simp only [Heap.read, hcells s.arr hs]
  · simp only [newRouteS] at a5 ⊢
    rw [a5, c5, routeMws]

/-- two routes created one after the other on the same router (any order of their steps that keeps each route's own
    clone-then-append sequence): the first route's list is the same after the second was created -/
theorem route_independent_pair (grow : Nat → Nat) (H : Heap) (router : Slice) (ownA ownB : List Nat) (hv : Valid H router) :
    let ra := newRouteS .copied grow H router ownA
    let rb := newRouteS .copied grow ra.1 router ownB
    rb.1.read ra.2 = routeMws (H.read router) ownA ∧ rb.1.read rb.2 = routeMws (H.read router) ownB ∧
    rb.1.read router = H.read router := by
  obtain ⟨_, a2, a3, a4, a5⟩ := route_independent grow H router ownA hv
  have hv' : Valid (newRouteS .copied grow H router ownA).1 router := by
    obtain ⟨v1, v2, v3⟩ := hv
    have hlen : H.arrs.length ≤ (newRouteS .copied grow H router ownA).1.arrs.length := by
      have := a4.arr_lt; omega
    refine ⟨by omega, ?_, v3⟩
    have := a2 { router with len := router.cap } v1
    have e : (newRouteS .copied grow H router ownA).1.cells router.arr = H.cells router.arr := by
      obtain ⟨h1, _⟩ := route_independent grow H router ownA ⟨v1, v2, v3⟩
      exact h1 _ v1
    rw [e]; exact v2
  obtain ⟨_, b2, _, _, b5⟩ := route_independent grow (newRouteS .copied grow H router ownA).1 router ownB hv'
  refine ⟨?_, ?_, ?_⟩
  · rw [b2 _ a4.arr_lt, a5]
  · rw [b5, a2 router hv.arr_lt]
  · rw [b2 router hv'.arr_lt, a2 router hv.arr_lt]

/-- non-vacuity / sensitivity: with the bare field (`mws: fox.mws`) and spare capacity — three global middleware in an
    array of four cells — creating route B overwrites the cell route A's list reaches -/
example :
    let H : Heap := { arrs := [[⟨1, 248, true⟩, ⟨2, 248, true⟩, ⟨3, 248, true⟩, junk]] }
    let router : Slice := ⟨0, 3, 4⟩
    let ra := newRouteS .shared (fun n => 2 * n) H router [10]
    let rb := newRouteS .shared (fun n => 2 * n) ra.1 router [20]
    ra.1.read ra.2 = routeMws (H.read router) [10] ∧ rb.1.read ra.2 ≠ ra.1.read ra.2 ∧
    (rb.1.read ra.2).map (·.id) = [1, 2, 3, 20] := by
  decide

/-- non-vacuity: a concrete chain -/
example : applyMiddleware wrap Kind.noRoute.bit [⟨1, 248, true⟩, ⟨2, 128, true⟩, ⟨3, 64, true⟩] [.handler 404] =
    [.enter 1, .enter 3, .handler 404, .exit 3, .exit 1] := by decide

end Fox.C13
