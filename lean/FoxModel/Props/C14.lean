import FoxModel.Generated.Consts
import FoxModel.Lemmas.Recorder
/-
  Property C14 — ResponseWriter status, size and written flag reflect what was really sent.
  Model: FoxModel/Model/Recorder.lean (response_writer.go `recorder`, context.go String/Blob/Stream/Redirect);
  specification: FoxModel/Spec/Recorder.lean (computed from the ghost log of the underlying writer only).
-/
namespace Fox.C14
open Fox.Recorder

/-- For ANY sequence of calls on the ResponseWriter (WriteHeader incl. 1xx/101/repeated, Write, WriteString, ReadFrom on
    either path, FlushError, Hijack, Push, deadlines, full duplex, String/Blob/Stream/Redirect), any shape of the
    underlying writer and any fault plan: afterwards `Status()` is the first final status that reached the underlying
    writer (200 if none), `Size()` the number of body bytes it accepted, `Written()` holds exactly when a final header
    reached it or a byte was accepted, and the log contains at most one final status and none after a body byte.
    (Every prefix of a call list is a call list, so this holds after every single call.) -/
theorem inv (sh : Shape) (k : Option Nat) (calls : List Call) :
    let s := (run sh (init k) calls).1
    s.Status = Spec.status s.u.log ∧ s.Size = Spec.size s.u.log ∧ s.Written = Spec.written s.u.log ∧
      Spec.wellFormed s.u.log = true := by
  intro s
  have hi : Inv s := run_inv sh calls (inv_init k)
  obtain ⟨hl, h1, h2⟩ := hi
  by_cases hs : s.r.size = -1
  · obtain ⟨hst, hf, hb, hn, _⟩ := h1 hs
    simp [St.Status, St.Size, St.Written, Spec.status, Spec.size, Spec.written, Spec.wellFormed, hs, hst, hf, hb, hn, hl]
  · obtain ⟨h0, hf, hb, hn, _⟩ := h2 hs
    have hlt : ¬ s.r.size < 0 := by omega
    simp only [St.Status, St.Size, St.Written, Spec.status, Spec.size, Spec.written, Spec.wellFormed, hf, hb, hn, hl, hlt]
    simp [hs]

/-- the same, after each call of the list (prefixes) -/
theorem inv_every_call (sh : Shape) (k : Option Nat) (calls : List Call) (n : Nat) :
    let s := (run sh (init k) (calls.take n)).1
    s.Status = Spec.status s.u.log ∧ s.Size = Spec.size s.u.log ∧ s.Written = Spec.written s.u.log ∧
      Spec.wellFormed s.u.log = true := inv sh k (calls.take n)

theorem readFrom_paths (sh : Shape) {s : St} (cs : List Nat) (e : Bool) (hp : P s) (hi : Inv s) :
    readFrom { sh with rf := true } s cs e = readFrom { sh with rf := false } s cs e := by
  unfold readFrom
  simp only [↓reduceIte, Bool.false_eq_true]
  rw [copyFallback_eq_fast cs e hp hi]
  rfl

theorem step_paths (sh : Shape) {s : St} (c : Call) (hp : P s) (hi : Inv s) :
    step { sh with rf := true } s c = step { sh with rf := false } s c := by
  cases c with
  | rf cs e => simp only [step]; rw [readFrom_paths sh cs e hp hi]
  | stream code cs e =>
    simp only [step]
    rw [readFrom_paths sh cs e (writeHeader_P code (setCT_P _ hp)) (writeHeader_inv code (setCT_inv _ hi))]
  | _ => rfl

theorem run_paths (sh : Shape) (cs : List Call) : ∀ {s : St}, P s → Inv s →
    run { sh with rf := true } s cs = run { sh with rf := false } s cs := by
  induction cs with
  | nil => intro s _ _; rfl
  | cons c cs ih =>
    intro s hp hi
    simp only [run]
    rw [step_paths sh c hp hi]
    rw [ih (step_P _ c hp hi) (step_inv _ c hi)]

/-- PARTIAL (hypothesis `k ≠ some 0`: the underlying writer accepts at least one body byte).
    With and without `io.ReaderFrom` on the underlying writer, the same calls under the same fault plan give the same
    answers after every call (Status, Written, Size), the same return values (n, error class) and the same events at the
    underlying writer — i.e. the fast path of `recorder.ReadFrom` and the `io.CopyBuffer(onlyWrite{r}, …)` fallback are
    indistinguishable.
    Full statement (no hypothesis) is FALSE for the code as it is, see `paths_differ_when_first_byte_rejected`. -/
theorem paths_agree_partial (sh : Shape) (k : Option Nat) (hk : k ≠ some 0) (calls : List Call) :
    run { sh with rf := true } (init k) calls = run { sh with rf := false } (init k) calls :=
  run_paths sh calls ⟨rfl, fun _ => hk⟩ (inv_init k)

/-- why the hypothesis is needed: an underlying writer that rejects the very first byte. The fallback path forwards the
    implicit 200 header before the failing Write (Written() = true), the fast path leaves everything to the underlying
    `ReadFrom`, which sent nothing (Written() = false). Both satisfy `inv` for their own log. -/
theorem paths_differ_when_first_byte_rejected :
    let sh : Shape := { rf := false, fl := false, fe := false, hj := false, pu := false, dl := false, fd := false }
    ((run { sh with rf := true } (init (some 0)) [.rf [5] false]).2.map (·.1.written) = [false]) ∧
    ((run { sh with rf := false } (init (some 0)) [.rf [5] false]).2.map (·.1.written) = [true]) := by
  decide

/-- `http.Flusher` and `FlushError() error` variants of the underlying writer: whichever is offered, FlushError first
    sends the pending header through the recorder's own WriteHeader, so the answers are the same; with neither the call
    fails with ErrNotSupported and changes nothing. -/
theorem flush_paths (sh : Shape) (s : St) :
    (sh.fe = false → sh.fl = false → flushError sh s = (s, Err.notSupported)) ∧
    (sh.fe = true ∨ sh.fl = true →
      (flushError sh s).1.r = (if s.r.size = -1 then (writeHeader s s.r.status).1 else s).r) := by
  constructor
  · intro h1 h2; simp [flushError, h1, h2]
  · intro h
    unfold flushError
    by_cases h1 : sh.fe = true
    · simp [h1]
    · have h2 : sh.fl = true := by simpa [h1] using h
      simp [h1, h2]

/-- Optional capabilities: delegated to the underlying writer when it offers them (the event reaches it, its result is
    returned), otherwise the call returns an error matching http.ErrNotSupported and neither the recorder nor the
    underlying writer changes. -/
theorem capabilities (sh : Shape) (s : St) :
    (step sh s .hj = if sh.hj then
        ({ r := { s.r with hijacked := true }, u := { s.u.emit .hijack with hijacked := true } }, { err := .ok })
      else (s, { err := .notSupported })) ∧
    (step sh s .pu = if sh.pu then ({ s with u := s.u.emit .push }, { err := .ok }) else (s, { err := .notSupported })) ∧
    (step sh s .rd = if sh.dl then ({ s with u := s.u.emit .rdl }, { err := .ok }) else (s, { err := .notSupported })) ∧
    (step sh s .wd = if sh.dl then ({ s with u := s.u.emit .wdl }, { err := .ok }) else (s, { err := .notSupported })) ∧
    (step sh s .fd = if sh.fd then ({ s with u := s.u.emit .fdx }, { err := .ok }) else (s, { err := .notSupported })) ∧
    (sh.fe = false → sh.fl = false → step sh s .fl = (s, { err := .notSupported })) ∧
    (sh.fe = true → (step sh s .fl).1.u.log.getLast? = some .flushE) ∧
    (sh.fe = false → sh.fl = true → (step sh s .fl).1.u.log.getLast? = some .flush ∧ (step sh s .fl).2.err = .ok) := by
  refine ⟨?_, ?_, ?_, ?_, ?_, ?_, ?_, ?_⟩
  · simp only [step, hijack]; split <;> rfl
  · simp only [step, push]; split <;> rfl
  · simp only [step, setReadDeadline]; split <;> rfl
  · simp only [step, setWriteDeadline]; split <;> rfl
  · simp only [step, enableFullDuplex]; split <;> rfl
  · intro h1 h2; simp [step, flushError, h1, h2]
  · intro h1; simp [step, flushError, h1, Under.emit]
  · intro h1 h2; simp [step, flushError, h1, h2, Under.emit]

/-- Context.Redirect succeeds exactly for the codes 300..308 (what the property demands, `Spec.redirectOk`); for any
    other code it returns ErrInvalidRedirectCode and touches nothing. -/
theorem redirect_codes (sh : Shape) (s : St) (code len : Nat) :
    ((step sh s (.redir code len)).2.err = .ok ↔ Spec.redirectOk code = true) ∧
    (Spec.redirectOk code = false → step sh s (.redir code len) = (s, { err := .invalidRedirect })) := by
  by_cases h : code < 300 ∨ code > 308
  · have : Spec.redirectOk code = false := by simp [Spec.redirectOk]; omega
    simp [step, h, this]
  · have h' : Spec.redirectOk code = true := by simp [Spec.redirectOk]; omega
    simp only [step, h, ↓reduceIte, h']
    constructor
    · split <;> simp
    · intro hh; cases hh

/-- Context.String / Context.Blob on a fresh response whose writer does not fail, with a final status code: exactly that
    header, then exactly the given bytes, reach the underlying writer; the content type is the one given (text/plain for
    String); Status() = code, Size() = n. (With an informational code the 1xx header is forwarded and the body goes out
    under the implicit 200 — covered by `inv`.) -/
theorem helpers_fresh (sh : Shape) (code n : Nat) (hc : isFinal code = true) (hn : n > 0) :
    let b := step sh (init none) (.blob code n)
    let t := step sh (init none) (.str code n)
    b.1.u.log = [.hdr code, .body n] ∧ b.1.u.ct = .blob ∧ b.2.err = .ok ∧ b.1.Status = code ∧ b.1.Size = n ∧
    t.1.u.log = [.hdr code, .body n] ∧ t.1.u.ct = .textPlain ∧ t.2.err = .ok ∧ t.1.Status = code ∧ t.1.Size = n := by
  have hcode : ¬ (100 ≤ code ∧ code ≤ 199 ∧ code ≠ 101) := by
    simp [isFinal] at hc; omega
  have hn' : ¬ ((n : Int) < 0) := by omega
  simp [step, init, setCT, writeHeader, write, Under.write, Under.writeHeader, Under.emit, Under.take, accept, hcode, hc,
    hn, St.Status, St.Size, hn']

/-- the sentinel of the Go code is the one the model uses -/
theorem sentinel_tie : Generated.c_notWritten = (init none).r.size := by decide

/-! ### non-vacuity: concrete runs -/

private def plain : Shape := { rf := false, fl := false, fe := false, hj := false, pu := false, dl := false, fd := false }

/-- 103 Early Hints passes through, 404 is recorded, the second WriteHeader is swallowed, the writer fails after 7 bytes -/
example :
    (run { plain with rf := true } (init (some 7)) [.wh 103, .wh 404, .wh 500, .wr 5, .rf [3, 4] false]).2.map
        (fun x => (x.1.status, x.1.written, x.1.size, x.2.n, x.2.err)) =
      [(200, false, 0, none, .ok), (404, true, 0, none, .ok), (404, true, 0, none, .ok), (404, true, 5, some 5, .ok),
       (404, true, 7, some 2, .fault)] := by decide

example :
    (run { plain with rf := true } (init (some 7)) [.wh 103, .wh 404, .wh 500, .wr 5, .rf [3, 4] false]).1.u.log =
      [.hdr 103, .hdr 404, .body 5, .body 2] := by decide

/-- a source that fails after 5 bytes on the fast path (the situation of the repaired defect): Written, Size 5 -/
example :
    (run { plain with rf := true } (init none) [.rf [5] true]).2.map (fun x => (x.1.written, x.1.size, x.2.err)) =
      [(true, 5, .src)] := by decide

/-- an empty successful copy is not "written" on either path -/
example : ((run { plain with rf := true } (init none) [.rf [] false]).2.map (·.1.written) = [false]) ∧
    ((run plain (init none) [.rf [] false]).2.map (·.1.written) = [false]) := by decide

/-- after Hijack, writes fail with ErrHijacked and WriteHeader is dropped -/
example :
    (run { plain with hj := true } (init none) [.hj, .wh 200, .wr 3]).2.map (fun x => (x.1.written, x.2.err)) =
      [(false, .ok), (false, .ok), (false, .hijacked)] := by decide

end Fox.C14
