import FoxModel.Model.Recovery
/-
  Property C15 — handler panics are contained and leave the router usable.
  Model + specification: FoxModel/Model/Recovery.lean; regenerated facts: FoxModel/Generated/Recovery.lean.
-/
namespace Fox.C15
open Fox.Recovery

/-- the two substrings `connIsBroken` looks for (regenerated) are the ones the specification names, the text is
    lower-cased first, and the value must be a *net.OpError (type assertion) carrying an *os.SyscallError (errors.As) -/
theorem broken_conn_facts :
    Generated.brokenConnSubstringsBytes = [Spec.a "broken pipe", Spec.a "connection reset by peer"] ∧
    Generated.brokenConnLowered = true ∧ Generated.brokenConnTypeAssertOpError = true ∧
    Generated.brokenConnAsSyscallError = true := by decide

/-- the source of `recovery` re-panics exactly under `err.(error) ∧ errors.Is(e, http.ErrAbortHandler)` and calls the
    RecoveryFunc only under `!c.Writer().Written() && !connIsBroken(err)` (regenerated facts) -/
theorem guards_tie : Generated.abortRepanics = true ∧ Generated.handleGuardOk = true := by decide

theorem connIsBroken_eq_spec (v : PanicVal) : connIsBroken v = Spec.connBroken v := by
  cases v <;> simp [connIsBroken, Spec.connBroken, broken_conn_facts.1]

/-- For EVERY panic value class and every response progress: http.ErrAbortHandler (plain or wrapped) is re-raised and
    nothing is logged or written; every other value is contained, logged, and the RecoveryFunc (500) runs exactly when
    nothing had been written and the value does not report a broken connection — i.e. the code's decision is the
    demanded one. -/
theorem decision (v : PanicVal) (p : Progress) (hs : List Str) :
    let d := recovery v p hs
    (d.repanic, d.handled) = Spec.outcome v p ∧ (d.repanic = false → d.logged = true) ∧
    (d.repanic = true → d.logged = false ∧ d.handled = false) ∧
    (p.written = true → d.handled = false) := by
  cases v <;> cases p <;>
    simp [recovery, Spec.outcome, PanicVal.isError, PanicVal.isAbort, Progress.written, connIsBroken_eq_spec,
      Spec.connBroken]

/-- the comparison in the source is strings.EqualFold inside slices.ContainsFunc (regenerated fact) -/
theorem compare_mode_is_fold : Generated.redactCompareMode = 1 := by decide

/-- every credential-bearing header name of the specification is in the regenerated redaction list (up to case) -/
theorem sensitive_subset : ∀ s ∈ Spec.sensitive, s ∈ Generated.blacklistedHeaderBytes.map lower := by decide

/-- A header whose name is — in ANY capitalisation — one of Authorization, Proxy-Authorization, Cookie, Set-Cookie,
    X-CSRF-Token, X-Vault-Token is redacted in the logged request dump. -/
theorem redaction (k : Str) (h : Spec.isSensitive k = true) : redacted k = true := by
  have hm : lower k ∈ Spec.sensitive := by simpa [Spec.isSensitive] using h
  have := sensitive_subset _ hm
  obtain ⟨e, he, hl⟩ := List.mem_map.mp this
  unfold redacted
  rw [List.any_eq_true]
  exact ⟨e, he, by simp [nameMatches, compare_mode_is_fold, hl]⟩

/-- …and therefore its name is among the redacted names of the decision, whatever the value class and progress -/
theorem redaction_in_decision (v : PanicVal) (p : Progress) (hs : List Str) (k : Str) (hk : k ∈ hs)
    (h : Spec.isSensitive k = true) (hv : v.isAbort = false) : k ∈ (recovery v p hs).redactedNames := by
  simp [recovery, hv, List.mem_filter, hk, redaction k h]

/-- the list redacts nothing but credential headers (ordinary headers stay readable in the dump) -/
theorem redaction_only_sensitive (k : Str) (h : redacted k = true) : Spec.isSensitive k = true := by
  unfold redacted at h
  rw [List.any_eq_true] at h
  obtain ⟨e, he, hm⟩ := h
  have hl : lower e = lower k := by simpa [nameMatches, compare_mode_is_fold] using hm
  have : ∀ e ∈ Generated.blacklistedHeaderBytes, lower e ∈ Spec.sensitive := by decide
  simpa [Spec.isSensitive, ← hl] using this e he

/-- Router.Updates and Router.View install, before running the user function, a deferred function that on a panic
    aborts the transaction and then re-raises the same value, and aborts on the normal path too; Handle, HandleRoute,
    Update, UpdateRoute and Delete `defer txn.Abort()` before the operation, and MustHandle opens no transaction of its
    own but goes through Handle (regenerated from fox.go). -/
theorem updates_abort_on_all_paths :
    Generated.updates_deferBeforeFn = true ∧ Generated.updates_recovers = true ∧
    Generated.updates_abortOnPanicPath = true ∧ Generated.updates_repanics = true ∧
    Generated.updates_abortOnNormalPath = true ∧
    Generated.view_deferBeforeFn = true ∧ Generated.view_recovers = true ∧ Generated.view_abortOnPanicPath = true ∧
    Generated.view_repanics = true ∧ Generated.view_abortOnNormalPath = true ∧
    Generated.singleOpDeferAbortFirst = [true, true, true, true, true, true] := by decide

/-! ### non-vacuity -/

example : Spec.isSensitive (Spec.a "x-CsRf-tOKEN") = true := by decide
example : redacted (Spec.a "COOKIE") = true := by decide
example : redacted (Spec.a "X-Request-Id") = false := by decide
example : (recovery (.opSyscall (Spec.a "write: Broken Pipe")) .nothing []).handled = false := by decide
example : (recovery (.opPlain (Spec.a "broken pipe")) .nothing []).handled = true := by decide
example : (recovery (.wrappedOp (Spec.a "write: broken pipe")) .nothing []).handled = true := by decide
example : (recovery .str .headerOnly []).handled = false ∧ (recovery .str .nothing []).handled = true := by decide
example : (recovery .wrappedAbort .nothing []).repanic = true := by decide

end Fox.C15
