import FoxModel.Lemmas.Redact
import FoxModel.Props.C15
/-
  Property C15 (last sentence) at byte level: "the diagnostic record … never contains the values of credential-bearing
  headers, however their names are capitalised".

  `Model/Redact` is the dump loop of recovery.go on bytes (`bytes.Cut`, `iterutil.SplitBytesSeq` with "\r\n",
  `bytes.IndexByte(':')`, the list comparison). For the dump of ANY request - any request line, any number of headers,
  any names without ':' / CR / LF, any values without "\r\n" (lone CR or LF allowed) -:

  * `dump_is_redacted_line_by_line` - the text written is the request line followed by every header line, the value of
    a listed header replaced by `<redacted>`;
  * `record_independent_of_credentials` - two requests that differ only in the values of listed headers produce the same
    text: nothing of such a value reaches the record (non-interference; stronger than "the value does not occur", which
    a value that happens to equal another header's could not satisfy);
  * `listed_names_any_capitalisation` (Props/C15 `redaction_covers_sensitive`) - which names are listed.

  Tie to the code: stream `recovery` compares the dump section of every logged record byte for byte with
  `redactDump (mkDump …)` of the request it sent (`dump=` field).
-/
namespace Fox.C15.Redact
open Fox.Recovery Fox.Recovery.Redact

/-- the loop writes the request line and, line by line, the headers with the values of listed headers withheld -/
theorem dump_is_redacted_line_by_line (rl : Str) (hs : List (Str × Str)) (hrl : noCRLF rl = true)
    (hok : ∀ h ∈ hs, headerOk h = true) :
    redactDump (mkDump rl hs) = rl ++ hs.flatMap (fun h => CRLF ++ shown h) ++ CRLF ++ CRLF :=
  redactDump_mkDump rl hs hrl hok

/-- same names, same values wherever the name is not listed -/
def SameButCredentials : List (Str × Str) → List (Str × Str) → Prop
  | [], [] => True
  | h :: hs, h' :: hs' => h.1 = h'.1 ∧ (redacted h.1 = false → h.2 = h'.2) ∧ SameButCredentials hs hs'
  | _, _ => False

theorem shown_eq : ∀ {hs hs' : List (Str × Str)}, SameButCredentials hs hs' →
    hs.flatMap (fun h => CRLF ++ shown h) = hs'.flatMap (fun h => CRLF ++ shown h)
  | [], [], _ => rfl
  | [], _ :: _, h => by simp [SameButCredentials] at h
  | _ :: _, [], h => by simp [SameButCredentials] at h
  | a :: hs, b :: hs', h => by
    obtain ⟨h1, h2, h3⟩ := h
    have ih := shown_eq h3
    simp only [List.flatMap_cons, ih]
    congr 2
    unfold shown
    cases hr : redacted a.1 with
    | true => rw [← h1, hr]; simp [h1]
    | false =>
      have e2 := h2 hr
      rw [← h1, hr]
      simp only [Bool.false_eq_true, if_false, headerLine, h1, e2]

/-- **no credential reaches the record**: requests that differ only in the values of listed headers are logged alike -/
theorem record_independent_of_credentials (rl : Str) (hs hs' : List (Str × Str)) (hrl : noCRLF rl = true)
    (hok : ∀ h ∈ hs, headerOk h = true) (hok' : ∀ h ∈ hs', headerOk h = true) (hsame : SameButCredentials hs hs') :
    redactDump (mkDump rl hs) = redactDump (mkDump rl hs') := by
  rw [redactDump_mkDump rl hs hrl hok, redactDump_mkDump rl hs' hrl hok', shown_eq hsame]

/-! ### examples (the hypotheses are satisfiable; the loop computes) -/

def s (x : String) : Str := x.toList.map Char.toNat

example : redactDump (mkDump (s "GET /r/42 HTTP/1.1") [(s "Host", s "exa\rmple.com"), (s "AUTHORIZATION", s "Bearer abc"),
      (s "X-Request-Id", s "7")]) =
    s "GET /r/42 HTTP/1.1\r\nHost: exa\rmple.com\r\nAUTHORIZATION: <redacted>\r\nX-Request-Id: 7\r\n\r\n" := by decide
example : headerOk (s "AUTHORIZATION", s "Bearer abc") = true ∧ noCRLF (s "exa\rmple.com") = true := by decide
example : SameButCredentials [(s "Cookie", s "a=1"), (s "Accept", s "x")] [(s "Cookie", s "b=2"), (s "Accept", s "x")] := by
  refine ⟨rfl, ?_, rfl, fun _ => rfl, trivial⟩
  intro h; revert h; decide

end Fox.C15.Redact
