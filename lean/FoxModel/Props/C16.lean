namespace Fox.C16
end Fox.C16
