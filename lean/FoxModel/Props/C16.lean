import FoxModel.Props.C01Full
import FoxModel.Props.C01Spec
/-
  Property C16 — routing a matching request allocates nothing. What is logic is proved here: the parameter buffer of a
  pooled context is allocated with capacity `maxParams` of the tree it belongs to (tree.go allocateContext), and every
  answer of the matcher on a reachable tree carries exactly `ParamsLen` = number of wildcards of the selected route
  parameters, which never exceeds that capacity — so recording the parameters of a match never grows the buffer.
  Escape analysis, sync.Pool and the allocator are runtime behaviour: measured by the `alloc` stream (AllocsPerRun).
-/
namespace Fox.C16
open Fox Fox.Model Fox.Spec Fox.C02

theorem first_mem {res : Res} {tsr : Bool} {f : Found} (h : first res tsr = some f) : (f.route, f.params) ∈ res := by
  cases res with
  | nil => cases h
  | cons x xs =>
    obtain ⟨r, ps⟩ := x
    simp only [first, Option.some.injEq] at h
    subst h; simp

theorem mem_of_flt {p} {S : SufSet} {sr} (h : sr ∈ flt p S) : sr ∈ S := (List.mem_filter.mp h).1

theorem len_of_specAll {S : SufSet} {path : Bytes} {r : Route} {ps : Binds}
    (hpat : ∀ sr ∈ S, sr.1 = sr.2.pattern) (h : (r, ps) ∈ specAll S path []) : ps.length = r.psLen := by
  obtain ⟨s, bs', hm, hps, hM⟩ := C01Spec.specAll_sound h
  have := C01Spec.count_of_match hM
  have hs : s = r.pattern := hpat (s, r) hm
  subst hs
  simp only [List.nil_append] at hps
  rw [hps, this]; rfl

theorem len_of_specHost {S : SufSet} {host path : Bytes} {r : Route} {ps : Binds}
    (hpat : ∀ sr ∈ S, sr.1 = sr.2.pattern) (h : (r, ps) ∈ specHost S host path []) : ps.length = r.psLen := by
  obtain ⟨s, bs', hm, hps, hM⟩ := C01Spec.specHost_sound h
  have hn := C01Spec.matchHP_names hM
  have hs : s = r.pattern := hpat (s, r) hm
  subst hs
  simp only [List.nil_append] at hps
  have : bs'.length = (wildNames r.pattern).length := by rw [← hn, List.length_map]
  rw [hps, this, wildNames_length]; rfl

theorem pathOnlyS_len {S : SufSet} {path : Bytes} {f : Found} (hpat : ∀ sr ∈ S, sr.1 = sr.2.pattern)
    (h : pathOnlyS S path [] = some f) : f.params.length = f.route.psLen := by
  unfold pathOnlyS at h
  cases h1 : first (specAll S path []) false with
  | some g =>
    rw [h1] at h
    simp only [Option.orElse, Option.some.injEq] at h
    subst h
    exact len_of_specAll hpat (first_mem h1)
  | none =>
    rw [h1] at h
    simp only [Option.orElse] at h
    cases ha : adjust path with
    | none => rw [ha] at h; cases h
    | some x =>
      obtain ⟨p', added⟩ := x
      rw [ha] at h
      simp only at h
      cases added with
      | false => exact len_of_specAll hpat (first_mem h)
      | true =>
        simp only [if_true] at h
        exact len_of_specAll (fun sr hsr => hpat sr (mem_of_flt hsr)) (first_mem h)

theorem hostOnlyS_len {S : SufSet} {host path : Bytes} {f : Found} (hpat : ∀ sr ∈ S, sr.1 = sr.2.pattern)
    (h : hostOnlyS S host path [] = some f) : f.params.length = f.route.psLen := by
  unfold hostOnlyS at h
  cases h1 : first (specHost S host path []) false with
  | some g =>
    rw [h1] at h
    simp only [Option.orElse, Option.some.injEq] at h
    subst h
    exact len_of_specHost hpat (first_mem h1)
  | none =>
    rw [h1] at h
    simp only [Option.orElse] at h
    cases ha : adjust path with
    | none => rw [ha] at h; cases h
    | some x =>
      obtain ⟨p', added⟩ := x
      rw [ha] at h
      simp only at h
      cases added with
      | false => exact len_of_specHost hpat (first_mem h)
      | true =>
        simp only [if_true] at h
        exact len_of_specHost (fun sr hsr => hpat sr (mem_of_flt hsr)) (first_mem h)

theorem routeS_len {S : SufSet} {hostPort path : Bytes} {f : Found} (hpat : ∀ sr ∈ S, sr.1 = sr.2.pattern)
    (h : routeS S hostPort path = some f) : f.params.length = f.route.psLen := by
  unfold routeS at h
  simp only at h
  have hP : ∀ sr ∈ S.filter headSlash, sr.1 = sr.2.pattern := fun sr hsr => hpat sr (List.mem_filter.mp hsr).1
  have hH : ∀ sr ∈ S.filter (fun sr => !headSlash sr), sr.1 = sr.2.pattern :=
    fun sr hsr => hpat sr (List.mem_filter.mp hsr).1
  split at h
  · exact pathOnlyS_len hP h
  · cases hh : hostOnlyS (S.filter (fun sr => !headSlash sr)) (stripHostPort hostPort) path [] with
    | some g =>
      rw [hh] at h
      simp only [Option.orElse, Option.some.injEq] at h
      subst h
      exact hostOnlyS_len hH hh
    | none =>
      rw [hh] at h
      simp only [Option.orElse] at h
      exact pathOnlyS_len hP h

/-- stored suffixes below a root are the full patterns -/
theorem pats_of_good {t : Tree} (hg : Good t) (m : Bytes) : ∀ sr ∈ sufsOfMethod t.roots m, sr.1 = sr.2.pattern := by
  unfold sufsOfMethod
  cases hm : methodRoot t.roots m with
  | none => intro sr h; simp at h
  | some root =>
    obtain ⟨x, hx, rfl⟩ := C01.methodRoot_mem hm
    intro sr hsr
    have hroot := (hg.roots x hx).wf
    have hk : x.2.key = [] := by
      simp only [wfRoot, Bool.and_eq_true, List.isEmpty_iff] at hroot
      exact hroot.1.1.1
    have hmem : sr ∈ sufsNode x.2 := by
      rw [sufsNode_eq, sufsFrom_eq, hk]
      apply List.mem_append_right
      simp only [List.nil_append, List.mem_map]
      exact ⟨sr, hsr, rfl⟩
    exact ((hg.roots x hx).pats sr hmem).1

/-- **every answer of the matcher carries exactly ParamsLen parameters**: on a reachable-state tree, for every request
    (path without empty segment, Host without '/'), a found route comes with as many parameters as its pattern has
    wildcards — both for direct and for trailing-slash answers (tsrParams) -/
theorem params_len_eq_psLen {t : Tree} (hg : Good t) (m hostPort path : Bytes) (hn : noDbl path = true)
    (hs : SLASH ∉ stripHostPort hostPort) (r : Route) (ps : Binds) (tsr : Bool)
    (h : lookup t.roots m hostPort path = .found r ps tsr) : ps.length = r.psLen := by
  rw [C01.lookup_eq_spec_good hg m hostPort path hn hs] at h
  cases hr : routeS (sufsOfMethod t.roots m) hostPort path with
  | none => rw [hr] at h; cases h
  | some f =>
    rw [hr] at h
    simp only [toResult] at h
    injection h with h1 h2 _
    subst h1; subst h2
    exact routeS_len (pats_of_good hg m) hr

end Fox.C16

namespace Fox.C16
open Fox Fox.Model Fox.Spec Fox.C02

/-! ### the tree's `maxParams` dominates the parameter count of every registered route -/

theorem psLen_of_pattern {r r' : Route} (h : r.pattern = r'.pattern) : r.psLen = r'.psLen := by
  unfold Route.psLen; rw [h]

/-- simulation invariant extended with the capacity bound -/
def Cap (t : Tree) (s : Store) : Prop := Sim t s ∧ ∀ e ∈ s, e.2.psLen ≤ t.maxParams

theorem cap_new : Cap newTree [] := ⟨sim_new, by intro e h; cases h⟩

theorem insert_maxParams {t t' : Tree} {m : Bytes} {r : Route} {c : InsCase} (h : t.insert m r = .ok (t', c)) :
    t'.maxParams = max t.maxParams r.psLen := by
  unfold Tree.insert at h
  simp only at h
  split at h
  · cases h
  · split at h
    · cases h
    · simp only [Except.ok.injEq, Prod.mk.injEq] at h
      rw [← h.1]

theorem update_maxParams {t t' : Tree} {m : Bytes} {r : Route} (h : t.update m r = some t') :
    t'.maxParams = t.maxParams := by
  unfold Tree.update at h
  split at h
  · cases h
  · split at h
    · cases h
    · simp only [Option.some.injEq] at h; rw [← h]

theorem remove_maxParams {t t' : Tree} {m : Bytes} {toks : List Tok} {old : Route} {c : RemCase}
    (h : t.remove m toks = some (t', old, c)) : t'.maxParams = t.maxParams := by
  unfold Tree.remove at h
  split at h
  · cases h
  · split at h
    · cases h
    · simp only [Option.some.injEq, Prod.mk.injEq] at h; rw [← h.1]

theorem truncate_maxParams (t : Tree) (ms : List Bytes) : (t.truncate ms).maxParams = t.maxParams := by
  unfold Tree.truncate
  split <;> rfl

theorem cap_step {t : Tree} {s : Store} (op : Op) (h : Cap t s) (hv : op.valid = true) :
    Cap (stepModel t op).1 (stepSpec s op).1 := by
  refine ⟨(step_refines op h.1 hv).1, ?_⟩
  cases op with
  | handle m r =>
    have href := handle_refines (m := m) h.1 hv
    simp only [stepModel, stepSpec]
    cases hi : t.insert m r with
    | error e =>
      rw [hi] at href
      cases e with
      | exist x =>
        cases hs : s.handle m r with
        | mk s' o =>
          rw [hs] at href
          cases o <;> simp only at href
          · rw [href.1]; exact h.2
      | conflict cs =>
        cases hs : s.handle m r with
        | mk s' o =>
          rw [hs] at href
          cases o <;> simp only at href
          · rw [href.1]; exact h.2
    | ok y =>
      obtain ⟨t', c⟩ := y
      rw [hi] at href
      simp only
      rw [insert_maxParams hi]
      intro e he
      unfold Store.handle at he
      split at he
      · exact Nat.le_trans (h.2 e he) (Nat.le_max_left _ _)
      · split at he
        · simp only [List.mem_append, List.mem_singleton] at he
          rcases he with he | he
          · exact Nat.le_trans (h.2 e he) (Nat.le_max_left _ _)
          · rw [he]; exact Nat.le_max_right _ _
        · exact Nat.le_trans (h.2 e he) (Nat.le_max_left _ _)
  | update m r =>
    simp only [stepModel, stepSpec]
    cases hu : t.update m r with
    | none =>
      simp only
      intro e he
      unfold Store.update at he
      split at he
      · exact h.2 e he
      · simp only [List.mem_map] at he
        obtain ⟨x, hx, rfl⟩ := he
        split
        · rename_i hc
          simp only [Bool.and_eq_true, beq_iff_eq] at hc
          rw [psLen_of_pattern hc.2.symm]; exact h.2 x hx
        · exact h.2 x hx
    | some t' =>
      simp only
      rw [update_maxParams hu]
      intro e he
      unfold Store.update at he
      split at he
      · exact h.2 e he
      · simp only [List.mem_map] at he
        obtain ⟨x, hx, rfl⟩ := he
        split
        · rename_i hc
          simp only [Bool.and_eq_true, beq_iff_eq] at hc
          rw [psLen_of_pattern hc.2.symm]; exact h.2 x hx
        · exact h.2 x hx
  | delete m pat =>
    simp only [stepModel, stepSpec]
    have hsub : ∀ e ∈ (s.delete m pat).1, e ∈ s := by
      intro e he
      unfold Store.delete at he
      split at he
      · exact he
      · exact (List.mem_filter.mp he).1
    cases hr : t.remove m pat with
    | none => simp only; exact fun e he => h.2 e (hsub e he)
    | some y =>
      obtain ⟨t', old, c⟩ := y
      simp only
      rw [remove_maxParams hr]
      exact fun e he => h.2 e (hsub e he)
  | truncate ms =>
    simp only [stepModel, stepSpec]
    rw [truncate_maxParams]
    intro e he
    unfold Store.truncate at he
    split at he
    · cases he
    · exact h.2 e (List.mem_filter.mp he).1

theorem cap_run : ∀ (ops : List Op) {t : Tree} {s : Store}, Cap t s → (∀ op ∈ ops, op.valid = true) →
    Cap (runModel t ops).1 (runSpec s ops).1
  | [], _, _, h, _ => h
  | op :: ops, t, s, h, hv => by
    have h1 := cap_step op h (hv op (by simp))
    exact cap_run ops h1 (fun o ho => hv o (by simp [ho]))

end Fox.C16

namespace Fox.C16
open Fox Fox.Model Fox.Spec Fox.C02

theorem mem_of_specAll {S : SufSet} {path : Bytes} {r : Route} {ps : Binds}
    (h : (r, ps) ∈ specAll S path []) : ∃ s, (s, r) ∈ S := by
  obtain ⟨s, _, hm, _, _⟩ := C01Spec.specAll_sound h; exact ⟨s, hm⟩

theorem mem_of_specHost {S : SufSet} {host path : Bytes} {r : Route} {ps : Binds}
    (h : (r, ps) ∈ specHost S host path []) : ∃ s, (s, r) ∈ S := by
  obtain ⟨s, _, hm, _, _⟩ := C01Spec.specHost_sound h; exact ⟨s, hm⟩

theorem pathOnlyS_mem {S : SufSet} {path : Bytes} {f : Found} (h : pathOnlyS S path [] = some f) :
    ∃ s, (s, f.route) ∈ S := by
  unfold pathOnlyS at h
  cases h1 : first (specAll S path []) false with
  | some g =>
    rw [h1] at h
    simp only [Option.orElse, Option.some.injEq] at h
    subst h
    exact mem_of_specAll (first_mem h1)
  | none =>
    rw [h1] at h
    simp only [Option.orElse] at h
    cases ha : adjust path with
    | none => rw [ha] at h; cases h
    | some x =>
      obtain ⟨p', added⟩ := x
      rw [ha] at h
      simp only at h
      cases added with
      | false => exact mem_of_specAll (first_mem h)
      | true =>
        simp only [if_true] at h
        obtain ⟨s, hs⟩ := mem_of_specAll (first_mem h)
        exact ⟨s, mem_of_flt hs⟩

theorem hostOnlyS_mem {S : SufSet} {host path : Bytes} {f : Found} (h : hostOnlyS S host path [] = some f) :
    ∃ s, (s, f.route) ∈ S := by
  unfold hostOnlyS at h
  cases h1 : first (specHost S host path []) false with
  | some g =>
    rw [h1] at h
    simp only [Option.orElse, Option.some.injEq] at h
    subst h
    exact mem_of_specHost (first_mem h1)
  | none =>
    rw [h1] at h
    simp only [Option.orElse] at h
    cases ha : adjust path with
    | none => rw [ha] at h; cases h
    | some x =>
      obtain ⟨p', added⟩ := x
      rw [ha] at h
      simp only at h
      cases added with
      | false => exact mem_of_specHost (first_mem h)
      | true =>
        simp only [if_true] at h
        obtain ⟨s, hs⟩ := mem_of_specHost (first_mem h)
        exact ⟨s, mem_of_flt hs⟩

theorem routeS_mem {S : SufSet} {hostPort path : Bytes} {f : Found} (h : routeS S hostPort path = some f) :
    ∃ s, (s, f.route) ∈ S := by
  unfold routeS at h
  simp only at h
  split at h
  · obtain ⟨s, hs⟩ := pathOnlyS_mem h; exact ⟨s, (List.mem_filter.mp hs).1⟩
  · cases hh : hostOnlyS (S.filter (fun sr => !headSlash sr)) (stripHostPort hostPort) path [] with
    | some g =>
      rw [hh] at h
      simp only [Option.orElse, Option.some.injEq] at h
      subst h
      obtain ⟨s, hs⟩ := hostOnlyS_mem hh; exact ⟨s, (List.mem_filter.mp hs).1⟩
    | none =>
      rw [hh] at h
      simp only [Option.orElse] at h
      obtain ⟨s, hs⟩ := pathOnlyS_mem h; exact ⟨s, (List.mem_filter.mp hs).1⟩

/-- a route answered by the matcher is a registered route of that method -/
theorem found_is_registered {t : Tree} (hg : Good t) (m hostPort path : Bytes) (hn : noDbl path = true)
    (hs : SLASH ∉ stripHostPort hostPort) (r : Route) (ps : Binds) (tsr : Bool)
    (h : lookup t.roots m hostPort path = .found r ps tsr) : r ∈ routesOf t m := by
  rw [C01.lookup_eq_spec_good hg m hostPort path hn hs] at h
  cases hr : routeS (sufsOfMethod t.roots m) hostPort path with
  | none => rw [hr] at h; cases h
  | some f =>
    rw [hr] at h
    simp only [toResult] at h
    injection h with h1 _ _
    subst h1
    obtain ⟨s, hsm⟩ := routeS_mem hr
    unfold sufsOfMethod at hsm
    unfold routesOf
    cases hm : methodRoot t.roots m with
    | none => rw [hm] at hsm; simp at hsm
    | some root =>
      rw [hm] at hsm
      simp only at hsm ⊢
      obtain ⟨x, hx, rfl⟩ := C01.methodRoot_mem hm
      have hroot := (hg.roots x hx).wf
      have hk : x.2.key = [] := by
        simp only [wfRoot, Bool.and_eq_true, List.isEmpty_iff] at hroot
        exact hroot.1.1.1
      have hmem : (s, f.route) ∈ sufsNode x.2 := by
        rw [sufsNode_eq, sufsFrom_eq, hk]
        apply List.mem_append_right
        simp only [List.nil_append, List.mem_map]
        exact ⟨(s, f.route), hsm, rfl⟩
      rw [routesNode_eq]
      exact List.mem_map.mpr ⟨(s, f.route), hmem, rfl⟩

/-- **C16 (logic part): the parameters of every answer fit in the pre-sized buffer.** After any history, for every
    request, the parameter list the matcher reports for the selected route (direct or trailing-slash) has exactly
    `ParamsLen` entries and that number is at most the `maxParams` with which the tree's pooled contexts are allocated
    (`make(Params, 0, t.maxParams)`): recording the parameters of a match never has to grow the buffer. -/
theorem params_fit_capacity (ops : List Op) (hv : ∀ op ∈ ops, op.valid = true)
    (m hostPort path : Bytes) (hn : noDbl path = true) (hs : SLASH ∉ stripHostPort hostPort)
    (r : Route) (ps : Binds) (tsr : Bool)
    (h : lookup (runModel newTree ops).1.roots m hostPort path = .found r ps tsr) :
    ps.length = r.psLen ∧ ps.length ≤ (runModel newTree ops).1.maxParams := by
  have hcap := cap_run ops cap_new hv
  have hg := hcap.1.good
  have hlen := params_len_eq_psLen hg m hostPort path hn hs r ps tsr h
  refine ⟨hlen, ?_⟩
  rw [hlen]
  have hreg := found_is_registered hg m hostPort path hn hs r ps tsr h
  have hperm := hcap.1.abs.1 m
  have hin : r ∈ (runSpec [] ops).1.routesOf m := hperm.mem_iff.mp hreg
  unfold Store.routesOf at hin
  simp only [List.mem_map, List.mem_filter] at hin
  obtain ⟨e, ⟨he, _⟩, rfl⟩ := hin
  exact hcap.2 e he

end Fox.C16
