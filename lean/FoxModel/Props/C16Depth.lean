import FoxModel.Props.C02
import FoxModel.Util
/-
  Property C16, the capacity *hints*. `allocateContext` (tree.go) gives the stack of skipped alternatives of a pooled
  context the initial capacity `tree.depth`, and iter.go sizes its stack with the same number. `depth` is maintained by
  `updateMaxDepth(result.depth + addDepth)` on insertion: the number of edges followed to the place of the insertion.
  It is a hint, not a bound: splitting a node pushes the whole subtree below it one level down without `depth` learning
  about it, so the tree can be higher than `depth` says (witness below, replayed on the implementation: the `depth=`
  field of the tree dump is compared by the ops / hist / bulk streams in every case, and the Go program of
  DESIGN §5-C16 prints height 4, depth 3 for the same history). This is why no theorem "stack ≤ depth" is stated (it is
  false, in the model and in the code), why the stack may grow on the first requests of a fresh context, and why the
  property - and `testing.AllocsPerRun` of the alloc stream - speak about the steady state.
-/
namespace Fox.C16
open Fox Fox.Model Fox.C02 Fox.Util

mutual
/-- number of edges on the longest path below a node -/
def height : Node → Nat
  | .mk _ _ cs => heightKids cs
def heightKids : List Node → Nat
  | [] => 0
  | c :: cs => max (height c + 1) (heightKids cs)
end

/-- GET /ab, /abcd, /abcdef (a chain three edges deep), then /a: the node "/ab" is split -/
def depthHist : List Op :=
  [.handle GET { hid := 1, pattern := [.lit 47, .lit 97, .lit 98] },
   .handle GET { hid := 2, pattern := [.lit 47, .lit 97, .lit 98, .lit 99, .lit 100] },
   .handle GET { hid := 3, pattern := [.lit 47, .lit 97, .lit 98, .lit 99, .lit 100, .lit 101, .lit 102] },
   .handle GET { hid := 4, pattern := [.lit 47, .lit 97] }]

/-- `depth` is only a hint: after this history the GET tree is four edges deep while `depth` is three -/
theorem depth_is_a_hint_not_a_bound :
    ∃ h : List Op, (∀ op ∈ h, op.valid = true) ∧
      (runModel newTree h).1.depth < ((methodRoot (runModel newTree h).1.roots GET).map height).getD 0 :=
  ⟨depthHist, by decide, by decide⟩

#guard (runModel newTree depthHist).1.depth == 3
#guard ((methodRoot (runModel newTree depthHist).1.roots GET).map height) == some 4

/-! what does hold: `depth` never decreases (a running maximum; deletions and truncations do not lower it) -/

theorem insert_depth {t t' : Tree} {m : Bytes} {r : Route} {c : InsCase} (h : t.insert m r = .ok (t', c)) :
    t.depth ≤ t'.depth := by
  unfold Tree.insert at h
  simp only at h
  split at h
  · cases h
  · split at h
    · cases h
    · simp only [Except.ok.injEq, Prod.mk.injEq] at h
      rw [← h.1]; exact Nat.le_max_left _ _

theorem update_depth {t t' : Tree} {m : Bytes} {r : Route} (h : t.update m r = some t') : t'.depth = t.depth := by
  unfold Tree.update at h
  split at h
  · cases h
  · split at h
    · cases h
    · simp only [Option.some.injEq] at h; rw [← h]

theorem remove_depth {t t' : Tree} {m : Bytes} {toks : List Tok} {old : Route} {c : RemCase}
    (h : t.remove m toks = some (t', old, c)) : t'.depth = t.depth := by
  unfold Tree.remove at h
  split at h
  · cases h
  · split at h
    · cases h
    · simp only [Option.some.injEq, Prod.mk.injEq] at h; rw [← h.1]

theorem truncate_depth (t : Tree) (ms : List Bytes) : (t.truncate ms).depth = t.depth := by
  unfold Tree.truncate
  split <;> rfl

theorem step_depth (t : Tree) (op : Op) : t.depth ≤ (stepModel t op).1.depth := by
  cases op with
  | handle m r =>
    simp only [stepModel]
    cases hi : t.insert m r with
    | error e => cases e <;> exact Nat.le_refl _
    | ok x => obtain ⟨t', c⟩ := x; exact insert_depth hi
  | update m r =>
    simp only [stepModel]
    cases hu : t.update m r with
    | none => exact Nat.le_refl _
    | some t' => exact Nat.le_of_eq (update_depth hu).symm
  | delete m pat =>
    simp only [stepModel]
    cases hr : t.remove m pat with
    | none => exact Nat.le_refl _
    | some x => obtain ⟨t', old, c⟩ := x; exact Nat.le_of_eq (remove_depth hr).symm
  | truncate ms => simp only [stepModel]; exact Nat.le_of_eq (truncate_depth t ms).symm

/-- over any history the capacity hint only grows -/
theorem depth_monotone (t : Tree) (ops : List Op) : t.depth ≤ (runModel t ops).1.depth := by
  induction ops generalizing t with
  | nil => exact Nat.le_refl _
  | cons op ops ih => exact Nat.le_trans (step_depth t op) (ih _)

end Fox.C16
