import FoxModel.Generated.Consts
import FoxModel.Spec.Clean
import FoxModel.Model.Clean
import FoxModel.Lemmas.CleanSpec
import FoxModel.Lemmas.CleanModel
import FoxModel.Generated.Clean
/-
  Property C17 — CleanPath returns the canonical path.
-/
namespace Fox.C17
open Fox Fox.Spec.Clean

/-- the constant of path.go (regenerated on every run) is the one the model documents -/
theorem stackBufSize_tie : Generated.c_stackBufSize = (Model.Clean.stackBufSize : Int) ∧
    Generated.cleanPathStackBuf = (Model.Clean.stackBufSize : Int) := by decide

/-- For every input the lexical result is in canonical form: the root, or "/" followed by proper elements (non-empty,
    not ".", not "..", slash-free) joined by single slashes, with at most one trailing slash. -/
theorem clean_canonical (p : Bytes) : Canonical (clean p) := by
  unfold clean
  by_cases h : stack p = []
  · simp [h, Canonical]
  · right
    refine ⟨stack p, h, stack_good p, ?_⟩
    simp only [h, if_false]
    cases wantsTrailing p <;> simp

/-- Uniqueness: a canonical path is its own canonical form (cleaning changes nothing on it). -/
theorem clean_of_canonical {q : Bytes} (hq : Canonical q) : clean q = q := by
  rcases hq with rfl | ⟨st, hne, hgood, hq⟩
  · decide
  · have hns : ∀ e ∈ st, SLASH ∉ e := fun e he => (hgood e he).2.2.2
    have hlast : GoodElem (st.getLast hne) := hgood _ (List.getLast_mem hne)
    rcases hq with rfl | rfl
    · have hsp : splitSlash (join st) = [] :: st := splitSlash_join hns
      have hstack : stack (join st) = st := by
        simp [stack, hsp, push_nil, foldl_push_of_good hgood]
      have htr : wantsTrailing (join st) = false := by
        unfold wantsTrailing
        rw [hsp]
        have : ([] :: st).getLast? = some (st.getLast hne) := by
          rw [List.getLast?_cons, List.getLast?_eq_some_getLast hne]; rfl
        simp only [this]
        have h1 := hlast.1
        have h2 := hlast.2.1
        simp [h1, h2]
      simp [clean, hstack, hne, htr]
    · have hsp : splitSlash (join st ++ [SLASH]) = ([] :: st) ++ [[]] := by
        have := splitSlash_append_slash (join st) []
        rw [this, splitSlash_join hns]; simp [splitSlash]
      have hstack : stack (join st ++ [SLASH]) = st := by
        simp [stack, hsp, push_nil, foldl_push_of_good hgood]
      have htr : wantsTrailing (join st ++ [SLASH]) = true := by
        unfold wantsTrailing
        rw [hsp, List.getLast?_append]
        simp
      simp [clean, hstack, hne, htr]

/-- CleanPath's specification is idempotent. -/
theorem clean_idem (p : Bytes) : clean (clean p) = clean p :=
  clean_of_canonical (clean_canonical p)

/-- The canonical paths are exactly the fixed points of cleaning: this is the test `path == CleanPath(path)`. -/
theorem canonical_iff_fixed (q : Bytes) : Canonical q ↔ clean q = q :=
  ⟨clean_of_canonical, fun h => h ▸ clean_canonical q⟩

/-- Two canonical paths with the same canonical form are equal (the canonical form is unique). -/
theorem canonical_unique {q₁ q₂ : Bytes} (h₁ : Canonical q₁) (h₂ : Canonical q₂) (h : clean q₁ = clean q₂) : q₁ = q₂ := by
  rw [clean_of_canonical h₁, clean_of_canonical h₂] at h
  exact h

/-- Trailing slash: unless the result is the root, it ends with a slash exactly when the last element of the input
    (after splitting on '/') is empty or ".". -/
theorem clean_trailing_iff (p : Bytes) (hroot : clean p ≠ [SLASH]) :
    (clean p).getLast? = some SLASH ↔
      ((splitSlash p).getLast? = some [] ∨ (splitSlash p).getLast? = some [DOT]) := by
  have hne : stack p ≠ [] := by
    intro h; apply hroot; simp [clean, h]
  have hw : wantsTrailing p = true ↔
      ((splitSlash p).getLast? = some [] ∨ (splitSlash p).getLast? = some [DOT]) := by
    simp [wantsTrailing]
  rw [← hw]
  unfold clean
  simp only [hne, if_false]
  cases hwt : wantsTrailing p
  · simp
    exact getLast?_join_ne_slash hne (stack_good p)
  · simp


/-- the last element of the split is empty exactly when the input is empty or ends with a slash -/
theorem lastElem_nil_iff (p : Bytes) :
    (splitSlash p).getLast? = some [] ↔ (p = [] ∨ p.getLast? = some SLASH) := Spec.Clean.lastElem_nil_iff p

/-- the last element of the split is "." exactly when the input is "." or ends with "/." -/
theorem lastElem_dot_iff (p : Bytes) :
    (splitSlash p).getLast? = some [DOT] ↔ (p = [DOT] ∨ ∃ x, p = x ++ [SLASH, DOT]) := Spec.Clean.lastElem_dot_iff p

/-! ### the code of path.go (index/buffer model) against the lexical definition -/

/-- The single-pass cleaner of path.go (indices `r`/`w`, lazily materialised buffer, `bufApp`, the backtracking scan of
    the '..' case; every index, slice and buffer write checked) returns exactly the lexical canonical form, for every
    byte string of every length. Proved by the loop invariant `Model.Clean.Inv`. -/
theorem cleanPath_eq_spec (p : Bytes) : Model.Clean.cleanPath p = .ok (clean p) :=
  Model.Clean.cleanPath_eq_spec p

/-- No index, slice or buffer write of CleanPath is ever out of range: CleanPath never panics. -/
theorem cleanPath_total (p : Bytes) : Model.Clean.cleanPath p ≠ .panic := by
  rw [cleanPath_eq_spec]; intro h; cases h

/-- CleanPath returns a canonical path for every input. -/
theorem cleanPath_canonical (p : Bytes) : ∃ q, Model.Clean.cleanPath p = .ok q ∧ Canonical q :=
  ⟨clean p, cleanPath_eq_spec p, clean_canonical p⟩

/-- CleanPath is idempotent: applied to its own result it returns that result. -/
theorem cleanPath_idem (p q : Bytes) (h : Model.Clean.cleanPath p = .ok q) : Model.Clean.cleanPath q = .ok q := by
  rw [cleanPath_eq_spec] at h
  injection h with h
  rw [cleanPath_eq_spec, ← h, clean_idem]

/-- The guard `path == CleanPath(path)` that fox.go puts in front of the trailing-slash redirect holds exactly for
    the canonical paths: a redirect is only ever issued for a request path that is already in canonical form. -/
theorem redirect_guard_iff (path : Bytes) : Model.Clean.cleanPath path = .ok path ↔ Canonical path := by
  rw [cleanPath_eq_spec, canonical_iff_fixed]
  constructor
  · intro h; injection h
  · intro h; rw [h]

/-- ServeHTTP (regenerated from fox.go on every run): `tsrRedirect` is called at exactly one site, and that site is
    inside an `if` whose condition has the conjunct `path == CleanPath(path)`, `path` being the string the lookup ran on. -/
theorem redirect_guard_tie :
    Generated.tsrRedirectCallSites = 1 ∧ Generated.tsrRedirectGuardedByClean = true ∧
    Generated.tsrLookupArgIsPath = true := by decide

/-! ### non-vacuity -/

-- "/a/./b/../../c/" ↦ "/c/", "a/.." ↦ "/", "/../a//b/." ↦ "/a/b/"
example : clean [47, 97, 47, 46, 47, 98, 47, 46, 46, 47, 46, 46, 47, 99, 47] = [47, 99, 47] := by decide
example : clean [97, 47, 46, 46] = [47] := by decide
example : clean [47, 46, 46, 47, 97, 47, 47, 98, 47, 46] = [47, 97, 47, 98, 47] := by decide
example : Canonical [SLASH, 97, SLASH] := (canonical_iff_fixed _).mpr (by decide)
example : ¬ Canonical [SLASH, DOT, DOT, SLASH, 97] := fun h => absurd ((canonical_iff_fixed _).mp h) (by decide)

end Fox.C17
