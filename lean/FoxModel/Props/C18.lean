import FoxModel.Generated.ClientIP
import FoxModel.Spec.ClientIP
import FoxModel.Model.ClientIP
import FoxModel.Driver.ClientIP
import FoxModel.Lemmas.ClientIP
/-
  Property C18 — client-IP resolvers return exactly the designated, unspoofable entry.

  `Model.ClientIP` follows clientip.go function by function; `Spec.ClientIP` is the documented reading over the
  flattened list of trimmed header items. The theorems say that they agree (`Res.toOption` forgets which error),
  that text an attacker places to the left cannot change a successful result of the three rightmost strategies,
  and that the CIDR tables of the source (regenerated on every run) stay inside the IANA special-purpose blocks.
  Entry parsing (`parseItem`, `trimSpace`) is the same executable function on both sides: it is re-implemented from
  the Go standard library and only sampled against it by the `clientip` stream.
-/
namespace Fox.C18
open Fox Fox.Model.ClientIP Fox.Lemmas.ClientIP
open Fox.Spec.ClientIP (splitOn entries)

abbrev SpecCI := @Fox.Spec.ClientIP.entries

/-! ### iterators -/

/-- the forward header iterator yields the parsed entries in order; the backward iterator (last line first, each
    line split from the right) yields exactly the same values in reverse order -/
theorem entries_backward (k : HKey) (values : List Bytes) :
    ipAddrSeq k values = (entries trimSpace values).map (parseItem k) ∧
    backwardIpAddrSeq k values = ((entries trimSpace values).map (parseItem k)).reverse := by
  constructor
  · simp [ipAddrSeq, entries, List.map_flatMap, splitFwd_eq_splitOn, Spec.ClientIP.COMMA, COMMA, Function.comp_def]
  · simp only [backwardIpAddrSeq, entries, List.map_flatMap, List.reverse_flatMap, splitBwd_eq_reverse]
    congr 1
    funext v
    simp [Function.comp_def, List.map_reverse, Spec.ClientIP.COMMA, COMMA]

/-- on byte strings: `BackwardSplitStringSeq` = reverse of `SplitStringSeq` = reverse of the separated items -/
theorem split_backward (sep : UInt8) (s : Bytes) :
    splitFwd sep s = splitOn sep s ∧ splitBwd sep s = (splitFwd sep s).reverse := by
  rw [splitFwd_eq_splitOn, splitBwd_eq_reverse]; exact ⟨rfl, rfl⟩

/-! ### strategies -/

theorem toOption_eq_some {r : Res} {a : Addr} : r.toOption = some a ↔ r = .ok a := by
  cases r <;> simp [Res.toOption]

theorem firstOutside_toOption (rs : List Cidr) (e : ErrKind) (p : Bytes → Option Addr) (es : List Bytes) :
    (firstOutside rs e (es.map p)).toOption = (es.filterMap p).find? (fun a => !inRanges rs a.ip) := by
  induction es with
  | nil => simp [firstOutside, Res.toOption]
  | cons x t ih =>
    simp only [List.map_cons, List.filterMap_cons]
    cases hp : p x with
    | none => simp [firstOutside, ih]
    | some a =>
      by_cases h : inRanges rs a.ip = true
      · simp [firstOutside, h, ih]
      · simp [firstOutside, h, Res.toOption]

theorem firstOutside_ne (rs : List Cidr) (e : ErrKind) (l : List (Option Addr)) : firstOutside rs e l ≠ .nilNil := by
  induction l with
  | nil => simp [firstOutside]
  | cons y t ih =>
    cases y with
    | none => simpa [firstOutside] using ih
    | some a =>
      simp only [firstOutside]
      split
      · simp
      · exact ih

theorem firstUntrusted_ne (rs : List Cidr) (l : List (Option Addr)) : firstUntrusted rs l ≠ .nilNil := by
  induction l with
  | nil => simp [firstUntrusted]
  | cons y t ih =>
    cases y with
    | none => simp [firstUntrusted]
    | some a =>
      simp only [firstUntrusted]
      split
      · exact ih
      · simp

/-- RightmostTrustedCount returns the parse of the `n`-th entry from the right; an error if there are fewer than `n`
    entries or that entry is not an address — never another entry -/
theorem trusted_count (k : HKey) (n : Nat) (hn : 0 < n) (values : List Bytes) :
    (rightmostTrustedCount k n values).toOption =
      Spec.ClientIP.trustedCount (parseItem k) n (entries trimSpace values) := by
  simp only [rightmostTrustedCount, at?_eq_getElem?, (entries_backward k values).2,
    Spec.ClientIP.trustedCount, Spec.ClientIP.nthFromRight]
  generalize entries trimSpace values = es
  by_cases hle : n ≤ es.length
  · have h1 : n - 1 < (es.map (parseItem k)).length := by simp; omega
    rw [List.getElem?_reverse h1]
    have h2 : (es.map (parseItem k)).length - 1 - (n - 1) = es.length - n := by simp; omega
    have h3 : es.length - n < es.length := by omega
    simp only [h2, hn, hle, and_self, if_true, List.getElem?_map, List.getElem?_eq_getElem h3, Option.map_some,
      Option.bind_some]
    cases parseItem k es[es.length - n] <;> simp [Res.toOption]
  · have h1 : (es.map (parseItem k)).reverse.length ≤ n - 1 := by simp; omega
    simp [List.getElem?_eq_none h1, hle, Res.toOption]

/-- RightmostNonPrivate returns the rightmost entry that is an address outside the trusted ranges, else an error -/
theorem non_private (k : HKey) (rs : List Cidr) (values : List Bytes) :
    (rightmostNonPrivate k rs values).toOption =
      Spec.ClientIP.nonPrivate (parseItem k) (fun a => inRanges rs a.ip) (entries trimSpace values) := by
  unfold rightmostNonPrivate
  split
  · rw [(entries_backward k values).2, ← List.map_reverse, firstOutside_toOption, Spec.ClientIP.nonPrivate,
      List.filterMap_reverse, find?_reverse_eq_getLast?_filter]
  · rename_i h
    have : values = [] := by cases values <;> simp_all
    subst this; simp [Res.toOption, Spec.ClientIP.nonPrivate, entries]

theorem firstUntrusted_toOption (rs : List Cidr) (p : Bytes → Option Addr) (es : List Bytes) :
    (firstUntrusted rs (es.map p)).toOption =
      (es.find? (fun e => !Spec.ClientIP.isTrusted p (fun a => inRanges rs a.ip) e)).bind p := by
  induction es with
  | nil => simp [firstUntrusted, Res.toOption]
  | cons e t ih =>
    simp only [List.map_cons, List.find?_cons, Spec.ClientIP.isTrusted]
    cases hp : p e with
    | none => simp [firstUntrusted, Res.toOption, hp]
    | some a =>
      by_cases h : inRanges rs a.ip = true
      · simp [firstUntrusted, h, ih, Spec.ClientIP.isTrusted]
      · simp [firstUntrusted, h, Res.toOption, hp]

/-- RightmostTrustedRange returns the first entry from the right that is not a trusted address; if that entry is not
    an address at all (or every entry is trusted, or there is none) the result is an error — it never skips it -/
theorem trusted_range (k : HKey) (rs : List Cidr) (values : List Bytes) :
    (rightmostTrustedRange k (some rs) values).toOption =
      Spec.ClientIP.trustedRange (parseItem k) (fun a => inRanges rs a.ip) (entries trimSpace values) := by
  simp only [rightmostTrustedRange, (entries_backward k values).2, Spec.ClientIP.trustedRange]
  rw [← List.map_reverse, firstUntrusted_toOption]

/-- LeftmostNonPrivate returns the first address that is not excluded among the first `limit` entries, else an error -/
theorem leftmost (k : HKey) (limit : Nat) (rs : List Cidr) (values : List Bytes) :
    (leftmostNonPrivate k limit rs values).toOption =
      Spec.ClientIP.leftmost (parseItem k) (fun a => inRanges rs a.ip) limit (entries trimSpace values) := by
  unfold leftmostNonPrivate
  split
  · rw [(entries_backward k values).1, take, ← List.map_take, firstOutside_toOption, Spec.ClientIP.leftmost]
  · rename_i h
    have : values = [] := by cases values <;> simp_all
    subst this; simp [Res.toOption, Spec.ClientIP.leftmost, entries]

/-- SingleIPHeader parses the last header instance (a missing or empty header is an error) -/
theorem single (values : List Bytes) :
    (singleIPHeader values).toOption = Spec.ClientIP.single parseIPAddr? values := by
  unfold singleIPHeader Spec.ClientIP.single parseIPAddr?
  cases values.getLast? with
  | none => simp [Res.toOption]
  | some v =>
    by_cases hv : v = []
    · simp [hv, Res.toOption]
    · simp only [hv, if_false, Option.bind_some]
      cases parseIPAddr v <;> simp [Res.toOption]

theorem resolve_ne_nilNil (req : Req) (r : Resolver) : resolve req r ≠ .nilNil := by
  cases r with
  | remote => simp only [resolve, remoteAddr]; (repeat' split) <;> simp
  | single name => simp only [resolve, singleIPHeader]; (repeat' split) <;> simp
  | leftmost k limit opts =>
    simp only [resolve, leftmostNonPrivate]
    (repeat' split) <;> first | exact firstOutside_ne _ _ _ | simp
  | nonPrivate k opts =>
    simp only [resolve, rightmostNonPrivate]
    (repeat' split) <;> first | exact firstOutside_ne _ _ _ | simp
  | count k n => simp only [resolve, rightmostTrustedCount]; (repeat' split) <;> simp
  | range k ranges =>
    simp only [resolve, rightmostTrustedRange]
    (repeat' split) <;> first | exact firstUntrusted_ne _ _ | simp

theorem chainLoop_toOption (results : List Res) (errs : Option (List ErrKind))
    (h : ∀ r ∈ results, r ≠ .cfgErr ∧ r ≠ .nilNil) (hne : results ≠ [] ∨ errs.isSome) :
    (chainLoop results errs).toOption = Spec.ClientIP.chain (results.map Res.toOption) ∧
    chainLoop results errs ≠ .nilNil := by
  induction results generalizing errs with
  | nil =>
    cases errs with
    | none => simp at hne
    | some ks => simp [chainLoop, Res.toOption, Spec.ClientIP.chain]
  | cons r t ih =>
    have ht : ∀ r ∈ t, r ≠ .cfgErr ∧ r ≠ .nilNil := fun r hr => h r (List.mem_cons_of_mem _ hr)
    have hr := h r (List.mem_cons_self ..)
    cases r with
    | ok a => simp [chainLoop, Res.toOption, Spec.ClientIP.chain]
    | err ks =>
      have := ih (some (errs.getD [] ++ ks)) ht (Or.inr rfl)
      simpa [chainLoop, Res.toOption, Spec.ClientIP.chain] using this
    | cfgErr => exact absurd rfl hr.1
    | nilNil => exact absurd rfl hr.2

/-- a non-empty Chain of constructible resolvers returns the first success, else an error (all errors joined);
    it never yields `(nil, nil)`. (The empty chain `NewChain()` does return `(nil, nil)`: see `chain_empty`.) -/
theorem chain (req : Req) (rs : List Resolver) (hne : rs ≠ [])
    (hc : ∀ r ∈ rs, resolve req r ≠ .cfgErr) :
    (Model.ClientIP.chain req rs).toOption = Spec.ClientIP.chain (rs.map fun r => (resolve req r).toOption) ∧
    Model.ClientIP.chain req rs ≠ .nilNil := by
  have hany : (rs.map (resolve req)).any (· == Res.cfgErr) = false := by
    simp only [List.any_eq_false, List.mem_map]
    rintro x ⟨r, hr, rfl⟩
    simpa using hc r hr
  have hall : ∀ x ∈ rs.map (resolve req), x ≠ Res.cfgErr ∧ x ≠ Res.nilNil := by
    intro x hx
    simp only [List.mem_map] at hx
    obtain ⟨r, hr, rfl⟩ := hx
    exact ⟨hc r hr, resolve_ne_nilNil req r⟩
  have := chainLoop_toOption (rs.map (resolve req)) none hall (Or.inl (by simpa using hne))
  simp only [Model.ClientIP.chain, hany]
  simpa [List.map_map, Function.comp_def] using this

/-- the degenerate configuration `NewChain()` (no resolver) returns neither an address nor an error -/
theorem chain_empty (req : Req) : Model.ClientIP.chain req [] = .nilNil := by
  simp [Model.ClientIP.chain, chainLoop]

/-- every resolver whose constructor succeeds returns what the declarative reading (`Driver.ClientIP.specResolve`, the
    `S=` column of the correspondence check) designates, or an error -/
theorem resolve_eq_spec (req : Req) (r : Resolver) (hc : Driver.ClientIP.isCfgErr r = false) :
    (resolve req r).toOption = Driver.ClientIP.specResolve req r := by
  cases r with
  | remote =>
    simp only [resolve, remoteAddr, Driver.ClientIP.specResolve, parseIPAddr?]
    cases h : parseIPAddr req.remoteAddr with
    | ok a => simp [Res.toOption]
    | error e => cases e <;> simp [Res.toOption]
  | single name => exact single _
  | leftmost k limit opts =>
    have : limit ≠ 0 := by simpa [Driver.ClientIP.isCfgErr] using hc
    simp only [resolve, this, if_false, Driver.ClientIP.specResolve]
    exact leftmost ..
  | nonPrivate k opts => exact non_private ..
  | count k n =>
    have : n ≠ 0 := by simpa [Driver.ClientIP.isCfgErr] using hc
    simp only [resolve, this, if_false, Driver.ClientIP.specResolve]
    exact trusted_count k n (Nat.pos_of_ne_zero this) _
  | range k ranges =>
    cases ranges with
    | none => simp [resolve, rightmostTrustedRange, Driver.ClientIP.specResolve, Res.toOption]
    | some rs => exact trusted_range ..

/-! ### spoof freedom -/

/-- what the attacker's additions do to the entries: lines `pre` in front and text `x,` in front of the first line
    only add entries on the left -/
theorem entries_prepend (trim : Bytes → Bytes) (pre ls : List Bytes) (x l : Bytes) :
    entries trim (pre ++ [x ++ Spec.ClientIP.COMMA :: l] ++ ls) =
      (entries trim pre ++ (splitOn Spec.ClientIP.COMMA x).map trim) ++ entries trim (l :: ls) := by
  simp [entries, splitOn_append_sep]

variable {α : Type}

theorem spec_count_append (p : Bytes → Option α) (n : Nat) (A B : List Bytes) (a : α)
    (h : Spec.ClientIP.trustedCount p n B = some a) : Spec.ClientIP.trustedCount p n (A ++ B) = some a := by
  simp only [Spec.ClientIP.trustedCount, Spec.ClientIP.nthFromRight] at h ⊢
  by_cases hc : 0 < n ∧ n ≤ B.length
  · have hc' : 0 < n ∧ n ≤ (A ++ B).length := ⟨hc.1, by simp; omega⟩
    simp only [hc, hc', and_self, if_true] at h ⊢
    have : (A ++ B).length - n = A.length + (B.length - n) := by simp; omega
    rw [this, List.getElem?_append_right (by omega)]
    simpa using h
  · simp [hc] at h

theorem spec_nonPrivate_append (p : Bytes → Option α) (inR : α → Bool) (A B : List Bytes) (a : α)
    (h : Spec.ClientIP.nonPrivate p inR B = some a) : Spec.ClientIP.nonPrivate p inR (A ++ B) = some a := by
  simp only [Spec.ClientIP.nonPrivate] at h ⊢
  simp [List.filterMap_append, List.filter_append, List.getLast?_append, h]

theorem spec_range_append (p : Bytes → Option α) (inR : α → Bool) (A B : List Bytes) (a : α)
    (h : Spec.ClientIP.trustedRange p inR B = some a) : Spec.ClientIP.trustedRange p inR (A ++ B) = some a := by
  simp only [Spec.ClientIP.trustedRange] at h ⊢
  rw [List.reverse_append, List.find?_append]
  cases hf : B.reverse.find? (fun e => !Spec.ClientIP.isTrusted p inR e) with
  | none => simp [hf] at h
  | some e => simpa [hf] using h

/-- Spoof freedom of the three rightmost strategies. Let the header lines be `l :: ls` and let the resolver succeed
    with address `a`. Whatever lines `pre` an attacker puts in front and whatever text `x` (any bytes, commas
    included) he puts in front of the first line, the resolver still returns exactly `a`. -/
theorem spoof_free (k : HKey) (pre ls : List Bytes) (x l : Bytes) (a : Addr) :
    (∀ n, 0 < n → rightmostTrustedCount k n (l :: ls) = .ok a →
        rightmostTrustedCount k n (pre ++ [x ++ COMMA :: l] ++ ls) = .ok a) ∧
    (∀ rs, rightmostNonPrivate k rs (l :: ls) = .ok a →
        rightmostNonPrivate k rs (pre ++ [x ++ COMMA :: l] ++ ls) = .ok a) ∧
    (∀ rs, rightmostTrustedRange k rs (l :: ls) = .ok a →
        rightmostTrustedRange k rs (pre ++ [x ++ COMMA :: l] ++ ls) = .ok a) := by
  have hC : COMMA = Spec.ClientIP.COMMA := rfl
  refine ⟨?_, ?_, ?_⟩
  · intro n hn h
    rw [← toOption_eq_some, trusted_count k n hn] at h ⊢
    rw [hC, entries_prepend]
    exact spec_count_append _ _ _ _ _ h
  · intro rs h
    rw [← toOption_eq_some, non_private] at h ⊢
    rw [hC, entries_prepend]
    exact spec_nonPrivate_append _ _ _ _ _ h
  · intro rs h
    cases rs with
    | none => simp [rightmostTrustedRange] at h
    | some rs =>
      rw [← toOption_eq_some, trusted_range] at h ⊢
      rw [hC, entries_prepend]
      exact spec_range_append _ _ _ _ _ h

/-! ### entry parsing -/

/-- `ParseIPAddr` never returns the unspecified address (`::`, `0.0.0.0`) -/
theorem parse_not_unspecified (s : Bytes) (a : Addr) (h : parseIPAddr s = .ok a) : isUnspecified a.ip = false := by
  unfold parseIPAddr at h
  simp only at h
  split at h
  · simp at h
  · split at h
    · simp at h
    · rename_i hu
      simp at h; subst h; simpa using hu

/-- a Forwarded list item without a `for=` parameter among its first four parameters is not an address -/
theorem forwarded_needs_for (fwd : Bytes) (h : findFor (take 4 (splitFwd SEMI fwd)) = []) :
    parseForwardedListItem fwd = none := by
  simp [parseForwardedListItem, h, trimSpace, trimRunes, trimMatchedEnds]

/-! ### default ranges -/

/-- containment decided on (family, prefix value, length) is containment of address sets -/
theorem cidrSubset_sound (c : Nat × Nat × Nat) (b : Spec.ClientIP.Block) (ip : Nat)
    (hs : Spec.ClientIP.cidrSubset c b = true) (hc : contains (Cidr.ofTriple c) ip = true) :
    Spec.ClientIP.inBlock b ip = true := by
  obtain ⟨cf, ca, cl⟩ := c
  simp only [Spec.ClientIP.cidrSubset, Bool.and_eq_true, beq_iff_eq, decide_eq_true_eq] at hs
  obtain ⟨⟨⟨hf, hl1⟩, hl2⟩, hp⟩ := hs
  simp only [Cidr.ofTriple] at hc
  subst hf
  have key : ∀ (bits x : Nat), cl ≤ bits → x >>> (bits - cl) = ca >>> (bits - cl) →
      ca >>> (bits - b.len) = b.addr >>> (bits - b.len) → x >>> (bits - b.len) = b.addr >>> (bits - b.len) := by
    intro bits x hcl h1 h2
    have e : bits - b.len = (bits - cl) + (cl - b.len) := by omega
    rw [← h2, e, Nat.shiftRight_add, Nat.shiftRight_add, h1]
  unfold contains at hc
  unfold Spec.ClientIP.inBlock
  by_cases h4 : b.fam = 4
  · simp only [h4, if_true, Bool.and_eq_true, beq_iff_eq] at hc hl2 hp ⊢
    exact ⟨hc.1, key 32 _ hl2 hc.2 hp⟩
  · simp only [h4, if_false] at hc hl2 hp ⊢
    split at hc
    · simp only [Bool.and_eq_true, beq_iff_eq] at hc
      simpa using key 128 _ hl2 hc.2 hp
    · simp only [Bool.and_eq_true, beq_iff_eq] at hc
      simpa using key 128 _ hl2 hc.2 hp

/-- decided on the regenerated tables: every CIDR of every table lies inside a hand-written IANA block -/
theorem default_tables_subset :
    (Generated.cidrTables.all fun t => t.all fun c =>
      Spec.ClientIP.ianaSpecialPurpose.any fun b => Spec.ClientIP.cidrSubset c b) = true := by
  decide +kernel

/-- The ranges trusted / excluded by default contain no globally routable address: every address that any CIDR of
    any package-level table of clientip.go (`privateAndLocalRanges`, `privateRange`, `loopbackRanges`,
    `linkLocalRanges`, regenerated from the source on every run) treats as contained lies in a block of the
    hand-written IANA special-purpose table. -/
theorem default_ranges_nonglobal (t : List (Nat × Nat × Nat)) (ht : t ∈ Generated.cidrTables)
    (c : Nat × Nat × Nat) (hc : c ∈ t) (ip : Nat) (h : contains (Cidr.ofTriple c) ip = true) :
    Spec.ClientIP.isSpecialPurpose ip = true := by
  have h1 := default_tables_subset
  simp only [List.all_eq_true] at h1
  have h2 := h1 t ht c hc
  simp only [List.any_eq_true] at h2
  obtain ⟨b, hb, hs⟩ := h2
  simp only [Spec.ClientIP.isSpecialPurpose, List.any_eq_true]
  exact ⟨b, hb, cidrSubset_sound c b ip hs h⟩

/-- the tables the model computes with are the four tables of the source, wired as in options.go / the constructors,
    and the header names are the ones of the source -/
theorem consts_tie :
    Generated.cidrTables = [Generated.privateAndLocalRanges, Generated.privateRange, Generated.loopbackRanges,
      Generated.linkLocalRanges] ∧
    Generated.cidrTableNames.map (·.map Char.ofNat) =
      ["privateAndLocalRanges".toList, "privateRange".toList, "loopbackRanges".toList, "linkLocalRanges".toList] ∧
    Generated.clientipOptionTables.map (fun p => (p.1.map Char.ofNat, p.2.map Char.ofNat)) =
      [("ExcludeLinkLocal".toList, "linkLocalRanges".toList), ("ExcludeLoopback".toList, "loopbackRanges".toList),
       ("ExcludePrivateNet".toList, "privateRange".toList), ("TrustLinkLocal".toList, "linkLocalRanges".toList),
       ("TrustLoopback".toList, "loopbackRanges".toList), ("TrustPrivateNet".toList, "privateRange".toList)] ∧
    Generated.clientipDefaultTables.map (fun p => (p.1.map Char.ofNat, p.2.map Char.ofNat)) =
      [("NewLeftmostNonPrivate".toList, "cfg.ipRanges,privateAndLocalRanges".toList),
       ("NewRightmostNonPrivate".toList, "cfg.ipRanges,privateAndLocalRanges".toList)] ∧
    Generated.xForwardedForHdr.map Char.ofNat = "X-Forwarded-For".toList ∧
    Generated.forwardedHdr.map Char.ofNat = "Forwarded".toList := by
  decide +kernel

/-! ### non-vacuity -/

def b (s : String) : Bytes := Util.ascii s
def perr (s : String) : Option ErrKind := match parseIPAddr (b s) with | .error e => some e | .ok _ => none

-- entry parsing as documented: ports, brackets, zones, quotes, `for=` (case-insensitive, within the first four
-- parameters), unspecified rejected
#guard parseIPAddr? (b "192.0.2.60:4711") = some ⟨0xffffc000023c, []⟩
#guard parseIPAddr? (b "[2001:db8:cafe::17%zone]:4711") = some ⟨0x20010db8cafe00000000000000000017, b "zone"⟩
#guard parseIPAddr? (b "2001:db8::1.2.3.4") = some ⟨0x20010db8000000000000000001020304, []⟩
#guard parseIPAddr? (b "::ffff:10.0.0.1") = parseIPAddr? (b "10.0.0.1")
#guard perr "0.0.0.0" = some .unspecified
#guard perr "[::]:80" = some .unspecified
#guard perr "1.2.3.04" = some .invalid
#guard perr "1:2:3:4:5:6:7:8:9" = some .invalid
#guard perr "1::2::3" = some .invalid
#guard parseItem .fwd (b "For=\"[2001:db8:cafe::17]:4711\"") = some ⟨0x20010db8cafe00000000000000000017, []⟩
#guard parseItem .fwd (b "by=203.0.113.43; proto=http ;host=h; fOr=192.0.2.60") = some ⟨0xffffc000023c, []⟩
#guard parseItem .fwd (b "a=1;b=2;c=3;d=4;for=192.0.2.60") = none
#guard parseItem .fwd (b "for=unknown") = none
#guard parseItem .fwd (b "192.0.2.60") = none
#guard trimSpace (b " \t1.1.1.1 \r\n") = b "1.1.1.1"
#guard entries trimSpace [b "1.1.1.1, 2.2.2.2", b "3.3.3.3"] = [b "1.1.1.1", b "2.2.2.2", b "3.3.3.3"]
#guard splitBwd COMMA (b "a,b,,c") = [b "c", [], b "b", b "a"]

def req (xff : List String) : Req := { headers := [(hdrName .xff, xff.map b)], remoteAddr := b "192.0.2.1:1" }

-- the strategies select different entries of the same header
#guard resolve (req ["1.1.1.1, 8.8.8.8, 10.0.0.1", "junk, 9.9.9.9,192.168.0.1"]) (.count .xff 2) = .ok ⟨0xffff09090909, []⟩
#guard resolve (req ["1.1.1.1, 8.8.8.8, 10.0.0.1", "junk, 9.9.9.9,192.168.0.1"]) (.count .xff 3) = .err [.countInvalid]
#guard resolve (req ["1.1.1.1, 8.8.8.8, 10.0.0.1", "junk, 9.9.9.9,192.168.0.1"]) (.count .xff 7) = .err [.countFew]
#guard resolve (req ["1.1.1.1, 8.8.8.8, 10.0.0.1", "junk, 9.9.9.9,192.168.0.1"]) (.nonPrivate .xff []) = .ok ⟨0xffff09090909, []⟩
#guard resolve (req ["1.1.1.1, 8.8.8.8, 10.0.0.1", "junk,192.168.0.1"]) (.nonPrivate .xff []) = .ok ⟨0xffff08080808, []⟩
#guard resolve (req ["1.1.1.1, 8.8.8.8, 10.0.0.1", "junk,192.168.0.1"]) (.range .xff (some [⟨4, 0xc0a80000, 16⟩])) = .err [.range]
#guard resolve (req ["1.1.1.1, 8.8.8.8, 10.0.0.1", "192.168.0.1"]) (.range .xff (some [⟨4, 0xc0a80000, 16⟩])) = .ok ⟨0xffff0a000001, []⟩
#guard resolve (req ["10.0.0.1, junk, 8.8.8.8, 1.1.1.1"]) (.leftmost .xff 3 []) = .ok ⟨0xffff08080808, []⟩
#guard resolve (req ["10.0.0.1, junk, 8.8.8.8, 1.1.1.1"]) (.leftmost .xff 2 []) = .err [.leftmost]
-- the default tables: 198.18.0.0/15 is private, the neighbouring public 192.18.0.0/15 is not
#guard resolve (req ["198.19.255.255"]) (.nonPrivate .xff []) = .err [.nonPrivate]
#guard resolve (req ["192.18.0.1"]) (.nonPrivate .xff []) = .ok ⟨0xffffc0120001, []⟩
#guard Spec.ClientIP.isSpecialPurpose 0xffffc0120001 = false
#guard Spec.ClientIP.isSpecialPurpose 0xffffc6120001 = true

end Fox.C18
