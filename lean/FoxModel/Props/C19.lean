import FoxModel.Generated.Options
import FoxModel.Lemmas.Options
import FoxModel.Props.C12
/-
  Property C19 — a route carries exactly the options it was created with.
-/
namespace Fox.C19
open Fox Fox.Model.MW Fox.Model.Opt Fox.Spec.Opt Fox.Lemmas.Opt Fox.Lemmas.MW

/-- the option constructors of options.go assign exactly the fields the model updates (regenerated on every run):
    per constructor the router / route fields written, the guard and value of every assignment of the two
    trailing-slash options, the effect of WithClientIPResolver by cases on its argument (symbolic evaluation of its body), the annotation key check, and what NewRoute copies from the router -/
theorem options_tie :
    Generated.optionWrites = [
      ("DefaultOptions", ["handleOptions", "mws"], []),
      ("WithAnnotation", [], ["annots"]),
      ("WithAutoOptions", ["handleOptions"], []),
      ("WithClientIPResolver", ["clientip"], ["clientip"]),
      ("WithIgnoreTrailingSlash", ["ignoreTrailingSlash", "redirectTrailingSlash"], ["ignoreTrailingSlash", "redirectTrailingSlash"]),
      ("WithMaxRouteParamKeyBytes", ["maxParamKeyBytes"], []),
      ("WithMaxRouteParams", ["maxParams"], []),
      ("WithMiddleware", ["mws"], ["mws"]),
      ("WithMiddlewareFor", ["mws"], []),
      ("WithNoMethod", ["handleMethodNotAllowed"], []),
      ("WithNoMethodHandler", ["handleMethodNotAllowed", "noMethod"], []),
      ("WithNoRouteHandler", ["noRouteBase"], []),
      ("WithOptionsHandler", ["autoOptions", "handleOptions"], []),
      ("WithRedirectTrailingSlash", ["ignoreTrailingSlash", "redirectTrailingSlash"], ["ignoreTrailingSlash", "redirectTrailingSlash"])] ∧
    Generated.optionNilChecks = ["WithAnnotation", "WithMiddleware", "WithMiddlewareFor", "WithNoMethodHandler", "WithNoRouteHandler", "WithOptionsHandler"] ∧
    Generated.assigns_WithRedirectTrailingSlash = [("route", "ignoreTrailingSlash", "enable", "false"), ("route", "redirectTrailingSlash", "", "enable"),
      ("router", "ignoreTrailingSlash", "enable", "false"), ("router", "redirectTrailingSlash", "", "enable")] ∧
    Generated.assigns_WithIgnoreTrailingSlash = [("route", "ignoreTrailingSlash", "", "enable"), ("route", "redirectTrailingSlash", "enable", "false"),
      ("router", "ignoreTrailingSlash", "", "enable"), ("router", "redirectTrailingSlash", "enable", "false")] ∧
    Generated.effect_WithClientIPResolver = [("route", "nil", "none"), ("route", "non-nil", "resolver"),
      ("router", "nil", "unchanged"), ("router", "non-nil", "resolver")] ∧
    Generated.annotationKeyCheck = "key == nil || !reflect.ValueOf(key).Comparable()" ∧
    Generated.newRouteInit = [("clientip", "$r.clientip"), ("hbase", "$p1"), ("hostSplit", "$r.parseRoute#1"),
      ("ignoreTrailingSlash", "$r.ignoreTrailingSlash"), ("mws", "slices.Clone($r.mws)"), ("pattern", "$p0"), ("psLen", "$r.parseRoute#0"),
      ("redirectTrailingSlash", "$r.redirectTrailingSlash")] := by
  decide

/-! ### the fold -/

theorem applyRouteOpts_valid (opts : List RouteOpt) (r : RouteCfg) (hv : ∀ o ∈ opts, optValid o = true) :
    ∃ r', applyRouteOpts r opts = .ok r' ∧
      r'.redirectTS = lastOr saysRedirect r.redirectTS opts ∧ r'.ignoreTS = lastOr saysIgnore r.ignoreTS opts ∧
      r'.clientip = lastOr saysResolver r.clientip opts ∧ r'.mws = r.mws ++ (opts.flatMap ownOf).map mkOwn ∧
      r'.pattern = r.pattern ∧ r'.toks = r.toks ∧ r'.hostToks = r.hostToks ∧
      (∀ k, k.reflexive = true →
        mapGet r'.annots k = lastOr (fun o => (saysAnnotation k o).map some) (mapGet r.annots k) opts) := by
  induction opts generalizing r with
  | nil => exact ⟨r, rfl, rfl, rfl, rfl, by simp, rfl, rfl, rfl, fun _ _ => rfl⟩
  | cons o os ih =>
    obtain ⟨r1, h0, h1, h2, h3, h4, h5, h6, h7, h8⟩ := applyRoute_valid r o (hv o List.mem_cons_self)
    obtain ⟨r2, g0, g1, g2, g3, g4, g5, g6, g7, g8⟩ := ih r1 (fun o' ho' => hv o' (List.mem_cons_of_mem _ ho'))
    refine ⟨r2, by simp [applyRouteOpts, h0, g0], ?_, ?_, ?_, ?_, by rw [g5, h5], by rw [g6, h6], by rw [g7, h7], ?_⟩
    · rw [g1, h1, lastOr_cons]
    · rw [g2, h2, lastOr_cons]
    · rw [g3, h3, lastOr_cons]
    · rw [g4, h4]; simp
    · intro k hk; rw [g8 k hk, h8 k hk, lastOr_cons]

theorem applyRouteOpts_invalid (opts : List RouteOpt) (r : RouteCfg) (hv : ∃ o ∈ opts, optValid o = false) :
    applyRouteOpts r opts = .invalidConfig := by
  induction opts generalizing r with
  | nil => simp at hv
  | cons o os ih =>
    cases ho : optValid o with
    | false => simp [applyRouteOpts, applyRoute_invalid r o ho]
    | true =>
      obtain ⟨r1, h0, _⟩ := applyRoute_valid r o ho
      have : ∃ o' ∈ os, optValid o' = false := by
        obtain ⟨o', hm, hf⟩ := hv
        rcases List.mem_cons.1 hm with rfl | hm
        · rw [ho] at hf; cases hf
        · exact ⟨o', hm, hf⟩
      simp [applyRouteOpts, h0, ih r1 this]

theorem exists_invalid (os : List RouteOpt) (hv : ¬ ∀ o ∈ os, optValid o = true) : ∃ o ∈ os, optValid o = false := by
  induction os with
  | nil => exact absurd (by simp) hv
  | cons o os ih =>
    cases ho : optValid o with
    | false => exact ⟨o, List.mem_cons_self, ho⟩
    | true =>
      have : ¬ ∀ o' ∈ os, optValid o' = true := fun h => hv (by
        intro o' hm
        rcases List.mem_cons.1 hm with rfl | hm
        · exact ho
        · exact h o' hm)
      obtain ⟨o', hm, hf⟩ := ih this
      exact ⟨o', List.mem_cons_of_mem _ hm, hf⟩

/-- **Fold.** `NewRoute` with a non-nil handler and a pattern that parses: if every option is well-formed the route is
    the router's configuration at creation time overridden field by field by the *last* option that speaks about the
    field — redirect/ignore flags (enabling one clears the other; disabling says nothing about the other), resolver
    (nil ⇒ none), own middleware appended in order behind the router's, annotations (last value per key) — with pattern,
    tokens and host split untouched; if some option is ill-formed (nil middleware, nil or unhashable annotation key) the
    result is ErrInvalidConfig. -/
theorem fold (cfg : RouterCfg) (p : Bytes) (toks : List Tok) (h : Nat) (opts : List RouteOpt)
    (hp : parsePattern p = some (toks, h)) (hg : ∀ m ∈ cfg.mws, m.g = true) :
    ((∀ o ∈ opts, optValid o = true) →
      ∃ r, newRoute cfg p false opts = .ok r ∧
        (⟨r.redirectTS, r.ignoreTS, r.clientip, r.own⟩ : RouteView) = routeView cfg opts ∧
        r.mws = cfg.mws ++ (opts.flatMap ownOf).map mkOwn ∧
        r.pattern = p ∧ r.toks = toks ∧ r.hostToks = h ∧
        (∀ k, k.reflexive = true → r.annotation k = annotationOf opts k)) ∧
    ((∃ o ∈ opts, optValid o = false) → newRoute cfg p false opts = .invalidConfig) := by
  constructor
  · intro hv
    obtain ⟨r, g0, g1, g2, g3, g4, g5, g6, g7, g8⟩ := applyRouteOpts_valid opts (routeDefaults cfg p toks h) hv
    refine ⟨r, by simp [newRoute, hp, g0], ?_, g4, g5, g6, g7, fun k hk => by
      rw [RouteCfg.annotation, g8 k hk]; simp [routeDefaults, mapGet, annotationOf]⟩
    simp only [routeView, RouteView.mk.injEq]
    refine ⟨g1, g2, g3, ?_⟩
    rw [RouteCfg.own, g4]
    simp only [routeDefaults, List.filter_append, List.map_append]
    have h1 : cfg.mws.filter (fun m => !m.g) = [] := by
      rw [List.filter_eq_nil_iff]; intro m hm; simp [hg m hm]
    have h2 : ∀ l : List Nat, ((l.map mkOwn).filter fun m => !m.g).map (·.id) = l := by
      intro l; induction l with
      | nil => rfl
      | cons i l ih => simp only [List.map_cons, List.filter_cons, mkOwn, Bool.not_false, if_true] at ih ⊢; rw [ih]
    rw [h1, h2]; rfl
  · intro hv
    simp [newRoute, hp, applyRouteOpts_invalid opts _ hv]

/-- **Last option wins.** Whatever came before: a final `WithIgnoreTrailingSlash(true)` leaves the route with ignore on and
    redirect off, a final `WithRedirectTrailingSlash(true)` the converse, a final `(false)` switches only its own mode
    off, a final `WithClientIPResolver(x)` makes `x` the resolver (nil ⇒ none), a final `WithAnnotation(k, v)` makes `v`
    the value of `k`. -/
theorem last_wins (cfg : RouterCfg) (opts : List RouteOpt) (b : Bool) (x : Option Nat) (k : AnnKey) (v : Nat) :
    (routeView cfg (opts ++ [.ignoreTS true])).ignoreTS = true ∧ (routeView cfg (opts ++ [.ignoreTS true])).redirectTS = false ∧
    (routeView cfg (opts ++ [.redirectTS true])).redirectTS = true ∧ (routeView cfg (opts ++ [.redirectTS true])).ignoreTS = false ∧
    (routeView cfg (opts ++ [.ignoreTS false])).ignoreTS = false ∧
    (routeView cfg (opts ++ [.ignoreTS false])).redirectTS = (routeView cfg opts).redirectTS ∧
    (routeView cfg (opts ++ [.redirectTS false])).redirectTS = false ∧
    (routeView cfg (opts ++ [.redirectTS false])).ignoreTS = (routeView cfg opts).ignoreTS ∧
    (routeView cfg (opts ++ [.clientIP x])).clientip = x ∧
    annotationOf (opts ++ [.annotation k v]) k = some v ∧
    (routeView cfg []) = ⟨cfg.redirectTS, cfg.ignoreTS, cfg.clientip, []⟩ := by
  simp [routeView, annotationOf, lastOr, List.filterMap_append, saysRedirect, saysIgnore, saysResolver, saysAnnotation]

/-- the two trailing-slash modes are never both on in a value produced by the option folds -/
theorem applyGlobal_exclusive (c c' : RouterCfg) (o : GlobalOpt) (h : applyGlobal c o = .ok c')
    (hc : (c.redirectTS && c.ignoreTS) = false) : (c'.redirectTS && c'.ignoreTS) = false := by
  cases o with
  | middleware ms => simp only [applyGlobal, ofAppend] at h; split at h <;> simp at h; subst h; exact hc
  | middlewareFor s ms => simp only [applyGlobal, ofAppend] at h; split at h <;> simp at h; subst h; exact hc
  | defaults => simp only [applyGlobal, Outcome.ok.injEq] at h; subst h; exact hc
  | autoOptions b => simp only [applyGlobal, Outcome.ok.injEq] at h; subst h; exact hc
  | noMethod b => simp only [applyGlobal, Outcome.ok.injEq] at h; subst h; exact hc
  | redirectTS b => simp only [applyGlobal, Outcome.ok.injEq] at h; subst h; cases b <;> simp_all
  | ignoreTS b => simp only [applyGlobal, Outcome.ok.injEq] at h; subst h; cases b <;> simp_all
  | clientIP r => cases r <;> (simp only [applyGlobal, Outcome.ok.injEq] at h; subst h; exact hc)
  | noRouteHandler n => cases n <;> simp [applyGlobal] at h; subst h; exact hc
  | noMethodHandler n => cases n <;> simp [applyGlobal] at h; subst h; exact hc
  | optionsHandler n => cases n <;> simp [applyGlobal] at h; subst h; exact hc

theorem newRouterFrom_exclusive (opts : List GlobalOpt) (c c' : RouterCfg) (h : newRouterFrom c opts = .ok c')
    (hc : (c.redirectTS && c.ignoreTS) = false) : (c'.redirectTS && c'.ignoreTS) = false := by
  induction opts generalizing c with
  | nil => simp [newRouterFrom] at h; subst h; exact hc
  | cons o os ih =>
    simp only [newRouterFrom] at h
    cases ho : applyGlobal c o with
    | ok c1 => rw [ho] at h; exact ih c1 h (applyGlobal_exclusive c c1 o ho hc)
    | invalidConfig => rw [ho] at h; cases h
    | invalidRoute => rw [ho] at h; cases h
    | panic => rw [ho] at h; cases h

theorem lastOr_exclusive (opts : List RouteOpt) (r i : Bool) (h : (r && i) = false) :
    (lastOr saysRedirect r opts && lastOr saysIgnore i opts) = false := by
  induction opts generalizing r i with
  | nil => exact h
  | cons o os ih =>
    rw [lastOr_cons, lastOr_cons]
    apply ih
    cases o with
    | redirectTS b => cases b <;> simp_all [saysRedirect, saysIgnore]
    | ignoreTS b => cases b <;> simp_all [saysRedirect, saysIgnore]
    | middleware ms => simpa [saysRedirect, saysIgnore] using h
    | clientIP x => simpa [saysRedirect, saysIgnore] using h
    | annotation k v => simpa [saysRedirect, saysIgnore] using h

/-- **Mutual exclusion.** A router built by `New` never has both trailing-slash modes on, and neither has any route
    created on it, whatever the global and route options were. -/
theorem ts_exclusive (gopts : List GlobalOpt) (cfg : RouterCfg) (hn : newRouter gopts = .ok cfg) (opts : List RouteOpt) :
    (cfg.redirectTS && cfg.ignoreTS) = false ∧
    ((routeView cfg opts).redirectTS && (routeView cfg opts).ignoreTS) = false := by
  have h1 := newRouterFrom_exclusive gopts {} cfg hn rfl
  exact ⟨h1, lastOr_exclusive opts _ _ h1⟩

/-- **Accessors.** For every route `NewRoute` returns: `Hostname()` followed by `Path()` is `Pattern()`, which is the
    pattern passed in; `ParamsLen()` is the number of wildcard tokens of the pattern; no option changes either. -/
theorem accessors (cfg : RouterCfg) (p : Bytes) (opts : List RouteOpt) (r : RouteCfg)
    (h : newRoute cfg p false opts = .ok r) :
    r.hostname ++ r.path = r.pattern ∧ r.pattern = p ∧
    (∃ toks, tokenize p = some toks ∧ r.paramsLen = (toks.filter isWild).length) := by
  unfold newRoute at h
  simp only [Bool.false_eq_true, if_false] at h
  cases hp : parsePattern p with
  | none => simp [hp] at h
  | some th =>
    obtain ⟨toks, hh⟩ := th
    simp only [hp] at h
    -- the options leave pattern, tokens and host split alone, valid or not
    have key : r.pattern = p ∧ r.toks = toks ∧ r.hostToks = hh := by
      by_cases hv : ∀ o ∈ opts, optValid o = true
      · obtain ⟨r', g0, _, _, _, _, g5, g6, g7, _⟩ := applyRouteOpts_valid opts (routeDefaults cfg p toks hh) hv
        rw [g0] at h; cases h; exact ⟨g5, g6, g7⟩
      · have : ∃ o ∈ opts, optValid o = false := exists_invalid opts hv
        rw [applyRouteOpts_invalid opts _ this] at h; cases h
    obtain ⟨k1, k2, k3⟩ := key
    have htok : tokenize p = some toks := by
      unfold parsePattern at hp
      cases ht : tokenize p with
      | none => simp [ht] at hp
      | some t => simp only [ht] at hp; split at hp <;> simp at hp; rw [hp.1]
    refine ⟨?_, k1, toks, htok, ?_⟩
    · simp only [RouteCfg.hostname, RouteCfg.path, RouteCfg.asRoute, Route.hostPart, Route.pathPart, k1, k2]
      rw [← render_tokenize p toks htok]
      simp only [render, ← List.flatMap_append, List.take_append_drop]
    · simp [RouteCfg.paramsLen, RouteCfg.asRoute, Route.psLen, k2]

/-- **ClientIP.** `Context.ClientIP` asks the matched route's resolver inside a route handler and the router's resolver
    inside every other handler (`c.route` is nil there); a route whose resolver was set to nil answers
    ErrNoClientIPResolver even when the router has one. -/
theorem clientip_selection (cfg : RouterCfg) (r : RouteCfg) (k : Kind) :
    clientIPResolver cfg (ctxRouteFor k r) = (if k = .route then r.clientip else cfg.clientip) := by
  cases k <;> rfl

/-- the same through the context model of C12: whatever the recycled context held, `c.route` — the field ClientIP
    dispatches on — is the matched route on the two route branches of ServeHTTP and nil on every other branch -/
theorem clientip_ctx_route (env : Model.Ctx.Env) (b : Model.Ctx.Branch) (w r : Nat) (o : Model.Ctx.LookupOut)
    (lz : List Model.Ctx.LookupOut) (H : Model.Ctx.Heap) (c : Model.Ctx.Ctx) (hw : C12.WF c) (hb : C12.Consistent b o) :
    (Model.Ctx.serve b w r o lz H c).2.route =
      (match b with | .direct => o.found | .ignoredSlash => o.found | _ => none) := by
  have h := congrArg Model.Ctx.View.route (C12.serve_view env b w r o lz H c hw hb)
  simp only [Model.Ctx.view, Spec.Ctx.serveView, Spec.Ctx.routeFor] at h
  rw [h]; cases b <;> rfl

/-- **Invalid ⇒ error, never panic.** `New` and `NewRoute` / `Handle` / `Update` only ever answer with a value,
    ErrInvalidConfig or ErrInvalidRoute; a nil handler is ErrInvalidRoute on all three entry points, a nil special
    handler or nil middleware ErrInvalidConfig, a nil or unhashable annotation key ErrInvalidConfig.
    (`reflect` is not modelled: `hashable` is an input bit.) -/
theorem invalid_no_panic (cfg : RouterCfg) (gopts : List GlobalOpt) (p : Bytes) (methodOk : Bool) (opts : List RouteOpt) (hn : Bool) :
    newRouter gopts ≠ .panic ∧ newRoute cfg p hn opts ≠ .panic ∧ handle cfg methodOk p hn opts ≠ .panic ∧
    newRoute cfg p true opts = .invalidRoute ∧ handle cfg methodOk p true opts = .invalidRoute ∧
    ((∃ o ∈ gopts, gOptValid o = false) → newRouter gopts = .invalidConfig) := by
  have hroute : ∀ (os : List RouteOpt) (r : RouteCfg), applyRouteOpts r os ≠ .panic := by
    intro os r
    by_cases hv : ∀ o ∈ os, optValid o = true
    · obtain ⟨r', g0, _⟩ := applyRouteOpts_valid os r hv; rw [g0]; intro h; cases h
    · have : ∃ o ∈ os, optValid o = false := exists_invalid os hv
      rw [applyRouteOpts_invalid os r this]; intro h; cases h
  have hnr : ∀ hn, newRoute cfg p hn opts ≠ .panic := by
    intro hn; unfold newRoute
    cases hn
    · simp only [Bool.false_eq_true, if_false]
      cases hp : parsePattern p with
      | none => intro h; cases h
      | some th => exact hroute _ _
    · intro h; cases h
  have hglob1 : ∀ (c : RouterCfg) (o : GlobalOpt), applyGlobal c o ≠ .panic ∧ applyGlobal c o ≠ .invalidRoute ∧
      (gOptValid o = false → applyGlobal c o = .invalidConfig) := by
    intro c o
    cases o with
    | middleware ms =>
      simp only [applyGlobal, ofAppend, gOptValid]
      cases hr : appendMws cAllHandlers true c.mws ms with
      | none => simp
      | some m =>
        have := (appendMws_some _ _ _ _ _ hr).2
        simp [this]
    | middlewareFor s ms =>
      simp only [applyGlobal, ofAppend, gOptValid]
      cases hr : appendMws s true c.mws ms with
      | none => simp
      | some m =>
        have := (appendMws_some _ _ _ _ _ hr).2
        simp [this]
    | clientIP r => cases r <;> simp [applyGlobal, gOptValid]
    | noRouteHandler n => cases n <;> simp [applyGlobal, gOptValid]
    | noMethodHandler n => cases n <;> simp [applyGlobal, gOptValid]
    | optionsHandler n => cases n <;> simp [applyGlobal, gOptValid]
    | defaults => simp [applyGlobal, gOptValid]
    | autoOptions b => simp [applyGlobal, gOptValid]
    | noMethod b => simp [applyGlobal, gOptValid]
    | redirectTS b => simp [applyGlobal, gOptValid]
    | ignoreTS b => simp [applyGlobal, gOptValid]
  have hglob : ∀ (os : List GlobalOpt) (c : RouterCfg), newRouterFrom c os ≠ .panic ∧
      ((∃ o ∈ os, gOptValid o = false) → newRouterFrom c os = .invalidConfig) := by
    intro os
    induction os with
    | nil => intro c; exact ⟨(by intro h; cases h), (by simp)⟩
    | cons o os ih =>
      intro c
      obtain ⟨a1, a2, a3⟩ := hglob1 c o
      simp only [newRouterFrom]
      cases ho : applyGlobal c o with
      | ok c1 =>
        refine ⟨(ih c1).1, ?_⟩
        rintro ⟨o', hm, hf⟩
        rcases List.mem_cons.1 hm with rfl | hm
        · rw [a3 hf] at ho; cases ho
        · exact (ih c1).2 ⟨o', hm, hf⟩
      | invalidConfig => exact ⟨(by intro h; cases h), fun _ => rfl⟩
      | invalidRoute => exact absurd ho a2
      | panic => exact absurd ho a1
  refine ⟨(hglob gopts {}).1, hnr hn, ?_, by simp [newRoute], by simp [handle], (hglob gopts {}).2⟩
  unfold handle
  cases hn
  · cases methodOk
    · simp
    · simpa using hnr false
  · simp

/-- non-vacuity: contradictory options, an overridden resolver and a re-set annotation -/
example :
    let cfg : RouterCfg := { redirectTS := true, clientip := some 7 }
    let k : AnnKey := ⟨1, 5, false, true, true⟩
    routeView cfg [.ignoreTS true, .redirectTS false, .clientIP none, .annotation k 1, .annotation k 2] =
      ⟨false, true, none, []⟩ ∧
    annotationOf [.annotation k 1, .annotation k 2] k = some 2 := by decide

end Fox.C19
