import FoxModel.Spec.Logger
import FoxModel.Model.Logger
import FoxModel.Generated.Logger
/-
  Property C20 — the Logger middleware reports what actually happened.
-/
namespace Fox.C20
open Fox Fox.Spec.Logger Fox.Model.Logger

/-! ### ties to logger.go (regenerated on every run) -/

/-- evaluate a partition table `[(exclusive upper end, level), …]` (ascending, last end `none` = +inf) -/
def partLevel : List (Option Int × Int) → Int → Option Int
  | [], _ => none
  | (none, l) :: _, _ => some l
  | (some h, l) :: rest, s => if s < h then some l else partLevel rest s

/-- Shape of the middleware body in logger.go: `next(c)` is called exactly once as a plain statement; the `LogAttrs`
    calls (two today; how many is no fact) come after it, exactly one of them on every control-flow path; the requests of one
    Logger share nothing but the `slog.Logger` (no buffer or counter declared outside the per-request function); no defer/go/recover; `c.Writer()` is only read
    (`Status()`, `Header().Get`); message = `ipStr`, level = `lvl`; `location` is only assigned under
    `lvl == slog.LevelDebug`. -/
theorem logger_facts_tie :
    Generated.loggerNextCalls = 1 ∧ Generated.loggerNextTopLevel = true ∧ 1 ≤ Generated.loggerLogCalls ∧
    Generated.loggerSharedState = ["slog.New"] ∧
    Generated.loggerLogAfterNext = true ∧ Generated.loggerLogExclusive = true ∧
    Generated.loggerNoDeferRecover = true ∧ Generated.loggerWriterReadOnly = true ∧
    Generated.loggerMsgIsIPStr = true ∧ Generated.loggerLocationOnlyAtDebug = true := by decide

/-! ### `level` -/

/-- `level` for every integer status: INFO on [200,300), DEBUG on [300,400), WARN on [400,500), ERROR from 500 up,
    INFO below 200. -/
theorem level_eq (s : Int) :
    level s = if 200 ≤ s ∧ s < 300 then .info else if 300 ≤ s ∧ s < 400 then .debug
              else if 400 ≤ s ∧ s < 500 then .warn else if 500 ≤ s then .error else .info := by
  unfold level levelIn levelTable levelDefault
  simp only [List.find?, Bound.matches]
  by_cases h1 : 200 ≤ s <;> by_cases h2 : s < 300 <;> by_cases h3 : 300 ≤ s <;> by_cases h4 : s < 400 <;>
    by_cases h5 : 400 ≤ s <;> by_cases h6 : s < 500 <;> by_cases h7 : 500 ≤ s <;>
    simp [h1, h2, h3, h4, h5, h6, h7] <;> omega

/-- **tie to logger.go (regenerated on every run).** `func level` of logger.go, evaluated by the extractor as Go
    evaluates the switch (first matching case, else default) and written as a partition of the integers, is the
    model's `level` at every integer status. The table is canonical: any reformulation of the switch that computes the
    same function (case order, redundant bounds, `>` for `>=`) regenerates the same table; a different function does not
    pass. -/
theorem level_facts_tie (s : Int) :
    partLevel Generated.loggerLevelPartition s = some (slogValue (level s)) := by
  rw [level_eq]
  simp only [Generated.loggerLevelPartition, partLevel]
  by_cases h3 : s < 300
  · by_cases h2 : 200 ≤ s
    · simp [h3, h2, slogValue]
    · have : ¬ 300 ≤ s := by omega
      have : ¬ 400 ≤ s := by omega
      have : ¬ 500 ≤ s := by omega
      simp [*, slogValue]
  · by_cases h4 : s < 400
    · have : 300 ≤ s := by omega
      simp [*, slogValue]
    · by_cases h5 : s < 500
      · have : 400 ≤ s := by omega
        have : ¬ (300 ≤ s ∧ s < 400) := by omega
        simp [*, slogValue]
      · have : 500 ≤ s := by omega
        have : ¬ (300 ≤ s ∧ s < 400) := by omega
        have : ¬ (400 ≤ s ∧ s < 500) := by omega
        simp [*, slogValue]


/-- The level is the one the property demands for every status it speaks about: INFO for 2xx, DEBUG for 3xx, WARN for
    4xx, ERROR for 5xx. -/
theorem level_meets_spec (s : Int) (l : Level) (h : levelOf s = some l) : level s = l := by
  rw [level_eq]
  unfold levelOf at h
  split at h
  · next hc =>
    injection h with h; subst h
    have h1 : 200 ≤ s ∧ s < 300 := by omega
    simp [h1]
  · split at h
    · next hc =>
      injection h with h; subst h
      have h1 : ¬ (200 ≤ s ∧ s < 300) := by omega
      have h2 : 300 ≤ s ∧ s < 400 := by omega
      simp [h1, h2]
    · split at h
      · next hc =>
        injection h with h; subst h
        have h1 : ¬ (200 ≤ s ∧ s < 300) := by omega
        have h2 : ¬ (300 ≤ s ∧ s < 400) := by omega
        have h3 : 400 ≤ s ∧ s < 500 := by omega
        simp [h1, h2, h3]
      · split at h
        · next hc =>
          injection h with h; subst h
          have h1 : ¬ (200 ≤ s ∧ s < 300) := by omega
          have h2 : ¬ (300 ≤ s ∧ s < 400) := by omega
          have h3 : ¬ (400 ≤ s ∧ s < 500) := by omega
          have h4 : 500 ≤ s := by omega
          simp [h1, h2, h3, h4]
        · cases h

/-- Outside 200..599 (only reachable with 101 or a non-HTTP code): below 200 is INFO, 600 and above is ERROR. -/
theorem level_outside (s : Int) : (s < 200 → level s = .info) ∧ (600 ≤ s → level s = .error) := by
  rw [level_eq]
  constructor
  · intro h
    have h1 : ¬ 200 ≤ s := by omega
    have h2 : ¬ 300 ≤ s := by omega
    have h3 : ¬ 400 ≤ s := by omega
    have h4 : ¬ 500 ≤ s := by omega
    simp [h1, h2, h3, h4]
  · intro h
    have h1 : ¬ s < 300 := by omega
    have h2 : ¬ s < 400 := by omega
    have h3 : ¬ s < 500 := by omega
    have h4 : 500 ≤ s := by omega
    simp [h1, h2, h3, h4]

/-! ### the record -/

/-- If the wrapped handler returns, the Logger emits exactly one record, computed from the state *after* the handler:
    the recorded status, its level, method/host/path of the request, the client-IP message, and the Location header
    exactly when the level is DEBUG and the header is non-empty. -/
theorem logger_one_record (next : HState → HState) (c : Ctx) (s : HState) (h : (next s).panicked = false) :
    ∃ r, (logger next c s).2 = [r] ∧ r.status = (next s).status ∧ r.level = level (next s).status ∧
      r.msg = ipStr c ∧ r.method = c.method ∧ r.host = c.host ∧ r.path = c.path ∧
      r.location = (if level (next s).status = .debug ∧ (next s).loc ≠ [] then some (next s).loc else none) := by
  unfold logger
  simp only [h, Bool.false_eq_true, if_false]
  by_cases hd : level (next s).status = .debug
  · by_cases hl : (next s).loc = []
    · simp [hd, hl]
    · simp [hd, hl]
  · simp [hd]

/-- If a panic passes through, the Logger emits nothing. -/
theorem logger_silent_on_panic (next : HState → HState) (c : Ctx) (s : HState) (h : (next s).panicked = true) :
    (logger next c s).2 = [] := by
  simp [logger, h]

/-- Transparency: with or without the Logger in the chain, the response (recorded status, what reached the
    underlying writer, headers) and a propagating panic are the same. -/
theorem logger_transparent (next : HState → HState) (c : Ctx) (s : HState) : (logger next c s).1 = next s := by
  unfold logger
  dsimp only
  split <;> (try split) <;> (try split) <;> rfl

/-- The message: the resolver's answer; the remote address when no resolver is configured (the error is, or wraps,
    ErrNoClientIPResolver); "unknown" when resolution fails. -/
theorem message_cases (c : Ctx) :
    (∀ ip, clientIP c = .ok ip → ipStr c = ip) ∧
    (clientIP c = .errNoResolver ∨ clientIP c = .errWrapsNoResolver → ipStr c = c.remoteIP) ∧
    (clientIP c = .errOther → ipStr c = Spec.Logger.unknown) := by
  refine ⟨fun ip h => by simp [ipStr, h], fun h => ?_, fun h => by simp [ipStr, h]⟩
  rcases h with h | h <;> simp [ipStr, h]

/-- Which resolver: the matched route's inside a route handler (per-route override or the router's at creation),
    the router-wide one in the NoRoute / NoMethod / Redirect / Options handlers (`c.route == nil`). -/
theorem resolver_choice (c : Ctx) :
    (c.routeMatched = true → clientIP c = c.routeResolver) ∧ (c.routeMatched = false → clientIP c = c.routerResolver) := by
  constructor <;> intro h <;> simp [clientIP, h]

/-- Whenever the property specifies the outcome (panic, or a status in 200..599), the middleware produces exactly
    the demanded records. -/
theorem logger_meets_spec (next : HState → HState) (c : Ctx) (s : HState) (rs : List Record)
    (h : expected (happened c (next s)) = some rs) : (logger next c s).2 = rs := by
  unfold expected at h
  by_cases hp : (next s).panicked = true
  · simp [happened, hp] at h
    rw [logger_silent_on_panic next c s hp, h]
  · have hp' : (next s).panicked = false := by simpa using hp
    simp only [happened, hp', Bool.false_eq_true, if_false] at h
    cases hl : levelOf (next s).status with
    | none => simp [hl] at h
    | some l =>
      have hlv := level_meets_spec _ _ hl
      simp only [hl] at h
      have hmsg : message (resolutionOf (clientIP c)) c.remoteIP = ipStr c := by
        unfold ipStr message resolutionOf
        cases clientIP c <;> rfl
      rw [hmsg] at h
      injection h with h
      subst h
      unfold logger
      simp only [hp', Bool.false_eq_true, if_false, hlv]
      by_cases hd : l = .debug
      · by_cases hloc : (next s).loc = []
        · simp [hd, hloc]
        · simp [hd, hloc]
      · simp [hd]

/-! ### non-vacuity -/

example : level 199 = .info ∧ level 200 = .info ∧ level 299 = .info ∧ level 300 = .debug ∧ level 399 = .debug ∧
    level 400 = .warn ∧ level 499 = .warn ∧ level 500 = .error ∧ level 599 = .error := by decide

example : (runOps {} [.setLoc [47], .header 302]).status = 302 ∧ (runOps {} [.header 103, .header 404]).status = 404 ∧
    (runOps {} [.body]).status = 200 ∧ (runOps {} [.header 500, .panic, .body]).panicked = true := by decide

end Fox.C20
