import FoxModel.Props.C01Full
import FoxModel.Props.C07
import FoxModel.Props.C08
import FoxModel.Props.C09
import FoxModel.Props.C11
import FoxModel.Props.C16
import FoxModel.Util
/-
  Non-vacuity of the hypotheses of the end-to-end theorems of C01 / C07 / C08 / C09 / C11 / C16 (Props/C01Full, C07,
  C08, C09, C11, C16): a concrete history and concrete requests satisfy every hypothesis (checked by `decide`, i.e. by
  the kernel, where the terms reduce; by `#guard`, i.e. by evaluating the compiled definitions, where the definitions
  are well-founded recursions that `decide` does not unfold), and both sides of the equalities are non-trivial answers.
  These are illustrations, not proofs of anything universal.
-/
namespace Fox.NonVacuity
open Fox Fox.Model Fox.Spec Fox.C02 Fox.Util

/-- GET /a/{x} · (conflicting /a/{y}) · (duplicate) · GET a.{h}/b · Update of the latter: two routes registered -/
def hist : List Op := C02.exOps.take 5
/-- the same final set reached by a different history: hostname route first, a route added and deleted again -/
def hist' : List Op := [.handle GET exR3', .handle GET exR2, .delete GET exR2.pattern, .handle GET exR1]

example : (∀ op ∈ hist, op.valid = true) ∧ (∀ op ∈ hist', op.valid = true) := by decide

-- hypotheses on the requests
#guard noDbl (ascii "/a/v1") && noDbl (ascii "/b/") && !(stripHostPort (ascii "a.zz:80")).contains SLASH

-- C01: path-only route with its parameter; hostname route with port stripped; C08: slash removed under the host
#guard (match lookup (runModel newTree hist).1.roots GET [] (ascii "/a/v1") with
        | .found r ps false => r.hid == 1 && ps == [([120], ascii "v1")] | _ => false)
#guard (match lookup (runModel newTree hist).1.roots GET (ascii "a.zz:80") (ascii "/b") with
        | .found r ps false => r.hid == 4 && ps == [([104], ascii "zz")] | _ => false)
#guard (match lookup (runModel newTree hist).1.roots GET (ascii "a.zz:80") (ascii "/b/") with
        | .found r _ true => r.hid == 4 | _ => false)
-- … and the specification side gives the same three answers
#guard toResult (routeS (sufsOfMethod (runModel newTree hist).1.roots GET) [] (ascii "/a/v1")) ==
         lookup (runModel newTree hist).1.roots GET [] (ascii "/a/v1")
#guard toResult (routeS (sufsOfMethod (runModel newTree hist).1.roots GET) (ascii "a.zz:80") (ascii "/b/")) ==
         lookup (runModel newTree hist).1.roots GET (ascii "a.zz:80") (ascii "/b/")

-- C07: the two histories differ, their stored pattern sets per method coincide (hypothesis `hsame` of history_independent)
#guard sufsOfMethod (runModel newTree hist).1.roots GET == sufsOfMethod (runModel newTree hist').1.roots GET
#guard hist.length != hist'.length

-- C09: a Host that merely extends / truncates the registered hostname falls back to the path-only routes
#guard (match lookup (runModel newTree hist).1.roots GET (ascii "a.zz.evil") (ascii "/a/q") with
        | .found r _ false => r.hid == 1 | _ => false)
#guard (match lookup (runModel newTree hist).1.roots GET (ascii "a.zz.evil") (ascii "/b") with
        | .none => true | _ => false)

-- C16: the reported parameters fit the capacity the tree was given (1 parameter, maxParams = 1)
#guard (runModel newTree hist).1.maxParams == 1

-- C08 / C11 (dispatch): a candidate on a redirecting route; CONNECT never acted upon
def rRedir : Route := { hid := 7, pattern := [.lit 47, .lit 102, .lit 47], redirectTS := true }   -- /f/
def histR : List Op := [.handle GET rRedir, .handle CONNECT { rRedir with hid := 8, ignoreTS := true }]
example : ∀ op ∈ histR, op.valid = true := by decide
#guard (Model.serve {} (runModel newTree histR).1.roots GET [] (ascii "/f") (ascii "/f")).kind == .redirect &&
       (Model.serve {} (runModel newTree histR).1.roots GET [] (ascii "/f") (ascii "/f")).code == 301
#guard (Model.serve {} (runModel newTree histR).1.roots CONNECT [] (ascii "/f") (ascii "/f")).kind == .noRoute
#guard (Model.serve { noMethod := true } (runModel newTree histR).1.roots POST [] (ascii "/f/") (ascii "/f/")).kind == .noMethod

end Fox.NonVacuity
