import FoxModel.Generated.Pool
/-
  Properties C12, C14, C16 - the discipline of pooled objects, regenerated on every run.

  Request contexts come from `tree.ctx` (a `sync.Pool`), copy buffers from `copyBufPool`. foxfacts walks the control-flow
  graph of every function and function literal of the root package that obtains an object from a pool and classifies
  each acquisition (extract/facts_pool.go): on every path to an exit the object is given back exactly once (`Put`, a put
  helper or `Close`, directly or deferred) and not used afterwards (`released-once`), or handed to the caller in a
  return statement (`escapes`). Releasing twice, releasing and then using the object (or a local derived from it),
  leaving a path without release, deferring a release inside a loop, acquiring outside a closure what the closure
  releases - each is a different verdict and breaks this theorem. The fact is the set of verdict kinds, not the list of
  sites, so moving code between functions or renaming does not affect it.
-/
namespace Fox.Pool

/-- every pooled object obtained anywhere in the root package is released exactly once on every path, or returned to the caller -/
theorem pool_discipline :
    (Generated.poolVerdicts.all fun v => v == "escapes" || v == "released-once") = true ∧
    Generated.poolOffenders = [] ∧ 0 < Generated.poolAcquisitions := by
  decide

end Fox.Pool
