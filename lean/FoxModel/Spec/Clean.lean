import FoxModel.Basic
/-
  FoxModel.Spec.Clean — the lexical definition of the canonical URL path (property C17).

  Declarative and tiny on purpose: split the input on '/', run the elements through a stack
  ("" and "." are dropped, ".." pops the preceding element and never rises above the root),
  print "/" ++ elements joined by "/", and keep a trailing slash exactly when the last element of the
  input was "" or "." and the result is not the root. Nothing of path.go (indices, buffers) appears here.
-/
namespace Fox.Spec.Clean
open Fox

/-- `strings.Split(p, "/")`: always at least one element; `"" ↦ [""]`, `"/a" ↦ ["", "a"]`. -/
def splitSlash : Bytes → List Bytes
  | [] => [[]]
  | b :: bs =>
    if b = SLASH then [] :: splitSlash bs
    else match splitSlash bs with
      | [] => [[b]]
      | e :: es => (b :: e) :: es

/-- one element against the stack (top of the stack first) -/
def push (st : List Bytes) (e : Bytes) : List Bytes :=
  if e = [] ∨ e = [DOT] then st
  else if e = [DOT, DOT] then st.tail
  else e :: st

/-- the surviving elements, in path order -/
def stack (p : Bytes) : List Bytes := ((splitSlash p).foldl push []).reverse

/-- the input ended with a slash (or is empty), or its last element is "." -/
def wantsTrailing (p : Bytes) : Bool :=
  let l := (splitSlash p).getLast?
  l == some [] || l == some [DOT]

/-- `"/a/b"` for `["a","b"]`, `""` for `[]` -/
def join (st : List Bytes) : Bytes := st.flatMap (SLASH :: ·)

/-- the canonical path of `p` -/
def clean (p : Bytes) : Bytes :=
  let st := stack p
  if st = [] then [SLASH]
  else join st ++ (if wantsTrailing p then [SLASH] else [])

/-- a proper path element: non-empty, not ".", not "..", without a slash -/
def GoodElem (e : Bytes) : Prop := e ≠ [] ∧ e ≠ [DOT] ∧ e ≠ [DOT, DOT] ∧ SLASH ∉ e

/-- canonical form: the root, or "/" ++ proper elements joined by "/" with an optional trailing slash -/
def Canonical (q : Bytes) : Prop :=
  q = [SLASH] ∨ ∃ st : List Bytes, st ≠ [] ∧ (∀ e ∈ st, GoodElem e) ∧ (q = join st ∨ q = join st ++ [SLASH])

end Fox.Spec.Clean
