import FoxModel.Basic
/-
  FoxModel.Spec.ClientIP — what the client-IP resolvers of `clientip/` are documented to return (property C18).

  Declarative reading. The *entries* of a list header are the trimmed comma separated items of all header lines,
  flattened in order. Every strategy is a one-line list expression over the entries, parameterised by
    `trim  : Bytes → Bytes`        (white-space trimming of one item),
    `parse : Bytes → Option α`     (entry text ↦ address; `none` = not an address),
    `inR   : α → Bool`             (address is in the trusted / excluded ranges).
  A result is `some address` or `none` (= an error; the specification does not distinguish error texts).
  No iterator, no early exit, no index arithmetic of the Go code appears here.
-/
namespace Fox.Spec.ClientIP
open Fox

def COMMA : UInt8 := 44

/-- split at every `sep` byte (like `strings.Split`): always at least one item -/
def splitOn (sep : UInt8) : Bytes → List Bytes
  | [] => [[]]
  | b :: bs =>
    if b = sep then [] :: splitOn sep bs
    else match splitOn sep bs with
      | h :: t => (b :: h) :: t
      | [] => [[b]]

/-- the entries of a list header: trimmed comma separated items of all lines, in order -/
def entries (trim : Bytes → Bytes) (lines : List Bytes) : List Bytes :=
  lines.flatMap fun l => (splitOn COMMA l).map trim

variable {α : Type}

/-- the `n`-th entry from the right (`n = 1` is the last one) -/
def nthFromRight (n : Nat) (es : List Bytes) : Option Bytes :=
  if 0 < n ∧ n ≤ es.length then es[es.length - n]? else none

/-- rightmost-trusted-count: the `n`-th entry from the right, which must be an address -/
def trustedCount (parse : Bytes → Option α) (n : Nat) (es : List Bytes) : Option α :=
  (nthFromRight n es).bind parse

/-- rightmost-non-private: the last of the entries that are addresses outside the ranges -/
def nonPrivate (parse : Bytes → Option α) (inR : α → Bool) (es : List Bytes) : Option α :=
  ((es.filterMap parse).filter (fun a => !inR a)).getLast?

/-- an entry that is an address inside the trusted ranges -/
def isTrusted (parse : Bytes → Option α) (inR : α → Bool) (e : Bytes) : Bool :=
  match parse e with
  | some a => inR a
  | none => false

/-- rightmost-trusted-range: the first entry from the right that is not a trusted address; it must be an address -/
def trustedRange (parse : Bytes → Option α) (inR : α → Bool) (es : List Bytes) : Option α :=
  (es.reverse.find? (fun e => !isTrusted parse inR e)).bind parse

/-- leftmost-non-private: among the first `limit` entries, the first address that is not excluded -/
def leftmost (parse : Bytes → Option α) (inR : α → Bool) (limit : Nat) (es : List Bytes) : Option α :=
  ((es.take limit).filterMap parse).find? (fun a => !inR a)

/-- single-IP header: the last header instance (absent and empty count as missing) -/
def single (parse : Bytes → Option α) (lines : List Bytes) : Option α :=
  lines.getLast?.bind fun v => if v = [] then none else parse v

/-- chain: the first success -/
def chain (results : List (Option α)) : Option α :=
  results.findSome? id

/-! ### IANA special-purpose blocks (hand written; the default range audit compares against this table)

  (family, network address, prefix length). Blocks that the IANA registries list as *not* globally reachable,
  plus multicast and the reserved/deprecated transition prefixes (6to4 relay anycast 192.88.99.0/24 and 2002::/16).
  Blocks flagged globally reachable in the registries (192.31.196.0/24, 192.52.193.0/24, 192.175.48.0/24,
  64:ff9b::/96, 2620:4f:8000::/48) are deliberately absent. -/

structure Block where
  fam : Nat
  addr : Nat
  len : Nat
deriving DecidableEq, Repr

def v4 (a b c d len : Nat) : Block := ⟨4, ((a * 256 + b) * 256 + c) * 256 + d, len⟩
/-- IPv6 block given by its first four 16-bit groups -/
def v6 (g0 g1 g2 g3 len : Nat) : Block := ⟨6, (((g0 * 65536 + g1) * 65536 + g2) * 65536 + g3) * 2 ^ 64, len⟩

def ianaSpecialPurpose : List Block := [
  v4 0 0 0 0 8,          -- RFC 791 / 1122 "this network"
  v4 10 0 0 0 8,         -- RFC 1918
  v4 100 64 0 0 10,      -- RFC 6598 shared address space (CGNAT)
  v4 127 0 0 0 8,        -- loopback
  v4 169 254 0 0 16,     -- link local
  v4 172 16 0 0 12,      -- RFC 1918
  v4 192 0 0 0 24,       -- RFC 6890 IETF protocol assignments
  v4 192 0 2 0 24,       -- TEST-NET-1
  v4 192 88 99 0 24,     -- RFC 7526 deprecated 6to4 relay anycast
  v4 192 168 0 0 16,     -- RFC 1918
  v4 198 18 0 0 15,      -- RFC 2544 benchmarking
  v4 198 51 100 0 24,    -- TEST-NET-2
  v4 203 0 113 0 24,     -- TEST-NET-3
  v4 224 0 0 0 4,        -- multicast
  v4 240 0 0 0 4,        -- reserved (includes the limited broadcast address)
  v4 255 255 255 255 32, -- limited broadcast
  ⟨6, 0, 128⟩,           -- ::  unspecified
  ⟨6, 1, 128⟩,           -- ::1 loopback
  v6 0x64 0xff9b 1 0 48,      -- RFC 8215 local-use IPv4/IPv6 translation
  v6 0x100 0 0 0 64,          -- RFC 6666 discard only
  v6 0x2001 0 0 0 23,         -- RFC 2928 IETF protocol assignments (TEREDO, benchmarking, ORCHID, ...)
  v6 0x2001 0xdb8 0 0 32,     -- documentation
  v6 0x2002 0 0 0 16,         -- 6to4 (deprecated, RFC 7526)
  v6 0x3fff 0 0 0 20,         -- RFC 9637 documentation
  v6 0x5f00 0 0 0 16,         -- RFC 9602 SRv6 SIDs
  v6 0xfc00 0 0 0 7,          -- unique local
  v6 0xfe80 0 0 0 10,         -- link local
  v6 0xff00 0 0 0 8           -- multicast
]

/-- an address in 16-byte form (IPv4 as `::ffff:a.b.c.d`) is an IPv4 address -/
def isV4Mapped (ip : Nat) : Bool := ip / 2 ^ 32 == 0xffff

/-- address `ip` (16-byte form as a number) lies in the block -/
def inBlock (b : Block) (ip : Nat) : Bool :=
  if b.fam = 4 then isV4Mapped ip && (ip % 2 ^ 32) >>> (32 - b.len) == b.addr >>> (32 - b.len)
  else ip >>> (128 - b.len) == b.addr >>> (128 - b.len)

def isSpecialPurpose (ip : Nat) : Bool := ianaSpecialPurpose.any fun b => inBlock b ip

/-- CIDR `(fam, addr, len)` is contained in block `b` (decided on family, prefix value and length) -/
def cidrSubset (c : Nat × Nat × Nat) (b : Block) : Bool :=
  let bits := if b.fam = 4 then 32 else 128
  c.1 == b.fam && b.len ≤ c.2.2 && c.2.2 ≤ bits && c.2.1 >>> (bits - b.len) == b.addr >>> (bits - b.len)

end Fox.Spec.ClientIP
