import FoxModel.Model.Context
/-
  FoxModel.Spec.Context — what a handler must see (property C12): a function of the current request, its writer and the
  lookup result only. Core Lean only.
-/
namespace Fox.Spec.Ctx
open Fox Fox.Model.Ctx

def paramsFor (b : Branch) (o : LookupOut) : Binds :=
  match b with
  | .direct => o.params
  | .ignoredSlash => o.params ++ o.tsrParams
  | _ => []

def routeFor (b : Branch) (o : LookupOut) : Option Nat :=
  match b with
  | .direct => o.found
  | .ignoredSlash => o.found
  | _ => none

def scopeFor : Branch → Nat
  | .direct => RouteHandler
  | .ignoredSlash => RouteHandler
  | .redirect => RedirectHandler
  | .options => OptionsHandler
  | .noMethod => NoMethodHandler
  | .noRoute => NoRouteHandler

/-- a recorder nobody has written to yet, on top of the http.ResponseWriter `w` -/
def freshWriter (w : Nat) : WView :=
  { present := true, discard := false, hdr := .http w, status := 200, size := 0, written := false, hijacked := false }

/-- the view inside the handler that ServeHTTP calls on branch `b` for request `r` with writer `w` -/
def serveView (b : Branch) (w r : Nat) (o : LookupOut) : View :=
  { req := some r, w := freshWriter w, params := paramsFor b o, route := routeFor b o, query := some r, scope := scopeFor b }

def extWriter (env : Env) (w : Nat) : WView :=
  { present := true, discard := false, hdr := .fox w, status := env.extStatus w, size := env.extSize w,
    written := env.extWritten w, hijacked := false }

/-- the view of the context returned by Lookup -/
def lookupView (env : Env) (w r : Nat) (o : LookupOut) : View :=
  { req := some r, w := extWriter env w, params := if o.tsr then o.params ++ o.tsrParams else o.params,
    route := o.found, query := some r, scope := RouteHandler }

/-- the view of `c.CloneWith(w, r)` given the view of `c` -/
def cloneWithView (env : Env) (w r : Nat) (v : View) : View :=
  { req := some r, w := extWriter env w, params := v.params, route := v.route, query := some r, scope := v.scope }

/-- the view of `c.Clone()` given the view of `c`: same request, route, scope and parameters; query cache dropped; a
    discarding writer that carries a copy of the headers and the status / size / written state of the current writer -/
def cloneView (v : View) : View :=
  { req := v.req,
    w := { present := true, discard := true, hdr := .copyOf v.w.hdr, status := v.w.status,
           size := if v.w.written then v.w.size else 0, written := v.w.written, hijacked := false },
    params := v.params, route := v.route, query := v.req, scope := v.scope }

end Fox.Spec.Ctx
