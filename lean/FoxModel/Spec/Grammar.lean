import FoxModel.Basic
/-
  FoxModel.Spec.Grammar — the documented pattern grammar as an executable, declarative Boolean (core Lean only).
  It is written on the token view of a pattern (`Fox.tokenize`) and knows nothing about the single-pass validator
  of fox.go; `Fox.C10.parse_iff` relates the two.

  Sources: README "Named parameters", "Catch-all parameters", "Hostname validation & restrictions"; doc comments of
  `Router.Handle`, `WithMaxRouteParams`, `WithMaxRouteParamKeyBytes`.

  Where the documentation is silent the specification adopts the implementation's reading (DESIGN.md §2, end):
   (ii)  LDH is applied to a host label's *literal text*: the text before a trailing `{name}`; so `a-{b}.com/` is
         rejected (its literal text `a-` ends with '-'), and the 63 / 255 limits count literal text (and the dots)
         only — the latter is documented ("they do not count toward the hard limit …").
   (iv)  "letter" includes '_' (the README says LDH; the code accepts the underscore in host labels).
   (v)   a path may contain empty segments (`//`), and literal path text may contain '}' (only '{' and '*' open a
         wildcard); "consecutive catch-all" means: two catch-alls separated by at most one literal byte
         (`/*{a}/*{b}`), while `/*{a}//*{b}` is accepted.
   (vi)  names may contain any byte except '/', '*', '{', '}' and — in the host part — '.'.
-/
namespace Fox.Spec
open Fox

structure Limits where
  /-- `WithMaxRouteParams` (default 65535) -/
  maxParams : Nat
  /-- `WithMaxRouteParamKeyBytes` (default 65535) -/
  maxKeyBytes : Nat
deriving Repr, DecidableEq

def isAlpha (b : UInt8) : Bool := (97 ≤ b && b ≤ 122) || (65 ≤ b && b ≤ 90) || b == 95   -- a-z A-Z _
def isNum (b : UInt8) : Bool := 48 ≤ b && b ≤ 57
def isLDH (b : UInt8) : Bool := isAlpha b || isNum b || b == DASH

/-- split a token list at every literal `d` (the pieces between the separators; n separators ↦ n+1 pieces) -/
def splitAtLit (d : UInt8) : List Tok → List (List Tok)
  | [] => [[]]
  | t :: ts =>
    if t = .lit d then [] :: splitAtLit d ts
    else match splitAtLit d ts with
      | l :: ls => (t :: l) :: ls
      | [] => [[t]]

/-- a segment / label is literal text optionally followed by ONE wildcard at its end:
    `shape l = some (text, wildcard?)`, `none` when a wildcard is followed by anything -/
def shape : List Tok → Option (Bytes × Option Tok)
  | [] => some ([], none)
  | .lit b :: ts => (shape ts).map fun (txt, w) => (b :: txt, w)
  | [w] => some ([], some w)
  | _ :: _ :: _ => none

/-- wildcard names: non-empty, within the key limit, free of '/', '*', '{', '}' (and of '.' in a hostname) -/
def nameOk (lim : Limits) (inHost : Bool) (n : Bytes) : Bool :=
  !n.isEmpty && decide (n.length ≤ lim.maxKeyBytes) &&
  n.all fun b => b != SLASH && b != STAR && b != LBR && b != RBR && (!inHost || b != DOT)

/-- a path segment: any literal text (the tokenizer already guarantees it has no '{' and no '*'), optionally
    followed by one `{name}` or `*{name}` -/
def segOk (lim : Limits) (seg : List Tok) : Bool :=
  match shape seg with
  | none => false
  | some (_, none) => true
  | some (_, some (.param n)) => nameOk lim false n
  | some (_, some (.catchAll n)) => nameOk lim false n
  | some (_, some (.lit _)) => false

/-- a hostname label: LDH literal text, not beginning or ending with '-', at most 63 bytes, optionally followed
    by one `{name}`; without a parameter the text must be non-empty; no catch-all -/
def labelOk (lim : Limits) (l : List Tok) : Bool :=
  match shape l with
  | none => false
  | some (txt, w) =>
    txt.all isLDH && txt.head? != some DASH && txt.getLast? != some DASH && decide (txt.length ≤ 63) &&
    (match w with
     | none => !txt.isEmpty
     | some (.param n) => nameOk lim true n
     | some _ => false)

def litBytes (ts : List Tok) : Bytes := ts.filterMap fun | .lit b => some b | _ => none

/-- the hostname part: labels joined by '.', literal text (dots included) of at most 255 bytes, not all-numeric
    (something other than digits and dots occurs: a letter, '-', '_' or a parameter) -/
def hostOk (lim : Limits) (host : List Tok) : Bool :=
  (splitAtLit DOT host).all (labelOk lim) &&
  decide ((litBytes host).length ≤ 255) &&
  host.any fun | .lit b => !(isNum b || b == DOT) | _ => true

/-- two catch-alls separated by at most one literal byte -/
def consecCatchAll : List Tok → Bool
  | .catchAll _ :: .catchAll _ :: _ => true
  | .catchAll _ :: .lit _ :: .catchAll _ :: _ => true
  | _ :: rest => consecCatchAll rest
  | [] => false

def isSlash : Tok → Bool
  | .lit b => b == SLASH
  | _ => false

/-- the token-level grammar -/
def validToks (lim : Limits) (toks : List Tok) : Bool :=
  let host := toks.takeWhile (!isSlash ·)          -- split at the first '/'
  let path := toks.dropWhile (!isSlash ·)
  !path.isEmpty &&                                  -- "the path portion must still include at least /"
  (host.isEmpty || hostOk lim host) &&
  (splitAtLit SLASH path).all (segOk lim) &&
  !consecCatchAll path &&
  decide ((toks.filter isWild).length ≤ lim.maxParams)

/-- **the documented grammar**: `s` reads as a token list (every '{' has its '}', every '*' is followed by '{')
    and the token list is a valid pattern -/
def valid (lim : Limits) (s : Bytes) : Bool :=
  match tokenize s with
  | none => false
  | some toks => validToks lim toks

end Fox.Spec
