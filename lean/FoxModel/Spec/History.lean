/-
  FoxModel.Spec.History — concurrent histories, linearizability with respect to a sequential specification, and the
  executable history checker `checkHistory` (property C05).

  A history is a list of completed calls stamped with a logical clock (one shared atomic counter incremented before
  each call and after each return): `a.ret < b.call` means that `a` really returned before `b` was called.

  The sequential object is versioned: a committed write transaction installs version (current + 1) — in the harness it
  read-modify-writes a version route inside the transaction, under the writer lock, so the version a write reports is
  ground truth for the commit order. Everything else (reads, aborted transactions) observes one state and changes nothing.

  `checkHistory` rejects when
    (i)   the committed writes, put in the order of their versions, are not the versions 1..n or some write's recorded
          results are not those of the specification run in that order (lost / doubled / reordered write);
    (i')  that order contradicts real time (a write returned before an earlier-versioned one was called);
    (ii)  some read's result is the specification's answer at NO version that could have been current during the read
          (version v is possible for r iff  call(W_v) ≤ ret(r)  and  call(r) ≤ ret(W_{v+1}));
          a single-snapshot reader (View, Iter) returns the whole store, so a partially visible transaction fails here;
    (iii) two calls that are adjacent in the log (the harness logs thread by thread, in program order), the first of which
          returned before the second was called, observed decreasing versions.
  All four are necessary conditions of linearizability (`Fox.C05.checker_no_false_alarm`); acceptance is sampling.
-/
namespace Fox.Spec.History

/-- an observable result: the version it exposes (if any) and its canonical text -/
structure Res where
  ver : Option Nat
  text : String
deriving DecidableEq, Repr

/-- sequential specification of the versioned object -/
structure Sem (σ W Q : Type) where
  init : σ
  /-- a committed write transaction: new state and its observable results -/
  wr : σ → W → σ × Res
  /-- an observation at version `v` in state `st` -/
  rd : Nat → σ → Q → Res

inductive Op (W Q : Type) where
  | w (x : W)
  | r (q : Q)

structure Call (W Q : Type) where
  tid : Nat
  call : Nat
  ret : Nat
  op : Op W Q
  /-- writes: the version this transaction installed (reads: unused) -/
  ver : Nat
  res : Res

variable {σ W Q : Type}

def Call.isW (c : Call W Q) : Bool :=
  match c.op with
  | .w _ => true
  | .r _ => false

/-- one call executed sequentially: `none` = the recorded result is not the specification's -/
def stepSeq (S : Sem σ W Q) (s : Nat × σ) (c : Call W Q) : Option (Nat × σ) :=
  match c.op with
  | .w x => if c.ver = s.1 + 1 ∧ c.res = (S.wr s.2 x).2 then some (s.1 + 1, (S.wr s.2 x).1) else none
  | .r q => if c.res = S.rd s.1 s.2 q then some s else none

def runSeq (S : Sem σ W Q) (s : Nat × σ) : List (Call W Q) → Option (Nat × σ)
  | [] => some s
  | c :: cs =>
    match stepSeq S s c with
    | some s' => runSeq S s' cs
    | none => none

/-- the order respects real time: nobody is placed before a call that had returned before he was called -/
def RT (L : List (Call W Q)) : Prop := L.Pairwise fun a b => ¬ b.ret < a.call

/-- linearizable: some total order of the calls respects real time and is a legal sequential execution -/
def Linearizable (S : Sem σ W Q) (h : List (Call W Q)) : Prop :=
  ∃ L, L.Perm h ∧ RT L ∧ (runSeq S (0, S.init) L).isSome

/-! ### the checker -/

/-- the state that is current between two consecutive commits -/
structure Seg (σ W Q : Type) where
  ver : Nat
  st : σ
  /-- the write that installed it (none: the initial state) -/
  by_ : Option (Call W Q)
  /-- the write that replaced it (none: it is the last) -/
  next : Option (Call W Q)

def mkSegs (S : Sem σ W Q) (ver : Nat) (st : σ) (by_ : Option (Call W Q)) :
    List (Call W Q) → Option (List (Seg σ W Q))
  | [] => some [⟨ver, st, by_, none⟩]
  | w :: ws =>
    match stepSeq S (ver, st) w with
    | none => none
    | some s' => (mkSegs S s'.1 s'.2 (some w) ws).map (⟨ver, st, by_, some w⟩ :: ·)

/-- could segment `g` have been current at some instant of read `c`, and is `c`'s result the specification's there? -/
def segOk (S : Sem σ W Q) (c : Call W Q) (q : Q) (g : Seg σ W Q) : Bool :=
  (match g.by_ with | none => true | some w => decide (w.call ≤ c.ret)) &&
  (match g.next with | none => true | some w => decide (c.call ≤ w.ret)) &&
  decide (c.res = S.rd g.ver g.st q)

def readOk (S : Sem σ W Q) (segs : List (Seg σ W Q)) (c : Call W Q) : Bool :=
  match c.op with
  | .r q => segs.any (segOk S c q)
  | .w _ => true

def rtOk : List (Call W Q) → Bool
  | [] => true
  | a :: r => r.all (fun b => !decide (b.ret < a.call)) && rtOk r

/-- the version a call has observed -/
def verSeen (c : Call W Q) : Option Nat :=
  match c.op with
  | .w _ => some c.ver
  | .r _ => c.res.ver

def pairOk (a b : Call W Q) : Bool :=
  match verSeen a, verSeen b with
  | some va, some vb => !decide (a.ret < b.call) || decide (va ≤ vb)
  | _, _ => true

def adjOk : List (Call W Q) → Bool
  | a :: b :: r => pairOk a b && adjOk (b :: r)
  | _ => true

def sortedWrites (h : List (Call W Q)) : List (Call W Q) :=
  (h.filter Call.isW).mergeSort fun a b => decide (a.ver ≤ b.ver)

def versioned (h : List (Call W Q)) : List (Call W Q) := h.filter fun c => (verSeen c).isSome

/-- the history checker: `false` = rejected -/
def checkHistory (S : Sem σ W Q) (h : List (Call W Q)) : Bool :=
  match mkSegs S 0 S.init none (sortedWrites h) with
  | none => false
  | some segs => rtOk (sortedWrites h) && h.all (readOk S segs) && adjOk (versioned h)

/-- why a history is rejected (for the report; not part of the theorems) -/
def explain (S : Sem σ W Q) (h : List (Call W Q)) : String :=
  match mkSegs S 0 S.init none (sortedWrites h) with
  | none => "writes: in version order the committed transactions are not versions 1..n with the specification's results (lost / doubled / reordered write)"
  | some segs =>
    if !rtOk (sortedWrites h) then "writes: the version order contradicts real time"
    else match h.find? (fun c => !readOk S segs c) with
      | some c => "read: thread " ++ toString c.tid ++ " call@" ++ toString c.call ++ " ret@" ++ toString c.ret ++
          " returned " ++ c.res.text ++ " which is the specification's answer at no version current during the call"
      | none => if !adjOk (versioned h) then "monotonicity: a thread observed a version older than one it had observed before" else "accepted"

/-! ### the exact checker

  `checkHistory` above tests four necessary conditions. `checkLin` below *decides* linearizability
  (`Fox.C05.checkLin_iff_linearizable`): with the commit order of the writes known (their versions), a history is
  linearizable iff every call can be given a version - a write its own, a read one whose state explains its result and
  whose installing write had been called when the read returned - such that a call that returned before another was
  called has no greater version. The least such assignment is computed greedily in the order of the call stamps. -/

/-- version `g.ver` explains call `c` -/
def explains (S : Sem σ W Q) (c : Call W Q) (g : Seg σ W Q) : Bool :=
  match c.op with
  | .w _ => decide (c.ver = g.ver)
  | .r q => (match g.by_ with | none => true | some w => decide (w.call ≤ c.ret)) && decide (c.res = S.rd g.ver g.st q)

def allowed (S : Sem σ W Q) (segs : List (Seg σ W Q)) (c : Call W Q) : List Nat :=
  (segs.filter (explains S c)).map (·.ver)

/-- the greatest version given to a call that had returned before `c` was called -/
def lowerBound (acc : List (Call W Q × Nat)) (c : Call W Q) : Nat :=
  acc.foldl (fun m p => if p.1.ret < c.call then max m p.2 else m) 0

/-- the least element of `l` that is at least `lb` -/
def leastFrom (lb : Nat) : List Nat → Option Nat
  | [] => none
  | x :: xs =>
    match leastFrom lb xs with
    | none => if lb ≤ x then some x else none
    | some y => if lb ≤ x ∧ x ≤ y then some x else some y

/-- greedy assignment: calls in the order given, each the least allowed version not below its lower bound -/
def assign (S : Sem σ W Q) (segs : List (Seg σ W Q)) : List (Call W Q × Nat) → List (Call W Q) → Option (List (Call W Q × Nat))
  | acc, [] => some acc
  | acc, c :: cs =>
    match leastFrom (lowerBound acc c) (allowed S segs c) with
    | none => none
    | some v => assign S segs ((c, v) :: acc) cs

def byCall (h : List (Call W Q)) : List (Call W Q) := h.mergeSort fun a b => decide (a.call ≤ b.call)

/-- the exact checker: `true` iff the history is linearizable (for histories whose calls return after they are called) -/
def checkLin (S : Sem σ W Q) (h : List (Call W Q)) : Bool :=
  match mkSegs S 0 S.init none (sortedWrites h) with
  | none => false
  | some segs => (assign S segs [] (byCall h)).isSome

/-- the first call the greedy assignment cannot place (for the report) -/
def stuckAt (S : Sem σ W Q) (segs : List (Seg σ W Q)) : List (Call W Q × Nat) → List (Call W Q) → Option (Call W Q × Nat)
  | _, [] => none
  | acc, c :: cs =>
    match leastFrom (lowerBound acc c) (allowed S segs c) with
    | none => some (c, lowerBound acc c)
    | some v => stuckAt S segs ((c, v) :: acc) cs

def wellStamped (h : List (Call W Q)) : Bool := h.all fun c => decide (c.call ≤ c.ret)

def explainLin (S : Sem σ W Q) (h : List (Call W Q)) : String :=
  match mkSegs S 0 S.init none (sortedWrites h) with
  | none => explain S h
  | some segs =>
    match stuckAt S segs [] (byCall h) with
    | none => "accepted"
    | some (c, lb) =>
      let old := explain S h
      if old != "accepted" then old else
      "order: thread " ++ toString c.tid ++ " call@" ++ toString c.call ++ " ret@" ++ toString c.ret ++ " returned " ++ c.res.text ++
        " which no version >= " ++ toString lb ++ " explains, although a call that had returned before was given version " ++ toString lb

/-! ### the exact checker, as it is run: same answer (`Fox.C05.checkLinFast_eq`), linear passes

  The segments are in increasing version order, so the least allowed version from `lb` on is the first segment from
  `lb` on that explains the call; and because the calls are processed in the order of their call stamps, only the calls
  that have not returned yet (at most one per thread) need to be kept to compute the lower bound of the next one. -/

def pick (S : Sem σ W Q) (segs : List (Seg σ W Q)) (lb : Nat) (c : Call W Q) : Option Nat :=
  (segs.find? fun g => decide (lb ≤ g.ver) && explains S c g).map (·.ver)

/-- lower bound from the versions of the calls already returned (`done`) and of those still pending `(ret, version)` -/
def lbP (done : Nat) (pend : List (Nat × Nat)) (call : Nat) : Nat :=
  pend.foldl (fun m p => if p.1 < call then max m p.2 else m) done

def assignFast (S : Sem σ W Q) (segs : List (Seg σ W Q)) :
    Nat → List (Nat × Nat) → List (Call W Q × Nat) → List (Call W Q) → Option (List (Call W Q × Nat))
  | _, _, acc, [] => some acc
  | done, pend, acc, c :: cs =>
    match pick S segs (lbP done pend c.call) c with
    | none => none
    | some v =>
      assignFast S segs (lbP done pend c.call) ((c.ret, v) :: pend.filter fun p => !decide (p.1 < c.call)) ((c, v) :: acc) cs

def checkLinFast (S : Sem σ W Q) (h : List (Call W Q)) : Bool :=
  match mkSegs S 0 S.init none (sortedWrites h) with
  | none => false
  | some segs => (assignFast S segs 0 [] [] (byCall h)).isSome

end Fox.Spec.History
