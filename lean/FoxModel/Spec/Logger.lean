import FoxModel.Basic
/-
  FoxModel.Spec.Logger — what property C20 demands of the Logger middleware, in terms of what happened to the request:
  whether the wrapped handler returned or panicked, the status the response recorder holds, the Location header, the
  outcome of client-IP resolution, the remote address and the request line. No code structure of logger.go appears here.
-/
namespace Fox.Spec.Logger
open Fox

inductive Level where
  | debug | info | warn | error
deriving DecidableEq, Repr, Inhabited

def Level.name : Level → String
  | .debug => "DEBUG" | .info => "INFO" | .warn => "WARN" | .error => "ERROR"

/-- INFO for 2xx, DEBUG for 3xx, WARN for 4xx, ERROR for 5xx; the property says nothing outside 200..599 -/
def levelOf (s : Int) : Option Level :=
  if 200 ≤ s ∧ s ≤ 299 then some .info
  else if 300 ≤ s ∧ s ≤ 399 then some .debug
  else if 400 ≤ s ∧ s ≤ 499 then some .warn
  else if 500 ≤ s ∧ s ≤ 599 then some .error
  else none

/-- what the configured resolver said for this request -/
inductive Resolution where
  | noResolver            -- none configured (the error is, or wraps, ErrNoClientIPResolver)
  | ok (ip : Bytes)
  | failed
deriving DecidableEq, Repr

def unknown : Bytes := "unknown".toList.map (fun c => UInt8.ofNat c.toNat)

/-- the record message: resolver result | remote address when no resolver is configured | "unknown" on failure -/
def message (res : Resolution) (remoteIP : Bytes) : Bytes :=
  match res with
  | .ok ip => ip
  | .noResolver => remoteIP
  | .failed => unknown

structure Record where
  level : Level
  msg : Bytes
  status : Int
  method : String
  host : Bytes
  path : Bytes
  location : Option Bytes
deriving DecidableEq, Repr

/-- what happened to the request below the Logger -/
structure Happened where
  panicked : Bool
  status : Int          -- the status the recorder holds when the handler returns
  location : Bytes      -- the Location response header at that time ([] = unset)
  resolution : Resolution
  remoteIP : Bytes
  method : String
  host : Bytes
  path : Bytes

/-- the records the property demands (`none`: the status is outside the classes the property speaks about) -/
def expected (h : Happened) : Option (List Record) :=
  if h.panicked then some []
  else match levelOf h.status with
    | none => none
    | some l =>
      some [{ level := l, msg := message h.resolution h.remoteIP, status := h.status, method := h.method,
              host := h.host, path := h.path,
              location := if l = .debug ∧ h.location ≠ [] then some h.location else none }]

end Fox.Spec.Logger
