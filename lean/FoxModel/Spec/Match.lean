import FoxModel.Basic
/-
  FoxModel.Spec.Match — the *declarative* meaning of "a pattern matches a request" (core Lean only).

  `Match d ts x bs` : the token list `ts`, instantiated with the bindings `bs` (one per wildcard, in pattern
  order), is the byte string `x`; `d` is the segment delimiter ('/' in the path part, '.' in the hostname part).
  `Spec/Route.lean` contains the executable enumeration `specAll`/`specHost` that the Go router is tested
  against; `Lemmas/SpecMeaning.lean` proves that the enumeration produces exactly the `Match`es, in the
  priority order given by `trace`/`traceLe` below.
-/
namespace Fox

/-- no two adjacent '/' (no empty segment strictly inside) -/
def NoDbl : Bytes → Prop
  | x :: y :: r => ¬ (x = SLASH ∧ y = SLASH) ∧ NoDbl (y :: r)
  | _ => True

def NoDbl.dec : (v : Bytes) → Decidable (NoDbl v)
  | [] => isTrue trivial
  | [_] => isTrue trivial
  | x :: y :: r =>
    match NoDbl.dec (y :: r) with
    | isTrue h => if c : x = SLASH ∧ y = SLASH then isFalse (fun hh => hh.1 c) else isTrue ⟨c, h⟩
    | isFalse h => isFalse (fun hh => h hh.2)

instance : DecidablePred NoDbl := NoDbl.dec

/-- The values an *infix* catch-all (`*{n}` followed by more pattern) can capture: exactly the captures
    `specInfix` tries. The capture is non-empty, does not start with '/', does not end with '/' and contains no
    empty segment ("//"). The pattern continues at the '/' that follows the capture (see `Match.infix`).

    For request paths without empty segments — which is what property C01 quantifies over — the last two
    conditions hold automatically (lemma `InfixCap.of_clean`), so there the rule is simply
    "`v` is non-empty and does not start with '/'". -/
def InfixCap (v : Bytes) : Prop :=
  v ≠ [] ∧ v.head? ≠ some SLASH ∧ v.getLast? ≠ some SLASH ∧ NoDbl v

instance : DecidablePred InfixCap := fun v => by unfold InfixCap; exact inferInstance

/-- `Match d ts x bs`: pattern `ts` instantiated with `bs` is the text `x`.
    * a literal stands for itself;
    * `{n}` stands for a non-empty value without the delimiter that extends to the end of its segment
      (what follows is the end of the text or the delimiter);
    * a final `*{n}` stands for any non-empty rest;
    * `*{n}` followed by more pattern stands for an `InfixCap` value, and the rest of the pattern continues at
      the '/' right after it. -/
inductive Match (d : UInt8) : List Tok → Bytes → Binds → Prop
  | nil : Match d [] [] []
  | lit {b ts s bs} : Match d ts s bs → Match d (.lit b :: ts) (b :: s) bs
  | param {n v ts s bs} : v ≠ [] → d ∉ v → (∀ c, s.head? = some c → c = d) →
      Match d ts s bs → Match d (.param n :: ts) (v ++ s) ((n, v) :: bs)
  | suffix {n v} : v ≠ [] → Match d [.catchAll n] v [(n, v)]
  | infix {n v ts s bs} : InfixCap v → ts ≠ [] → s.head? = some SLASH →
      Match d ts s bs → Match d (.catchAll n :: ts) (v ++ s) ((n, v) :: bs)

def Tok.isCatch : Tok → Bool | .catchAll _ => true | _ => false

/-- hostname patterns contain no catch-all -/
def NoCatch (ts : List Tok) : Prop := ∀ t ∈ ts, t.isCatch = false

instance : DecidablePred NoCatch := fun ts => by unfold NoCatch; exact inferInstance

/-- A whole pattern `hostpattern/pathpattern` matches the request `(host, path)`: the pattern splits in front of
    a literal '/' into a catch-all free hostname part that matches the whole host label-wise (delimiter '.')
    and a path part that matches the whole path (delimiter '/'). The bindings are the host bindings followed by
    the path bindings. (If the host contains no '/' byte the split point is the *first* literal '/' of the
    pattern, see `MatchHP.split_unique`.) -/
def MatchHP (pat : List Tok) (host path : Bytes) (bs : Binds) : Prop :=
  ∃ hs pp bh bp, pat = hs ++ pp ∧ pp.head? = some (.lit SLASH) ∧ NoCatch hs ∧
    Match DOT hs host bh ∧ Match SLASH pp path bp ∧ bs = bh ++ bp

/-- A registered route matches a request. A path-only route (`hostToks = 0`) ignores the host; a hostname
    route matches host and path with its recorded host/path split. -/
def MatchReq (r : Route) (host path : Bytes) (bs : Binds) : Prop :=
  if r.hostToks = 0 then Match SLASH r.pattern path bs
  else r.pathPart.head? = some (.lit SLASH) ∧ NoCatch r.hostPart ∧
    ∃ bh bp, Match DOT r.hostPart host bh ∧ Match SLASH r.pathPart path bp ∧ bs = bh ++ bp

/-- substitute the bindings (consumed in order, names must agree) for the wildcards of a pattern -/
def subst : List Tok → Binds → Option Bytes
  | [], [] => some []
  | [], _ :: _ => none
  | .lit b :: ts, bs => (subst ts bs).map (b :: ·)
  | .param n :: ts, (m, v) :: bs => if n = m then (subst ts bs).map (v ++ ·) else none
  | .catchAll n :: ts, (m, v) :: bs => if n = m then (subst ts bs).map (v ++ ·) else none
  | _ :: _, [] => none

/-- the wildcard names of a pattern, in pattern order -/
def wildNames : List Tok → List Bytes
  | [] => []
  | .lit _ :: ts => wildNames ts
  | .param n :: ts => n :: wildNames ts
  | .catchAll n :: ts => n :: wildNames ts

/-- shape of the captures, wildcard by wildcard in pattern order: the binding carries the wildcard's name,
    its value is non-empty, and a `{param}` value does not contain the delimiter `d` -/
def CapsOK (d : UInt8) : List Tok → Binds → Prop
  | [], [] => True
  | .lit _ :: ts, bs => CapsOK d ts bs
  | .param n :: ts, (m, v) :: bs => m = n ∧ v ≠ [] ∧ d ∉ v ∧ CapsOK d ts bs
  | .catchAll n :: ts, (m, v) :: bs => m = n ∧ v ≠ [] ∧ CapsOK d ts bs
  | _, _ => False

/-! ### priority -/

/-- the alternative taken for one pattern token -/
inductive Choice where
  | static
  | param
  | infix (len : Nat)
  | suffix
deriving DecidableEq, Repr

def Choice.rank : Choice → Nat
  | .static => 0 | .param => 1 | .infix _ => 2 | .suffix => 3
def Choice.len : Choice → Nat
  | .infix l => l | _ => 0

/-- static < param < infix ℓ (shorter capture first) < suffix -/
def Choice.lt (a b : Choice) : Prop := a.rank < b.rank ∨ (a.rank = b.rank ∧ a.len < b.len)

instance : DecidableRel Choice.lt := fun a b => by unfold Choice.lt; exact inferInstance

/-- the choices a match makes, one per pattern token -/
def trace : List Tok → Binds → List Choice
  | [], _ => []
  | .lit _ :: ts, bs => .static :: trace ts bs
  | .param _ :: ts, _ :: bs => .param :: trace ts bs
  | [.catchAll _], _ => [.suffix]
  | .catchAll _ :: ts, (_, v) :: bs => .infix v.length :: trace ts bs
  | _ :: _, [] => []

/-- lexicographic order on traces -/
def traceLe : List Choice → List Choice → Prop
  | [], _ => True
  | _ :: _, [] => False
  | a :: as, b :: bs => a.lt b ∨ (a = b ∧ traceLe as bs)

def traceLe.dec : (a b : List Choice) → Decidable (traceLe a b)
  | [], _ => isTrue trivial
  | _ :: _, [] => isFalse id
  | a :: as, b :: bs =>
    match traceLe.dec as bs with
    | isTrue h => if c : a.lt b ∨ a = b then isTrue (c.elim Or.inl fun e => Or.inr ⟨e, h⟩)
        else isFalse (fun hh => c (hh.elim Or.inl fun e => Or.inr e.1))
    | isFalse h => if c : a.lt b then isTrue (Or.inl c) else isFalse (fun hh => hh.elim c fun e => h e.2)

instance : DecidableRel traceLe := traceLe.dec

/-- `(r, bs)` is a highest-priority direct match of `path` among the routes `R` (path patterns):
    it matches, and no match of any route of `R` has a smaller choice trace. -/
def IsBest (R : List Route) (path : Bytes) (r : Route) (bs : Binds) : Prop :=
  r ∈ R ∧ Match SLASH r.pattern path bs ∧
    ∀ r' ∈ R, ∀ bs', Match SLASH r'.pattern path bs' → traceLe (trace r.pattern bs) (trace r'.pattern bs')

/-- the same for hostname patterns and a request `(host, path)` -/
def IsBestHP (R : List Route) (host path : Bytes) (r : Route) (bs : Binds) : Prop :=
  r ∈ R ∧ MatchHP r.pattern host path bs ∧
    ∀ r' ∈ R, ∀ bs', MatchHP r'.pattern host path bs' → traceLe (trace r.pattern bs) (trace r'.pattern bs')

/-- Two patterns are *name-coherent*: walking both from the left, as long as the tokens agree, they never
    reach a position where both have a `{param}` but with different names, or both an infix catch-all but
    with different names. The router's conflict rule guarantees this for every pair of registered patterns
    (a tree node has at most one parameter child and one catch-all child). -/
def cohPair : List Tok → List Tok → Bool
  | .lit a :: r1, .lit b :: r2 => a != b || cohPair r1 r2
  | .param n1 :: r1, .param n2 :: r2 => n1 == n2 && cohPair r1 r2
  | .catchAll n1 :: r1, .catchAll n2 :: r2 => r1.isEmpty || r2.isEmpty || (n1 == n2 && cohPair r1 r2)
  | _, _ => true

/-- all registered patterns are pairwise name-coherent -/
def CoherentRoutes (R : List Route) : Prop := ∀ r1 ∈ R, ∀ r2 ∈ R, cohPair r1.pattern r2.pattern = true

instance : DecidablePred CoherentRoutes := fun R => by unfold CoherentRoutes; exact inferInstance

end Fox
