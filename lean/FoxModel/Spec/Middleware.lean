import FoxModel.Model.Middleware
/-
  FoxModel.Spec.Middleware — what property C13 demands of a middleware chain (declarative; core Lean only).
-/
namespace Fox.Spec.MW
open Fox.Model.MW

/-- `k ∈ m.scope`: bit `k.idx` of the scope mask is set -/
def inScope (k : Kind) (m : Mw) : Bool := m.scope.testBit k.idx

/-- ids of the middleware that must run around a handler of kind `k`, in registration order -/
def selected (k : Kind) (mws : List Mw) : List Nat := (mws.filter (inScope k)).map (·.id)

/-- enters in registration order, the handler, exits in reverse order -/
def chain (ids : List Nat) (h : Trace) : Trace := ids.map Ev.enter ++ h ++ ids.reverse.map Ev.exit

/-- the trace of one request served by a handler of kind `k` -/
def trace (k : Kind) (mws : List Mw) (h : Trace) : Trace := chain (selected k mws) h

/-- what the global options register, in plain words: DefaultOptions puts Recovery (route handlers only) and Logger
    (all handlers) in front of everything registered before it; the other options append in order -/
def globalMws : List Mw → List GOpt → List Mw
  | acc, [] => acc
  | acc, .middleware ms :: os => globalMws (acc ++ ms.filterMap fun o => o.map fun i => ⟨i, cAllHandlers, true⟩) os
  | acc, .middlewareFor s ms :: os => globalMws (acc ++ ms.filterMap fun o => o.map fun i => ⟨i, s, true⟩) os
  | acc, .defaults :: os => globalMws (⟨recoveryId, cRouteHandler, true⟩ :: ⟨loggerId, cAllHandlers, true⟩ :: acc) os
  | acc, .autoOptions _ :: os => globalMws acc os
  | acc, .noMethod _ :: os => globalMws acc os

end Fox.Spec.MW
