import FoxModel.Model.Options
/-
  FoxModel.Spec.Options — what property C19 demands of a route's configuration, stated per field as "the last option
  that speaks about the field decides, otherwise the router's value at creation time". Core Lean only.
-/
namespace Fox.Spec.Opt
open Fox Fox.Model.MW Fox.Model.Opt

/-- what an option says about the redirect flag: `WithRedirectTrailingSlash(b)` sets it, `WithIgnoreTrailingSlash(true)`
    clears it, `WithIgnoreTrailingSlash(false)` and everything else say nothing -/
def saysRedirect : RouteOpt → Option Bool
  | .redirectTS b => some b
  | .ignoreTS true => some false
  | _ => none

def saysIgnore : RouteOpt → Option Bool
  | .ignoreTS b => some b
  | .redirectTS true => some false
  | _ => none

def saysResolver : RouteOpt → Option (Option Nat)
  | .clientIP o => some o        -- nil ⇒ none
  | _ => none

def saysAnnotation (k : AnnKey) : RouteOpt → Option Nat
  | .annotation k' v => if k' = k then some v else none
  | _ => none

def ownOf : RouteOpt → List Nat
  | .middleware ms => ms.filterMap id
  | _ => []

/-- the last statement about a field, or the default -/
def lastOr {α β : Type} (says : α → Option β) (dflt : β) (opts : List α) : β := ((opts.filterMap says).getLast?).getD dflt

def optValid : RouteOpt → Bool
  | .middleware ms => !ms.contains none
  | .annotation k _ => !k.isNil && k.hashable
  | _ => true

structure RouteView where
  redirectTS : Bool
  ignoreTS : Bool
  clientip : Option Nat
  own : List Nat
deriving Repr, DecidableEq

/-- the configuration a route must carry -/
def routeView (cfg : RouterCfg) (opts : List RouteOpt) : RouteView :=
  { redirectTS := lastOr saysRedirect cfg.redirectTS opts
    ignoreTS := lastOr saysIgnore cfg.ignoreTS opts
    clientip := lastOr saysResolver cfg.clientip opts
    own := opts.flatMap ownOf }

/-- the value `Route.Annotation(k)` must return (`none` = nil) for a key that equals itself -/
def annotationOf (opts : List RouteOpt) (k : AnnKey) : Option Nat := lastOr (fun o => (saysAnnotation k o).map some) none opts

/-- the same per-field reading for the router-wide flags -/
def gSaysRedirect : GlobalOpt → Option Bool
  | .redirectTS b => some b
  | .ignoreTS true => some false
  | _ => none
def gSaysIgnore : GlobalOpt → Option Bool
  | .ignoreTS b => some b
  | .redirectTS true => some false
  | _ => none
/-- globally a nil resolver says nothing (the earlier resolver stays) -/
def gSaysResolver : GlobalOpt → Option (Option Nat)
  | .clientIP (some k) => some (some k)
  | _ => none

def gOptValid : GlobalOpt → Bool
  | .middleware ms => !ms.contains none
  | .middlewareFor _ ms => !ms.contains none
  | .noRouteHandler isNil => !isNil
  | .noMethodHandler isNil => !isNil
  | .optionsHandler isNil => !isNil
  | _ => true

def gSaysOptions : GlobalOpt → Option Bool
  | .defaults => some true
  | .autoOptions b => some b
  | .optionsHandler false => some true
  | _ => none
def gSaysNoMethod : GlobalOpt → Option Bool
  | .noMethod b => some b
  | .noMethodHandler false => some true
  | _ => none
def gOwn : GlobalOpt → List Mw
  | .middleware ms => ms.filterMap fun o => o.map fun i => ⟨i, cAllHandlers, true⟩
  | .middlewareFor s ms => ms.filterMap fun o => o.map fun i => ⟨i, s, true⟩
  | _ => []

/-- the router configuration the global options must produce -/
def routerView (gopts : List GlobalOpt) : RouterCfg :=
  { mws := gopts.foldl (fun acc o => if o = .defaults then ⟨recoveryId, cRouteHandler, true⟩ :: ⟨loggerId, cAllHandlers, true⟩ :: acc
                                      else acc ++ gOwn o) []
    handleOptions := lastOr gSaysOptions false gopts
    handleNoMethod := lastOr gSaysNoMethod false gopts
    redirectTS := lastOr gSaysRedirect false gopts
    ignoreTS := lastOr gSaysIgnore false gopts
    clientip := lastOr gSaysResolver none gopts }

/-- which handler kind answers each probe request of the `opts` stream, for a route with the given flags -/
inductive Probe where
  | direct | slashToggled | unknownPath | otherMethod | optionsReq
deriving DecidableEq, Repr

def kindFor (cfg : RouterCfg) (routeRedirect routeIgnore : Bool) : Probe → Kind
  | .direct => .route
  | .slashToggled => if routeIgnore then .route else if routeRedirect then .redirect else .noRoute
  | .unknownPath => .noRoute
  | .otherMethod => if cfg.handleNoMethod then .noMethod else .noRoute
  | .optionsReq => if cfg.handleOptions then .options else if cfg.handleNoMethod then .noMethod else .noRoute

end Fox.Spec.Opt
