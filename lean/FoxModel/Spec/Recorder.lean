import FoxModel.Model.Recorder
/-
  FoxModel.Spec.Recorder — what property C14 demands of Status / Size / Written, computed from the ghost log of the
  underlying writer only (no recorder state). Core Lean only.
-/
namespace Fox.Recorder.Spec
open Fox.Recorder

/-- summary of a log: first final status, number of final statuses, accepted body bytes, "a final status came after
    an accepted body byte" -/
structure Obs where
  first : Option Nat := none
  finals : Nat := 0
  bytes : Nat := 0
  lateFinal : Bool := false
deriving DecidableEq, Repr, Inhabited

def Obs.step (o : Obs) : Ev → Obs
  | .hdr c =>
    if isFinal c then
      { o with first := (match o.first with | some f => some f | none => some c),
               finals := o.finals + 1,
               lateFinal := o.lateFinal || decide (o.bytes > 0) }
    else o
  | .body n => { o with bytes := o.bytes + n }
  | _ => o

def observe (log : List Ev) : Obs := log.foldl Obs.step {}

/-- Status must be the first final status forwarded (200 while there is none) -/
def status (log : List Ev) : Nat := (observe log).first.getD 200
/-- Size must be the number of body bytes the underlying writer accepted -/
def size (log : List Ev) : Int := (observe log).bytes
/-- Written must hold exactly when a final header was forwarded or a body byte accepted -/
def written (log : List Ev) : Bool := (observe log).first.isSome || decide ((observe log).bytes > 0)
/-- at most one final status is ever forwarded, and none after an accepted body byte -/
def wellFormed (log : List Ev) : Bool := decide ((observe log).finals ≤ 1) && !(observe log).lateFinal

/-- an optional capability (hijack, push, deadlines, full duplex) must be delegated exactly when the underlying writer -
    the one the router was given, not a writer it may wrap - offers it, and fail with ErrNotSupported otherwise;
    `none` for calls that are not capability calls -/
def capability (sh : Shape) : Call → Option Bool
  | .hj => some sh.hj | .pu => some sh.pu | .rd => some sh.dl | .wd => some sh.dl | .fd => some sh.fd
  | _ => none

def showCapability : Option Bool → String
  | none => "-" | some true => "deleg" | some false => "notsup"

/-- Redirect must accept exactly the codes 300..308 -/
def redirectOk (code : Nat) : Bool := decide (300 ≤ code) && decide (code ≤ 308)

end Fox.Recorder.Spec
