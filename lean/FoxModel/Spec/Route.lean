import FoxModel.Basic
/-
  FoxModel.Spec.Route — the routing specification: *which* registered route answers a request, with which
  parameters. No radix tree here: a route set is a plain list of routes and the search is a depth-first
  enumeration over *sets of pattern suffixes*, in the documented priority order

      static text  <  {param}  <  *{catch-all} continued (shorter capture first)  <  *{catch-all} to the end.

  `Spec.route` stages hostname routes before path-only ones and direct matches before slash-adjusted ones.
-/
namespace Fox.Spec

/-- a set of pattern suffixes, each with the route it belongs to -/
abbrev SufSet := List (List Tok × Route)
abbrev Res := List (Route × Binds)

def advLit (b : UInt8) (S : SufSet) : SufSet :=
  S.filterMap fun sr => match sr.1 with
    | .lit c :: s' => if c = b then some (s', sr.2) else none
    | _ => none

def advParam (S : SufSet) : List (Bytes × (List Tok × Route)) :=
  S.filterMap fun sr => match sr.1 with
    | .param n :: s' => some (n, (s', sr.2))
    | _ => none

/-- first occurrences, duplicates removed -/
def names : List Bytes → List Bytes
  | [] => []
  | x :: xs => x :: (names xs).filter (· ≠ x)

def paramNames (S : SufSet) : List Bytes := names ((advParam S).map (·.1))

def advParamNamed (n : Bytes) (S : SufSet) : SufSet :=
  (advParam S).filterMap fun x => if x.1 = n then some x.2 else none

/-- members `*{n} s'` with `s' ≠ []` (infix catch-all) -/
def advInfix (S : SufSet) : List (Bytes × (List Tok × Route)) :=
  S.filterMap fun sr => match sr.1 with
    | .catchAll n :: t :: s' => some (n, (t :: s', sr.2))
    | _ => none

def infixNames (S : SufSet) : List Bytes := names ((advInfix S).map (·.1))

def advInfixNamed (n : Bytes) (S : SufSet) : SufSet :=
  (advInfix S).filterMap fun x => if x.1 = n then some x.2 else none

def endsHere (S : SufSet) (ps : Binds) : Res :=
  S.filterMap fun sr => if sr.1 = [] then some (sr.2, ps) else none

/-- members `[*{n}]`: a suffix catch-all takes the whole (non-empty) rest -/
def suffixCatch (S : SufSet) (path : Bytes) (ps : Binds) : Res :=
  S.filterMap fun sr => match sr.1 with
    | [.catchAll n] => some (sr.2, ps ++ [(n, path)])
    | _ => none

mutual
/-- all direct matches of `path` against the suffix set, in priority order. `d` is the segment delimiter
    ('/' in the path part). -/
def specAll (S : SufSet) (path : Bytes) (ps : Binds) : Res :=
  match path with
  | [] => endsHere S ps
  | b :: rest =>
    specAll (advLit b S) rest ps
    ++ (if h : segEnd SLASH (b :: rest) = 0 then [] else
         (paramNames S).flatMap fun n =>
           specAll (advParamNamed n S) ((b :: rest).drop (segEnd SLASH (b :: rest)))
             (ps ++ [(n, (b :: rest).take (segEnd SLASH (b :: rest)))]))
    ++ (if b = SLASH then [] else
         (infixNames S).flatMap fun n => specInfix (advInfixNamed n S) n [b] rest ps)
    ++ suffixCatch S (b :: rest) ps
termination_by (path.length, 0)
decreasing_by
  all_goals simp_wf
  · simp [Prod.lex_def]
  · have := segEnd_le SLASH (b :: rest); simp [Prod.lex_def] at *; omega
  · simp [Prod.lex_def]

/-- an infix catch-all named `n` has captured `acc` (non-empty, no leading '/') so far; try to continue the
    pattern at every following '/' (left to right), the capture growing segment by segment -/
def specInfix (S : SufSet) (n : Bytes) (acc : Bytes) (rest : Bytes) (ps : Binds) : Res :=
  match rest with
  | [] => []
  | c :: rest' =>
    if c = SLASH then
      if acc.getLast? = some SLASH then []          -- an empty segment ends the search for continuations
      else specAll S (c :: rest') (ps ++ [(n, acc)]) ++ specInfix S n (acc ++ [c]) rest' ps
    else specInfix S n (acc ++ [c]) rest' ps
termination_by (rest.length, 1)
decreasing_by
  all_goals simp_wf
  all_goals simp [Prod.lex_def]
end

/-- hostname part: same search with '.' as delimiter and no catch-all; when the host is used up the members
    that stand at their host/path boundary continue with the path -/
def specHost (S : SufSet) (host : Bytes) (path : Bytes) (ps : Binds) : Res :=
  match host with
  | [] => specAll (S.filter fun sr => match sr.1 with | .lit c :: _ => c == SLASH | _ => false) path ps
  | b :: rest =>
    specHost (advLit b S) rest path ps
    ++ (if h : segEnd DOT (b :: rest) = 0 then [] else
         (paramNames S).flatMap fun n =>
           specHost (advParamNamed n S) ((b :: rest).drop (segEnd DOT (b :: rest))) path
             (ps ++ [(n, (b :: rest).take (segEnd DOT (b :: rest)))]))
termination_by host.length
decreasing_by
  all_goals simp_wf
  · have := segEnd_le DOT (b :: rest); simp at *; omega

def sufsOf (rs : List Route) : SufSet := rs.map fun r => (r.pattern, r)

def isHostRoute (r : Route) : Bool := r.hostToks != 0

def endsWithLitSlash (r : Route) : Bool := r.pattern.getLast? == some (.lit SLASH)

/-- request path with the trailing slash removed / added; `none` for "/" -/
def adjust (path : Bytes) : Option (Bytes × Bool) :=
  if path = [SLASH] then none
  else if endsWithSlash path then some (path.dropLast, false)
  else some (path ++ [SLASH], true)

structure Found where
  route : Route
  params : Binds
  tsr : Bool
deriving Repr, BEq, DecidableEq

def first (res : Res) (tsr : Bool) : Option Found :=
  match res with
  | [] => none
  | (r, ps) :: _ => some ⟨r, ps, tsr⟩

/-- best slash-adjusted match of `run` (a direct-match search parameterised by route set and path) -/
def bestTsr (rs : List Route) (path : Bytes) (run : List Route → Bytes → Res) : Option Found :=
  match adjust path with
  | none => none
  | some (p', added) =>
    first (run (if added then rs.filter endsWithLitSlash else rs) p') true

def pathOnly (P : List Route) (path : Bytes) : Option Found :=
  (first (specAll (sufsOf P) path []) false).orElse fun _ =>
    bestTsr P path (fun rs p => specAll (sufsOf rs) p [])

/-- port and one trailing dot removed, as `net.SplitHostPort` splits it (IPv6 in brackets); unchanged on error -/
def stripHostPort (h : Bytes) : Bytes :=
  let trimDot (x : Bytes) : Bytes := if x.getLast? = some DOT then x.dropLast else x
  if h = [] then h
  else if ¬ h.contains COLON then trimDot h
  else
    -- net.SplitHostPort
    let j := (h.reverse.findIdx (· == COLON))       -- distance of the last colon from the end
    let i := h.length - 1 - j                        -- index of the last colon
    let hostPart := h.take i
    let ok : Option Bytes :=
      match h with
      | 91 :: _ =>                                   -- '[' : expect the first ']' right before the last colon
        let e := h.findIdx (· == 93)
        if e = h.length then none                    -- missing ']'
        else if e + 1 = h.length then none           -- missing port
        else if e + 1 ≠ i then none                  -- too many colons / missing port
        else if (h.drop 1).contains 91 then none     -- unexpected '['
        else if (h.drop (e + 1)).contains 93 then none
        else some ((h.take e).drop 1)
      | _ =>
        if hostPart.contains COLON then none         -- too many colons
        else if h.contains 91 || h.contains 93 then none
        else some hostPart
    match ok with
    | none => h
    | some x => trimDot x

/-- **The routing specification.** `rs` are the routes registered for the request's method. -/
def route (rs : List Route) (hostPort : Bytes) (path : Bytes) : Option Found :=
  let H := rs.filter isHostRoute
  let P := rs.filter (fun r => !isHostRoute r)
  let h := stripHostPort hostPort
  if H = [] ∨ h = [] then pathOnly P path
  else
    ((first (specHost (sufsOf H) h path []) false).orElse fun _ =>
      bestTsr H path (fun rs p => specHost (sufsOf rs) h p [])).orElse fun _ =>
    pathOnly P path

end Fox.Spec
