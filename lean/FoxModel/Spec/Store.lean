import FoxModel.Basic
/-
  FoxModel.Spec.Store — the registered routes as a sequential map keyed by (method, pattern): the specification
  of Handle / Update / Delete / Truncate and of the readers (property C02).
-/
namespace Fox.Spec

/-- registered routes in registration order; the key of an entry is (method, pattern text) -/
abbrev Store := List (Bytes × Route)

def dropCommon : List Tok → List Tok → List Tok × List Tok
  | a :: as, b :: bs => if a = b then dropCommon as bs else (a :: as, b :: bs)
  | as, bs => (as, bs)

/-- two patterns declare a different wildcard of the same kind at the same position -/
def conflictWith (a b : List Tok) : Bool :=
  match dropCommon a b with
  | (.param x :: _, .param y :: _) => x != y
  | (.catchAll x :: _, .catchAll y :: _) => x != y
  | _ => false

def Store.get (s : Store) (m : Bytes) (pat : List Tok) : Option Route :=
  (s.find? fun e => e.1 == m && e.2.pattern == pat).map (·.2)

def Store.conflicts (s : Store) (m : Bytes) (pat : List Tok) : List Route :=
  (s.filter fun e => e.1 == m && conflictWith e.2.pattern pat).map (·.2)

inductive Outcome where
  | ok (r : Route)
  | exist
  | notFound
  | conflict (routes : List Route)
deriving Repr, BEq

def Store.handle (s : Store) (m : Bytes) (r : Route) : Store × Outcome :=
  match s.get m r.pattern with
  | some _ => (s, .exist)
  | none =>
    match s.conflicts m r.pattern with
    | [] => (s ++ [(m, r)], .ok r)
    | cs => (s, .conflict cs)

def Store.update (s : Store) (m : Bytes) (r : Route) : Store × Outcome :=
  match s.get m r.pattern with
  | none => (s, .notFound)
  | some _ => (s.map fun e => if e.1 == m && e.2.pattern == r.pattern then (m, r) else e, .ok r)

def Store.delete (s : Store) (m : Bytes) (pat : List Tok) : Store × Outcome :=
  match s.get m pat with
  | none => (s, .notFound)
  | some old => (s.filter fun e => !(e.1 == m && e.2.pattern == pat), .ok old)

def Store.truncate (s : Store) (methods : List Bytes) : Store :=
  if methods.isEmpty then [] else s.filter fun e => !methods.contains e.1

def Store.routesOf (s : Store) (m : Bytes) : List Route := (s.filter fun e => e.1 == m).map (·.2)

end Fox.Spec
