import FoxModel.Spec.Store
import FoxModel.Spec.Route
/-
  FoxModel.Spec.Txn — the specification of transactions (property C04), as simple as it can be said:

  * the router has one *published* store (`Spec.Store`, the sequential map of C02);
  * every open transaction owns a private store, initialised with the store that was published when it began
    (a snapshot / iterator: with the private store of its source); reads and writes through a transaction
    touch only that private store;
  * `Commit` of a write transaction installs its private store as the published one; **every other ending**
    (Abort, error returned from the managed function, panic inside it) discards it;
  * at most one write transaction is open at a time (a second one has to wait);
  * a settled write transaction refuses further use; a read-only transaction refuses writes.

  There is no mutex, no tree and no pointer in this file.
-/
namespace Fox.Spec.Txn
open Fox Fox.Spec

abbrev TxnId := Nat

/-- write operations of the API -/
inductive WOp where
  | handle (m : Bytes) (r : Route)
  | update (m : Bytes) (r : Route)
  | delete (m : Bytes) (pat : List Tok)
  | truncate (ms : List Bytes)

/-- read operations of the API (`all` = `Iter().All()`) -/
inductive ROp where
  | has (m : Bytes) (pat : List Tok)
  | len
  | all
  | lookup (m host path : Bytes)

inductive RVal where
  | route (r : Option Route)
  | num (n : Nat)
  | routes (l : List (Bytes × Route))
  | looked (f : Option Found)

def applyW (s : Store) : WOp → Store × Outcome
  | .handle m r => s.handle m r
  | .update m r => s.update m r
  | .delete m p => s.delete m p
  | .truncate ms => (s.truncate ms, .ok default)

def applyWs (s : Store) (ws : List WOp) : Store := ws.foldl (fun st w => (applyW st w).1) s

def readS (s : Store) : ROp → RVal
  | .has m p => .route (s.get m p)
  | .len => .num s.length
  | .all => .routes s
  | .lookup m h p => .looked (Spec.route (s.routesOf m) h p)

/-- a transaction of the specification: `store = none` ⇔ settled (committed or aborted) -/
structure TxnS where
  id : TxnId
  write : Bool
  store : Option Store

structure State where
  pub : Store := []
  txns : List TxnS := []
  next : TxnId := 0

inductive Out where
  | opened (t : TxnId)
  | wouldBlock
  | unknownTxn
  | w (r : Outcome)
  | readOnly
  | panicSettled
  | v (x : RVal)
  | nilSnap
  | done

def State.find (s : State) (t : TxnId) : Option TxnS := s.txns.find? (·.id == t)
def State.set (s : State) (t : TxnId) (x : TxnS) : State :=
  { s with txns := s.txns.map fun y => if y.id == t then x else y }

/-- a write transaction is open -/
def State.writerOpen (s : State) : Bool := s.txns.any fun x => x.write && x.store.isSome

def State.add (s : State) (write : Bool) (st : Store) : State × Out :=
  ({ s with txns := ⟨s.next, write, some st⟩ :: s.txns, next := s.next + 1 }, .opened s.next)

def begin (s : State) (write : Bool) : State × Out :=
  if write && s.writerOpen then (s, .wouldBlock) else s.add write s.pub

def write (s : State) (t : TxnId) (w : WOp) : State × Out :=
  match s.find t with
  | none => (s, .unknownTxn)
  | some x =>
    match x.store with
    | none => (s, .panicSettled)
    | some st =>
      if !x.write then (s, .readOnly) else
      let (st', r) := applyW st w
      (s.set t { x with store := some st' }, .w r)

def read (s : State) (t : TxnId) (q : ROp) : State × Out :=
  match s.find t with
  | none => (s, .unknownTxn)
  | some x =>
    match x.store with
    | none => (s, .panicSettled)
    | some st => (s, .v (readS st q))

def rread (s : State) (q : ROp) : State × Out := (s, .v (readS s.pub q))

/-- `Snapshot`: a read-only copy of the private store (nil when settled) -/
def snapshot (s : State) (t : TxnId) : State × Out :=
  match s.find t with
  | none => (s, .unknownTxn)
  | some x =>
    match x.store with
    | none => (s, .nilSnap)
    | some st => s.add false st

/-- `Txn.Iter()`: a frozen view of the private store (refused when settled) -/
def iter (s : State) (t : TxnId) : State × Out :=
  match s.find t with
  | none => (s, .unknownTxn)
  | some x =>
    match x.store with
    | none => (s, .panicSettled)
    | some st => s.add false st

/-- the only way a private store becomes visible -/
def commit (s : State) (t : TxnId) : State × Out :=
  match s.find t with
  | none => (s, .unknownTxn)
  | some x =>
    match x.write, x.store with
    | true, some st => ({ s.set t { x with store := none } with pub := st }, .done)
    | _, _ => (s, .done)

/-- every other ending discards -/
def abort (s : State) (t : TxnId) : State × Out :=
  match s.find t with
  | none => (s, .unknownTxn)
  | some x =>
    match x.write, x.store with
    | true, some _ => (s.set t { x with store := none }, .done)
    | _, _ => (s, .done)

/-- single-operation helper (`Router.Handle` …): all or nothing -/
def helper (s : State) (w : WOp) : State × Out :=
  if s.writerOpen then (s, .wouldBlock) else
  let (st', r) := applyW s.pub w
  ({ s with pub := st' }, .w r)

end Fox.Spec.Txn
