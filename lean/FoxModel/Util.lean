import FoxModel.Basic
/-
  FoxModel.Util — line-protocol helpers for the `foxmodel` driver (hex coding of byte strings, splitting).
  Not part of any theorem.
-/
namespace Fox.Util
open Fox

def hexDigit (n : Nat) : Char :=
  if n < 10 then Char.ofNat (48 + n) else Char.ofNat (87 + n)

def hexVal (c : Char) : Option Nat :=
  if '0' ≤ c ∧ c ≤ '9' then some (c.toNat - 48)
  else if 'a' ≤ c ∧ c ≤ 'f' then some (c.toNat - 87)
  else if 'A' ≤ c ∧ c ≤ 'F' then some (c.toNat - 55)
  else none

/-- bytes → lower-case hex, "_" for the empty string -/
def toHex (b : Bytes) : String :=
  if b.isEmpty then "_" else
  String.ofList (b.flatMap fun x => [hexDigit (x.toNat / 16), hexDigit (x.toNat % 16)])

def fromHexChars : List Char → Option Bytes
  | [] => some []
  | [_] => none
  | a :: b :: rest =>
    match hexVal a, hexVal b, fromHexChars rest with
    | some x, some y, some r => some (UInt8.ofNat (x * 16 + y) :: r)
    | _, _, _ => none

def fromHex (s : String) : Option Bytes :=
  if s == "_" || s == "" then some [] else fromHexChars s.toList

def fromHex! (s : String) : Bytes := (fromHex s).getD []

def ascii (s : String) : Bytes := s.toList.map fun c => UInt8.ofNat c.toNat

def showBytes (b : Bytes) : String := String.ofList (b.map fun x => Char.ofNat x.toNat)

def splitNonEmpty (s : String) (sep : String) : List String :=
  (s.splitOn sep).filter (· ≠ "")

def join (xs : List String) (sep : String) : String := sep.intercalate xs

def showBinds (ps : Binds) : String :=
  if ps.isEmpty then "-" else join (ps.map fun (k, v) => toHex k ++ "=" ++ toHex v) ","

end Fox.Util
