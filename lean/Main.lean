import FoxModel.Driver.Ops
import FoxModel.Driver.Serve
import FoxModel.Driver.ClientIP
import FoxModel.Driver.Recorder
import FoxModel.Driver.Recovery
import FoxModel.Driver.Clean
import FoxModel.Driver.Logger
import FoxModel.Driver.Txn
import FoxModel.Driver.Hist
import FoxModel.Driver.Parked
import FoxModel.Driver.Mw
import FoxModel.Driver.Opts
import FoxModel.Driver.Ctx
import FoxModel.Driver.Parse
import FoxModel.Driver.LRU
import FoxModel.Driver.Bulk
/-
  foxmodel — line-protocol driver: one case per input line (tab separated, first field = stream name),
  one output line per case. Core Lean only (links without Mathlib).
-/
open Fox

def dispatch (line : String) : String :=
  let fields := line.splitOn "\t"
  match fields.head? with
  | some "ops" => Driver.Ops.handle fields
  | some "serve" => Driver.Serve.handle fields
  | some "clientip" => Driver.ClientIP.handle fields
  | some "rw" => Driver.Recorder.handle fields
  | some "recovery" => Driver.Recovery.handle fields
  | some "clean" => Driver.Clean.handle fields
  | some "cleanredir" => Driver.Clean.handleRedir fields
  | some "logger" => Driver.Logger.handle fields
  | some "txn" => Driver.Txn.handle fields
  | some "chist" => Driver.Hist.handleHist fields
  | some "conc" => Driver.Hist.handleConc fields
  | some "parked" => Driver.Parked.handle fields
  | some "mw" => Driver.Mw.handle fields
  | some "opts" => Driver.Opts.handle fields
  | some "ctx" => Driver.Ctx.handle fields
  | some "parse" => Driver.Parse.handle fields
  | some "routable" => Driver.Parse.handle fields
  | some "hist" => Driver.Ops.handle (fields.take 2)
  | some "lru" => Driver.LRU.handle fields
  | some "bulk" => Driver.Bulk.handle fields
  | _ => "M=unknown-stream"

partial def loop (h : IO.FS.Stream) (out : IO.FS.Stream) : IO Unit := do
  let line ← h.getLine
  if line.isEmpty then return ()
  let l := ((line.dropEndWhile (fun c => c == '\n' || c == '\r')).toString)
  if l.startsWith "#" then
    out.putStrLn "#"
  else
    out.putStrLn (dispatch l)
  loop h out

def main : IO Unit := do
  let out ← IO.getStdout
  loop (← IO.getStdin) out
  out.flush
