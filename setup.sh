#!/bin/sh
# Builds the framework offline from files on disk: the Lean project (model, specification, proofs, driver),
# the fact extractor and the correspondence harness (the latter two are rebuilt from /repo by every check).
set -e
cd "$(dirname "$0")"
export GOFLAGS=-mod=mod GOPROXY=off
unset GOSUMDB GOTOOLCHAIN || true
mkdir -p .build evidence replays
(cd extract && go build -o ../.build/foxfacts .)
./.build/foxfacts "${VERIF_REPO:-/repo}" lean/FoxModel/Generated
(cd lean && lake build)
sed "s#=> /repo#=> ${VERIF_REPO:-/repo}#" harness/go.mod > .build/harness.mod
cp "${VERIF_REPO:-/repo}/go.sum" .build/harness.sum
(cd harness && go build -modfile=../.build/harness.mod -tags verif -o ../.build/foxharness .)
rm -f .build/go.stamp
echo "setup ok"
