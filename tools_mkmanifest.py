#!/usr/bin/env python3
"""Regenerates MANIFEST.json from props/*.json (run by hand after editing a property configuration)."""
import glob, json, os
ROOT = os.path.dirname(os.path.abspath(__file__))
props = [json.loads(l) for l in open(os.path.join(ROOT, "properties.jsonl"))]
checks, na = [], []
for p in props:
    pid = p["id"]
    cfgp = os.path.join(ROOT, "props", pid + ".json")
    cfg = json.load(open(cfgp)) if os.path.exists(cfgp) else None
    if cfg is None or cfg.get("not_applicable"):
        na.append({"property_id": pid, "reason": (cfg or {}).get("not_applicable", "check under construction in this framework; not claimed yet")})
        continue
    checks.append({
        "property_id": pid,
        "quick_cmd": "./check %s --tier quick" % pid,
        "thorough_cmd": "./check %s --tier thorough" % pid,
        "evidence_file": "/verif/evidence/%s.json" % pid,
        "replay_cmd_template": "./check %s --replay {path}" % pid,
        "engine": "lean-proofs+correspondence",
        "level_claimed": {"category": "proof", "text": cfg.get("level_text", ""), "design_ref": "DESIGN.md §4 " + pid},
        "level_note": cfg.get("level_note", ""),
        "technique": cfg.get("technique", "machine-checked proof in Lean 4 over a model tied to the code by regenerated facts and differential correspondence"),
    })
m = {
    "version": 1,
    "setup_cmd": "./setup.sh",
    "hooks": {
        "guard": "verif",
        "enable": "go build -tags verif (harness/ replaces github.com/tigerwill90/fox => /repo)",
        "baseline_off_cmd": "cd /repo && GOFLAGS=-mod=mod go test -json -vet=off -count=1 -timeout 25m ./...",
        "source_commits": [l.split()[0] for l in os.popen("git -C /repo log --format='%h %s' | grep ' verif:'").read().splitlines()],
        "add_only": True,
    },
    "engines": [
        {"name": "lean-proofs", "path": "lean/", "serves_properties": [c["property_id"] for c in checks],
         "kind_free_text": "Lean 4 project FoxModel: executable model + executable specification + property theorems (Props/Cxx.lean), audited with #print axioms on every run, leanchecker in the thorough tier"},
        {"name": "foxfacts", "path": "extract/", "serves_properties": [c["property_id"] for c in checks],
         "kind_free_text": "go/ast fact extractor regenerating lean/FoxModel/Generated/*.lean from /repo on every run"},
        {"name": "foxharness+foxmodel", "path": "harness/", "serves_properties": [c["property_id"] for c in checks],
         "kind_free_text": "correspondence check: real fox package (built from /repo, -tags verif) versus the compiled Lean model/spec on generated cases; model-free oracles"},
    ],
    "checks": checks,
    "not_applicable": na,
    "notes": "See DESIGN.md. KNOWN_FINDINGS.txt lists repaired defects (fixed:) and recorded findings (finding:).",
}
json.dump(m, open(os.path.join(ROOT, "MANIFEST.json"), "w"), indent=1)
print("checks:", [c["property_id"] for c in checks], "na:", len(na))

# the fact files of the pinned tree (the baseline of the comparison "up to renaming" in ./check): refreshed from the last
# regeneration, which tools_mkmanifest is run after (all twenty checks against /repo)
import shutil, glob
_root = os.path.dirname(os.path.abspath(__file__))
_b = os.path.join(_root, "facts_baseline")
os.makedirs(_b, exist_ok=True)
for _f in glob.glob(os.path.join(_b, "*.lean")):
    os.remove(_f)
_exe = os.path.join(_root, ".build", "foxfacts")
if os.path.exists(_exe) and os.path.isdir("/repo"):
    # straight from /repo (never from a Generated/ directory that a run against a scratch copy may have left behind)
    import subprocess
    subprocess.run([_exe, "/repo", _b], check=True, capture_output=True)
else:
    for _f in glob.glob(os.path.join(_root, "lean", "FoxModel", "Generated", "*.lean")):
        shutil.copy(_f, _b)
