#!/usr/bin/env python3
"""python3 tools_refactortest.py <dir with patch.diff, meta.json> <name> [checks…]
Applies a behaviour-preserving change in a scratch worktree of /repo (never in /repo), confirms that the pinned suite
passes with it, runs every check (or the listed ones) against the changed copy and records which of them raise an
alarm (they should not) under /verif/seeded/refactor-<name>/. The scratch worktree is removed afterwards."""
import json, os, shutil, subprocess, sys, time
from concurrent.futures import ThreadPoolExecutor
ROOT = os.path.dirname(os.path.abspath(__file__))
mdir, name = sys.argv[1], sys.argv[2]
checks = sys.argv[3:] or ["C%02d" % i for i in range(1, 21)]
wt = "/tmp/seedwt_" + name
env = dict(os.environ, GOFLAGS="-mod=mod", GOPROXY="off")
def sh(cmd, cwd=None, e=None, timeout=3600):
    p = subprocess.run(cmd, shell=True, cwd=cwd, env=e or env, capture_output=True, text=True, timeout=timeout)
    return p.returncode, (p.stdout + p.stderr)
sh("git -C /repo worktree remove --force %s" % wt)
rc, out = sh("git -C /repo worktree add --detach %s HEAD" % wt)
assert rc == 0, out
res = {"name": name}
try:
    rc, out = sh("git -C %s apply %s" % (wt, os.path.join(mdir, "patch.diff")))
    res["patch_applies"] = rc == 0
    rc2, out2 = sh("cd %s && go build ./... && go build -tags verif ./... && go test -vet=off -count=1 ./... 2>&1 | tail -12" % wt)
    res["suite_with_change"] = "PASS" if "FAIL" not in out2 and rc2 == 0 else "FAIL"
    if res["suite_with_change"] == "FAIL":
        res["suite_output"] = out2[-1500:]
    e2 = dict(env, VERIF_REPO=wt)
    # one check first so that the harness/extractor are built once, then the rest in parallel
    def run(c):
        t0 = time.time()
        rc3, out3 = sh("./check %s" % c, cwd=ROOT, e=e2)
        lines = [l for l in out3.split("\n") if l.startswith("VIOLATION")]
        r = {"exit": rc3, "lines": [l[:300] for l in lines[:3]], "wall_s": round(time.time() - t0, 1)}
        for l in lines:
            if "replay=" in l:
                rp = l.split("replay=")[1].split()[0]
                try:
                    rj = json.load(open(os.path.join(ROOT, rp)))
                    r["replay"] = {k: rj.get(k) for k in ("kind", "no_longer_checks", "observed_vs_expected", "cases") if k in rj}
                    if isinstance(r["replay"].get("cases"), list):
                        r["replay"]["cases"] = r["replay"]["cases"][:2]
                except Exception:
                    pass
                break
        return c, r
    results = dict([run(checks[0])])
    with ThreadPoolExecutor(max_workers=5) as ex:
        for c, r in ex.map(run, checks[1:]):
            results[c] = r
    res["checks"] = results
    res["alarms"] = [c for c, v in results.items() if v["exit"] != 0]
finally:
    sh("git -C /repo worktree remove --force %s" % wt)
    sh("rm -rf %s" % wt)
out = os.path.join(ROOT, "seeded", "refactor-" + name)
os.makedirs(out, exist_ok=True)
for f in os.listdir(mdir):
    shutil.copy(os.path.join(mdir, f), out)
meta = {}
try:
    meta = json.load(open(os.path.join(mdir, "meta.json")))
except Exception:
    pass
meta["confirmed"] = res
json.dump(meta, open(os.path.join(out, "meta.json"), "w"), indent=1)
print(name, "applies:", res.get("patch_applies"), "suite:", res.get("suite_with_change"), "alarms:", res.get("alarms"),
      {c: res["checks"][c]["lines"][:1] for c in res.get("alarms", [])})
