#!/bin/bash
# tools_seedquick.sh <seeded name> <check ids...>: applies seeded/<name>/patch.diff in a scratch worktree of /repo and runs
# the given checks against it (no suite / demo confirmation: that is tools_seedtest.py). The worktree is removed afterwards.
name=$1; shift
wt=/tmp/seedwt_q_$name
git -C /repo worktree remove --force $wt >/dev/null 2>&1; rm -rf $wt
git -C /repo worktree add --detach $wt HEAD >/dev/null 2>&1 || exit 2
git -C $wt apply /verif/seeded/$name/patch.diff || { echo "patch does not apply"; exit 2; }
cd /verif
for c in "$@"; do
  out=$(VERIF_REPO=$wt ./check $c $SEEDQ_ARGS 2>&1); rc=$?
  echo "$name $c exit=$rc $(echo "$out" | grep -m2 '^VIOLATION\|^KNOWN' | cut -c1-160)"
done
git -C /repo worktree remove --force $wt >/dev/null 2>&1; rm -rf $wt
rm -f /verif/.build/go.stamp
