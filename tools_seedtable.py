#!/usr/bin/env python3
"""Prints the markdown table of DESIGN.md Appendix C from seeded/*/meta.json."""
import json, os, glob
rows = []
for d in sorted(glob.glob(os.path.join(os.path.dirname(os.path.abspath(__file__)), "seeded", "*"))):
    mf = os.path.join(d, "meta.json")
    if not os.path.exists(mf):
        continue
    m = json.load(open(mf))
    c = m.get("confirmed", {})
    name = os.path.basename(d)
    caught = c.get("caught_by", [])
    how = []
    for k, v in c.get("checks", {}).items():
        if v.get("exit") == 1:
            nf = any("no-failing-input-found" in l for l in v.get("lines", []))
            how.append(k + (" (proof/tie only)" if nf else " (replay)"))
    summ = m.get("summary", "").replace("|", "/").replace("\n", " ")
    if len(summ) > 260:
        summ = summ[:257] + "..."
    rows.append("| %s | %s | %s |" % (name, summ, ", ".join(how) if how else "**missed**"))
print("| seeded defect | change (suite still passes; the demo in `seeded/<id>/` fails with it) | caught by |")
print("|---|---|---|")
print("\n".join(rows))
