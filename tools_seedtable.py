#!/usr/bin/env python3
"""Prints the markdown table of DESIGN.md Appendix C from seeded/*/meta.json."""
import json, os, glob
rows = []
for d in sorted(glob.glob(os.path.join(os.path.dirname(os.path.abspath(__file__)), "seeded", "*"))):
    mf = os.path.join(d, "meta.json")
    if not os.path.exists(mf):
        continue
    m = json.load(open(mf))
    c = m.get("confirmed", {})
    name = os.path.basename(d)
    caught = c.get("caught_by", [])
    how = []
    for k, v in c.get("checks", {}).items():
        if v.get("exit") == 1:
            nf = any("no-failing-input-found" in l for l in v.get("lines", []))
            how.append(k + (" (proof/tie only)" if nf else " (replay)"))
    summ = m.get("summary", "").replace("|", "/").replace("\n", " ")
    if len(summ) > 260:
        summ = summ[:257] + "..."
    if name.startswith("refactor-"):
        how = [k for k, v in c.get("checks", {}).items() if v.get("exit") != 0]
        rows.append("| %s | %s | %s |" % (name, summ, ", ".join(how) if how else "none"))
    else:
        rows.append("| %s | %s | %s |" % (name, summ, ", ".join(how) if how else "**missed**"))
import sys
sel = sys.argv[1] if len(sys.argv) > 1 else "round1"
def keep(r):
    name = r.split("|")[1].strip()
    if sel == "refactor":
        return name.startswith("refactor-")
    if sel == "round2":
        return "-r2m" in name
    if sel == "round3":
        return "-r3m" in name
    if sel == "round4":
        return "-r4m" in name
    if sel == "round5":
        return "-r5m" in name
    if sel == "round6":
        return "-r6m" in name
    if sel == "round7":
        return "-r7m" in name
    if sel == "round8":
        return "-r8g" in name
    if sel == "round9":
        return "-r9h" in name
    if sel == "round10":
        return "-r10e" in name
    if sel == "round11":
        return "-r11f" in name
    if sel == "round12":
        return "-r12k" in name
    if sel == "round13":
        return "-r13n" in name
    return not name.startswith("refactor-") and not any(t in name for t in ("-r2m", "-r3m", "-r4m", "-r5m", "-r6m", "-r7m", "-r8g", "-r9h", "-r10e", "-r11f", "-r12k", "-r13n"))
if sel == "refactor":
    print("| refactoring | change (behaviour preserving; the suite passes) | checks that raise an alarm |")
else:
    print("| seeded defect | change (suite still passes; the demo in `seeded/<id>/` fails with it) | caught by |")
print("|---|---|---|")
print("\n".join(r for r in rows if keep(r)))
