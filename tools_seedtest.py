#!/usr/bin/env python3
"""tools_seedtest.py <property> <mutation dir> <name> [extra check ids...]
Confirms a seeded defect (suite passes with it, demo fails with it and passes without) in a scratch worktree of /repo
and runs ./check <property> (and the extra checks) against that worktree (VERIF_REPO). Stores the result under seeded/<name>/."""
import json, os, shutil, subprocess, sys, time
prop, mdir, name = sys.argv[1], sys.argv[2], sys.argv[3]
extra = sys.argv[4:]
ROOT = os.path.dirname(os.path.abspath(__file__))
wt = "/tmp/seedwt_%s" % name
env = dict(os.environ, GOFLAGS="-mod=mod", GOPROXY="off")
def sh(cmd, cwd=None, e=None, timeout=1800):
    p = subprocess.run(cmd, shell=True, cwd=cwd, env=e or env, capture_output=True, text=True, timeout=timeout)
    return p.returncode, (p.stdout + p.stderr)
sh("git -C /repo worktree remove --force %s" % wt)
rc, out = sh("git -C /repo worktree add --detach %s HEAD" % wt)
assert rc == 0, out
res = {"property": prop, "name": name}
try:
    # demo without the change
    demotxt = open(os.path.join(mdir, "demo.sh")).read() if os.path.exists(os.path.join(mdir, "demo.sh")) else ""
    sub = "clientip" if "clientip/" in demotxt else "."
    for f in os.listdir(mdir):
        if f.endswith("_test.go") or (f.endswith(".go") and f != "patch.diff"):
            shutil.copy(os.path.join(mdir, f), os.path.join(wt, sub))
    demo = open(os.path.join(mdir, "demo.sh")).read() if os.path.exists(os.path.join(mdir, "demo.sh")) else "go test -vet=off -count=1 -run TestMutDemo ."
    democmd = "cd %s && go test -vet=off -count=1 -run 'TestMutDemo|MutDemo' ./%s 2>&1 | tail -15" % (wt, sub)
    rc0, out0 = sh(democmd)
    res["demo_without_change"] = "PASS" if "ok " in out0 and "FAIL" not in out0 else "FAIL"
    rc, out = sh("git -C %s apply %s" % (wt, os.path.join(mdir, "patch.diff")))
    res["patch_applies"] = rc == 0
    rc1, out1 = sh(democmd)
    res["demo_with_change"] = "FAIL" if "FAIL" in out1 else "PASS"
    res["demo_output_with_change"] = out1[-1500:]
    # suite with the change (without the demo file)
    for f in os.listdir(os.path.join(wt, sub)):
        if f.startswith("zz_mutdemo"):
            os.remove(os.path.join(wt, sub, f))
    rc2, out2 = sh("cd %s && go build ./... && go test -vet=off -count=1 ./... 2>&1 | tail -12" % wt)
    res["suite_with_change"] = "PASS" if "FAIL" not in out2 and rc2 == 0 else "FAIL"
    checks = {}
    for c in [prop] + extra:
        t0 = time.time()
        e2 = dict(env, VERIF_REPO=wt)
        rc3, out3 = sh("./check %s" % c, cwd=ROOT, e=e2)
        lines = [l for l in out3.split("\n") if l.startswith("VIOLATION") or l.startswith("KNOWN")]
        checks[c] = {"exit": rc3, "lines": [l[:300] for l in lines[:4]], "wall_s": round(time.time() - t0, 1)}
        # keep the first replay for the record
        for l in lines:
            if l.startswith("VIOLATION") and "replay=" in l:
                rp = l.split("replay=")[1].split()[0]
                try:
                    checks[c]["replay"] = json.load(open(os.path.join(ROOT, rp)))
                    for k in ("log",):
                        checks[c]["replay"].pop(k, None)
                except Exception:
                    pass
                break
    res["checks"] = checks
    res["caught_by"] = [c for c, v in checks.items() if v["exit"] == 1]
finally:
    sh("git -C /repo worktree remove --force %s" % wt)
    sh("rm -rf %s" % wt)
out = os.path.join(ROOT, "seeded", name)
os.makedirs(out, exist_ok=True)
for f in os.listdir(mdir):
    if os.path.abspath(mdir) != os.path.abspath(out):
        shutil.copy(os.path.join(mdir, f), out)
meta = {}
try:
    meta = json.load(open(os.path.join(mdir, "meta.json")))
except Exception:
    pass
meta["confirmed"] = res
json.dump(meta, open(os.path.join(out, "meta.json"), "w"), indent=1)
print(name, "suite:", res.get("suite_with_change"), "demo with/without:", res.get("demo_with_change"), res.get("demo_without_change"),
      "caught_by:", res.get("caught_by"), {c: v["lines"][:1] for c, v in res["checks"].items()})
